//go:build verif

// Package pure is the registry of exported non-mutating functions of go-geom (property C17)
// together with shared inputs, bitwise storage snapshots and the global-state dump. It is used
// by the in-process purity check, by the cooperative-scheduler exploration and by the
// free-running race pass.
package pure

import (
	"bytes"
	"database/sql/driver"
	"encoding/json"
	"encoding/xml"
	"fmt"
	"math"
	"strings"
	"sync/atomic"

	"github.com/twpayne/go-geom"
	"github.com/twpayne/go-geom/bigxy"
	"github.com/twpayne/go-geom/encoding/ewkb"
	"github.com/twpayne/go-geom/encoding/ewkbhex"
	"github.com/twpayne/go-geom/encoding/geojson"
	"github.com/twpayne/go-geom/encoding/igc"
	"github.com/twpayne/go-geom/encoding/kml"
	"github.com/twpayne/go-geom/encoding/wkb"
	"github.com/twpayne/go-geom/encoding/wkbcommon"
	"github.com/twpayne/go-geom/encoding/wkbhex"
	"github.com/twpayne/go-geom/encoding/wkt"
	"github.com/twpayne/go-geom/sorting"
	"github.com/twpayne/go-geom/transform"
	"github.com/twpayne/go-geom/xy"
	"github.com/twpayne/go-geom/xy/lineintersection"
	"github.com/twpayne/go-geom/xy/lineintersector"
	"github.com/twpayne/go-geom/xy/location"
	"github.com/twpayne/go-geom/xy/orientation"
	"github.com/twpayne/go-geom/xyz"

	"verif/ref"
)

// Globals renders the package-level state of every importable library package.
func Globals() string {
	return strings.Join([]string{
		"geom:" + geom.VerifDumpGlobals(), "bigxy:" + bigxy.VerifDumpGlobals(), "ewkb:" + ewkb.VerifDumpGlobals(),
		"ewkbhex:" + ewkbhex.VerifDumpGlobals(), "geojson:" + geojson.VerifDumpGlobals(), "igc:" + igc.VerifDumpGlobals(),
		"kml:" + kml.VerifDumpGlobals(), "wkb:" + wkb.VerifDumpGlobals(), "wkbcommon:" + wkbcommon.VerifDumpGlobals(),
		"wkbhex:" + wkbhex.VerifDumpGlobals(), "wkt:" + wkt.VerifDumpGlobals(), "sorting:" + sorting.VerifDumpGlobals(),
		"transform:" + transform.VerifDumpGlobals(), "xy:" + xy.VerifDumpGlobals(), "lineintersection:" + lineintersection.VerifDumpGlobals(),
		"lineintersector:" + lineintersector.VerifDumpGlobals(), "location:" + location.VerifDumpGlobals(),
		"orientation:" + orientation.VerifDumpGlobals(), "xyz:" + xyz.VerifDumpGlobals(),
	}, "\n")
}

// Input is one shared argument set. Every slice reachable from it is part of the snapshot.
type Input struct {
	Name  string
	Model *ref.G
	T     geom.T
	WKB   []byte
	EWKB  []byte
	Hex   string
	// HexText: the hex text of the EWKB encoding as a BYTE SLICE - what a text-mode database
	// connection hands to a Scan method; no decoder accepts it as binary, none may write to it
	HexText []byte
	WKT     string
	JSON    []byte
	IGC     []byte
	Coords  [][]float64 // low-level coordinate arguments (each with spare capacity)
	Flat    []float64   // flat coordinate argument for *Flat functions
	Layout  geom.Layout
	// BadT is a geometry that no text/binary encoder can finish: a collection whose LAST member
	// has a layout the format cannot carry, so the encoder fails after it has written the others
	BadT geom.T

	// kept holds the live results of the calls made on this input (the very values the library
	// returned, not renderings), so that they can be rendered again after LATER calls: a result
	// that aliases a pooled or cached buffer changes under a later call.
	kept []any
}

// fp renders results like the package-level fp and retains the live values.
func (in *Input) fp(v ...any) string {
	in.kept = append(in.kept, v...)
	return fp(v...)
}

// keep retains live result values without rendering them.
func (in *Input) keep(v ...any) { in.kept = append(in.kept, v...) }

// ResetKept forgets the retained results.
func (in *Input) ResetKept() { in.kept = nil }

// ScribbleKept overwrites every retained live result the way a caller that owns it may: every
// element of returned byte, int and float slices and of the coordinate storage of returned
// geometries, including spare capacity.
func (in *Input) ScribbleKept() {
	fl := func(f []float64) {
		f = f[:cap(f)]
		for i := range f {
			f[i] = -31337.5
		}
	}
	for _, v := range in.kept {
		switch t := v.(type) {
		case []byte:
			t = t[:cap(t)]
			for i := range t {
				t[i] = 0xAA
			}
		case []int:
			t = t[:cap(t)]
			for i := range t {
				t[i] = -7
			}
		case []float64:
			fl(t)
		case geom.Coord:
			fl(t)
		case geom.T:
			if t == nil || isNil(t) {
				continue
			}
			if _, ok := t.(*geom.GeometryCollection); ok {
				continue
			}
			fl(t.FlatCoords())
		}
	}
}

// Rerender renders every retained live result again.
func (in *Input) Rerender() string { return fp(in.kept...) }

func bitsStr(fs []float64) string {
	var sb strings.Builder
	for _, v := range fs {
		fmt.Fprintf(&sb, "%x,", math.Float64bits(v))
	}
	return sb.String()
}

func geomKey(sb *strings.Builder, t geom.T) {
	if t == nil {
		sb.WriteString("<nil>")
		return
	}
	if gc, ok := t.(*geom.GeometryCollection); ok {
		fmt.Fprintf(sb, "GC{l=%d,s=%d:", gc.Layout(), gc.SRID())
		for _, k := range gc.Geoms() {
			geomKey(sb, k)
		}
		sb.WriteString("}")
		return
	}
	fc := t.FlatCoords()
	fmt.Fprintf(sb, "%T{l=%d,st=%d,s=%d,len=%d,cap=%d,f=%s", t, t.Layout(), t.Stride(), t.SRID(), len(fc), cap(fc), bitsStr(fc[:cap(fc)]))
	e := t.Ends()
	fmt.Fprintf(sb, "e=%d:%v,ee=", len(e), e[:cap(e)])
	ee := t.Endss()
	for _, r := range ee[:cap(ee)] {
		fmt.Fprintf(sb, "[%d]%v", len(r), r[:cap(r)])
	}
	sb.WriteString("}")
}

// Snapshot is the complete bitwise state of everything a function is handed.
func (in *Input) Snapshot() string {
	var sb strings.Builder
	geomKey(&sb, in.T)
	if in.BadT != nil {
		geomKey(&sb, in.BadT)
	}
	fmt.Fprintf(&sb, "|wkb=%x|ewkb=%x|hex=%s|wkt=%s|json=%s|igc=%x|hextext=%x|", in.WKB[:cap(in.WKB)], in.EWKB[:cap(in.EWKB)], in.Hex, in.WKT, in.JSON[:cap(in.JSON)], in.IGC[:cap(in.IGC)], in.HexText[:cap(in.HexText)])
	for _, c := range in.Coords {
		fmt.Fprintf(&sb, "c%d/%d=%s|", len(c), cap(c), bitsStr(c[:cap(c)]))
	}
	fmt.Fprintf(&sb, "flat%d/%d=%s", len(in.Flat), cap(in.Flat), bitsStr(in.Flat[:cap(in.Flat)]))
	return sb.String()
}

func spare(fs []float64) []float64 {
	out := make([]float64, len(fs), len(fs)+3)
	copy(out, fs)
	s := out[len(fs):cap(out)]
	for i := range s {
		s[i] = -4242.5
	}
	return out
}

func spareB(b []byte) []byte {
	out := make([]byte, len(b), len(b)+5)
	copy(out, b)
	s := out[len(b):cap(out)]
	for i := range s {
		s[i] = 0xEE
	}
	return out
}

// val gives non-round coordinates (decimal fractions do not survive x-n+n).
func val() ref.Filler {
	k := 0
	return func() ref.F {
		k++
		return ref.F(float64((k*37)%23) + 0.1*float64(k%7) + 0.013)
	}
}

func ringOf(l geom.Layout, pts [][2]float64, f ref.Filler) []ref.C {
	out := make([]ref.C, 0, len(pts)+1)
	for _, p := range pts {
		c := make(ref.C, l.Stride())
		c[0], c[1] = ref.F(p[0]), ref.F(p[1])
		for k := 2; k < len(c); k++ {
			c[k] = f()
		}
		out = append(out, c)
	}
	first := append(ref.C{}, out[0]...)
	return append(out, first)
}

// models returns the geometry models of the input set.
func models() []*ref.G {
	var out []*ref.G
	for _, l := range ref.Layouts4 {
		f := val()
		shell := [][2]float64{{0.1, 0.2}, {10.3, 0.4}, {10.7, 9.9}, {0.6, 10.1}}
		hole := [][2]float64{{2.1, 2.2}, {3.3, 2.4}, {3.1, 3.7}}
		shell2 := [][2]float64{{20.1, 0.2}, {30.3, 0.4}, {30.7, 9.9}}
		out = append(out,
			ref.NewPoint(l, true, f),
			ref.NewPoint(l, false, f),
			ref.NewLine(ref.LineString, l, 4, f),
			ref.NewLine(ref.LineString, l, 0, f),
			&ref.G{Kind: ref.Polygon, Layout: l, C2: [][]ref.C{ringOf(l, shell, f), ringOf(l, hole, f)}},
			&ref.G{Kind: ref.Polygon, Layout: l, C2: [][]ref.C{}},
			ref.NewMultiPoint(l, []int{1, 0, 1, 1}, f),
			&ref.G{Kind: ref.MultiLineString, Layout: l, C2: [][]ref.C{ref.NewLine(ref.LineString, l, 3, f).C1, {}, ref.NewLine(ref.LineString, l, 2, f).C1}},
			&ref.G{Kind: ref.MultiPolygon, Layout: l, C3: [][][]ref.C{{ringOf(l, shell, f), ringOf(l, hole, f)}, {}, {ringOf(l, shell2, f)}}},
		)
	}
	// polygons with a ring WITHOUT positions after a ring with positions (end offsets that repeat):
	// [shell, empty, hole], [shell, empty], and the first of them inside a collection
	{
		f := val()
		shell := [][2]float64{{0.1, 0.2}, {10.3, 0.4}, {10.7, 9.9}, {0.6, 10.1}}
		hole := [][2]float64{{2.1, 2.2}, {3.3, 2.4}, {3.1, 3.7}}
		p1 := &ref.G{Kind: ref.Polygon, Layout: geom.XY, C2: [][]ref.C{ringOf(geom.XY, shell, f), {}, ringOf(geom.XY, hole, f)}}
		p2 := &ref.G{Kind: ref.Polygon, Layout: geom.XYZ, C2: [][]ref.C{ringOf(geom.XYZ, shell, f), {}}}
		out = append(out, p1, p2, ref.NewCollection(geom.NoLayout, p1.Clone(), ref.NewPoint(geom.XY, true, f)))
	}
	// near-collinear and >50-point inputs (orientation fallback, hull reduction)
	var nc []ref.C
	for i := 0; i < 7; i++ {
		x := 0.5 + float64(i)*23
		nc = append(nc, ref.C{ref.F(x), ref.F(math.Nextafter(x, math.Inf(1)))})
	}
	nc = append(nc, ref.C{12, 12}, ref.C{24, 24}, ref.C{0.5, 0.49999999999999994})
	out = append(out, &ref.G{Kind: ref.LineString, Layout: geom.XY, C1: nc})
	var many []ref.C
	for i := 0; i < 60; i++ {
		many = append(many, ref.C{ref.F(float64(i%8) + 0.1*float64(i%3)), ref.F(float64(i/8) + 0.013*float64(i%5)), ref.F(i)})
	}
	out = append(out, &ref.G{Kind: ref.MultiPoint, Layout: geom.XYZ, C1: many})
	var col []ref.C
	for i := 0; i < 55; i++ {
		col = append(col, ref.C{ref.F(3.3), ref.F(float64((i * 7) % 55))})
	}
	out = append(out, &ref.G{Kind: ref.MultiPoint, Layout: geom.XY, C1: col})
	// collections
	out = append(out,
		ref.NewCollection(geom.NoLayout, ref.NewPoint(geom.XY, true, val()), ref.NewLine(ref.LineString, geom.XY, 2, val()), ref.NewCollection(geom.XY)),
		ref.NewCollection(geom.NoLayout, ref.NewPoint(geom.XYZ, true, val()), ref.NewMultiPoint(geom.XYZ, []int{1, 0}, val())),
		ref.NewCollection(geom.XYM),
	)
	// a collection with an SRID whose members carry SRIDs of their own: equal to the collection's,
	// different from it, and none
	withSRID := ref.NewCollection(geom.NoLayout, ref.NewPoint(geom.XY, true, val()), ref.NewLine(ref.LineString, geom.XY, 2, val()), ref.NewMultiPoint(geom.XY, []int{1, 1}, val()))
	withSRID.SRID = 4326
	withSRID.Kids[0].SRID, withSRID.Kids[1].SRID = 4326, 3857
	out = append(out, withSRID)
	// a Z collection that holds a still empty, layout-less collection next to its members
	out = append(out, ref.NewCollection(geom.NoLayout, ref.NewPoint(geom.XYZ, true, val()), ref.NewCollection(geom.NoLayout), ref.NewLine(ref.LineString, geom.XYZ, 2, val())))
	return out
}

type builder struct {
	name  string
	build func() *Input
}

var builders []builder

func initBuilders() {
	if builders != nil {
		return
	}
	for i, m := range models() {
		m := m
		name := fmt.Sprintf("g%02d/%s/%s", i, m.Kind, m.Layout)
		builders = append(builders, builder{name, func() *Input { return InputForModel(name, m) }})
	}
	// low-level coordinate tuples
	tuples := [][][]float64{
		{{0.5, 0.49999999999999994}, {23.499999999999996, 23.499999999999996}, {47.49999999999999, 47.49999999999999}, {3.1, 7.7}}, // near-collinear, clockwise
		{{0.5, 0.5000000000000001}, {23.499999999999996, 23.499999999999996}, {47.49999999999999, 47.49999999999999}, {7.7, 3.1}},  // near-collinear, the other way
		{{0.1, 0.2}, {10.3, 9.7}, {0.4, 9.9}, {9.6, 0.3}},                                                                          // proper crossing, decimals
		{{0, 0}, {10, 0}, {5, 0}, {5, 7.5}},                                                                    // T-junction
		{{0, 0}, {4, 4}, {2, 2}, {6, 6}},                                                                       // collinear overlap
		{{1.5, 2.5, 3.5}, {4.25, 5.125, 6.0625}, {7.1, 8.2, 9.3}, {0.7, 0.8, math.NaN()}},                      // 3D
		{{4, 4}, {103, 228}, {4.000000000000001, 3.999999999999999}, {102.99999999999999, 227.99999999999997}}, // nearly coincident, crossing: the homogeneous-coordinate intersection fails, central-endpoint fallback
		{{1e120, 2e120}, {9e120, 7e120}, {1e120, 7e120}, {9e120, 1e120}},                                       // proper crossing whose triple products overflow
		{{0, 0}, {10, 10}, {10, 10}, {20, 3}},                                                                  // touching at an end point
		{{0, 0}, {10, 0}, {3, 0}, {20, 0}},                                                                     // collinear, partial overlap
		{{0, 0, 0}, {0, 0, 0}, {1, 1, 1}, {2, 2, 2}},                                                           // zero-length first segment (3D shortcuts)
		{{0, 0, 0}, {4, 0, 0}, {0, 1, 0}, {4, 1, 0}},                                                           // parallel in 3D
		{{0, 0}, {1e-200, 1e-200}, {1e200, 1e200}, {1e-300, 2e300}},                                            // collinear over 400 decades: the exact fallback needs its full width
		{{1e300, 1e-300}, {-1e300, -1e-300}, {3e-300, 3e-600 * 1e300}, {5e-324, 1e308}},                        // collinear through the origin, ordinates from the smallest to the largest magnitudes
	}
	for i, tp := range tuples {
		tp := tp
		name := fmt.Sprintf("coords%d", i)
		builders = append(builders, builder{name, func() *Input {
			in := &Input{Name: name, Layout: geom.XY}
			for _, c := range tp {
				in.Coords = append(in.Coords, spare(c))
			}
			var flat []float64
			for _, c := range tp {
				flat = append(flat, c[0], c[1])
			}
			flat = append(flat, tp[0][0], tp[0][1])
			in.Flat = spare(flat)
			return in
		}})
	}
	// error paths: encoders that fail after writing part of their output, decoders that fail after
	// reading part of their input (what a call leaves behind must not reach the next call)
	for bi, last := range []func() geom.T{
		func() geom.T { return geom.NewPointFlat(geom.Layout(5), spare([]float64{1, 2, 3, 4, 5})) },
		func() geom.T { return geom.NewLineString(geom.NoLayout) },
	} {
		last := last
		name := fmt.Sprintf("bad/encode%d", bi)
		builders = append(builders, builder{name, func() *Input {
			gc := geom.NewGeometryCollection()
			gc.MustPush(geom.NewPointFlat(geom.XY, spare([]float64{1.25, 2.5})),
				geom.NewLineStringFlat(geom.XY, spare([]float64{3.1, 4.2, 5.3, 6.4})), last())
			return &Input{Name: name, BadT: gc}
		}})
	}
	builders = append(builders, builder{"bad/decode", func() *Input {
		m := ref.NewCollection(geom.NoLayout, ref.NewPoint(geom.XY, true, val()), ref.NewLine(ref.LineString, geom.XY, 2, val()), ref.NewPoint(geom.XY, true, val()))
		w, e := ref.EncodeWKB(m, false, false), ref.EncodeWKB(m, true, true)
		return &Input{Name: "bad/decode",
			WKB: spareB(w[:len(w)-3]), EWKB: spareB(e[:len(e)-3]), Hex: fmt.Sprintf("%x", e[:len(e)-3]),
			WKT:  "GEOMETRYCOLLECTION (POINT (1.5 2.5), LINESTRING (3 4, 5 6), POINT (7))",
			JSON: spareB([]byte(`{"type":"GeometryCollection","geometries":[{"type":"Point","coordinates":[1.5,2.5]},{"type":"LineString","coordinates":[[1,2],[3]]}]}`)),
			IGC:  spareB([]byte("AXXX001\r\nHFDTE150785\r\nB1101015206343N00006198WA005870055812\r\nB11010252063XXN00006199WA005880055934\r\nB1101035206345N00006200WA005890055935\r\n")),
		}
	}})
	igcText := "AXXX001\r\nHFDTE150785\r\nI013637LAD\r\nB1101015206343N00006198WA005870055812\r\nB1101025206344N00006199WA005880055934\r\nLXXXnote\r\n"
	builders = append(builders, builder{"igc", func() *Input {
		return &Input{Name: "igc", IGC: spareB([]byte(igcText)), Layout: geom.Layout(5),
			T: geom.NewLineStringFlat(geom.Layout(5), spare([]float64{7.5, 46.25, 1000, 490273261, 990, 7.6, 46.3, 1010, 490273262, 1000}))}
	}})
	// a track with fixes the format cannot hold as they are (longitude, latitude and altitude out
	// of range, a fractional second): the encoder clamps what it WRITES, not what it was given
	builders = append(builders, builder{"igc-out-of-range", func() *Input {
		return &Input{Name: "igc-out-of-range", IGC: spareB([]byte(igcText)), Layout: geom.Layout(5),
			T: geom.NewLineStringFlat(geom.Layout(5), spare([]float64{190.5, 46.25, -20, 490273261.75, 990, -181, -95.5, 20000, 490273262, 1000, 7.6, 91, 1010, 490273263, 1000}))}
	}})
}

// InputForModel builds the input of a geometry model: the live geometry (fresh storage) and its
// encodings.
func InputForModel(name string, m *ref.G) *Input {
	in := &Input{Name: name, Model: m, Layout: m.Layout}
	in.T = m.MustBuild()
	if m.Layout <= geom.XYZM {
		in.WKB = spareB(ref.EncodeWKB(m, false, false))
		in.EWKB = spareB(ref.EncodeWKB(m, true, true))
		in.Hex = fmt.Sprintf("%x", in.EWKB)
		in.HexText = spareB([]byte(in.Hex))
	}
	if wktOK(m) {
		in.WKT = ref.WriteWKT(m, ref.WKTStyle{})
	}
	if js, err := geojson.Marshal(m.MustBuild()); err == nil {
		in.JSON = spareB(js)
	}
	if m.Kind != ref.Collection {
		in.Flat = spare(in.T.FlatCoords())
	}
	return in
}

// NumInputs is the number of inputs; InputName and BuildInput address them by index.
func NumInputs() int { initBuilders(); return len(builders) }

// InputName returns the name of input i.
func InputName(i int) string { initBuilders(); return builders[i].name }

// BuildInput builds input i with fresh storage.
func BuildInput(i int) *Input { initBuilders(); return builders[i].build() }

// BuildByName builds the named input with fresh storage (nil if unknown).
func BuildByName(name string) *Input {
	initBuilders()
	for _, b := range builders {
		if b.name == name {
			return b.build()
		}
	}
	return nil
}

// Inputs builds a fresh input set (fresh storage every time).
func Inputs() []*Input {
	initBuilders()
	out := make([]*Input, len(builders))
	for i, b := range builders {
		out[i] = b.build()
	}
	return out
}

func wktOK(m *ref.G) bool {
	if m.Layout < geom.XY || m.Layout > geom.XYZM {
		return m.Kind == ref.Collection && len(m.Kids) > 0 && sameLayouts(m)
	}
	switch m.Kind {
	case ref.LineString:
		return len(m.C1) != 1
	case ref.Collection:
		return sameLayouts(m)
	}
	return true
}

func sameLayouts(m *ref.G) bool {
	for _, k := range m.Kids {
		if k.Layout != m.Layout || !wktOK(k) {
			return false
		}
	}
	return true
}

// Fn is one registered non-mutating function.
type Fn struct {
	Name    string
	Applies func(in *Input) bool
	Call    func(in *Input) string
}

func fp(v ...any) string {
	var sb strings.Builder
	for _, x := range v {
		switch t := x.(type) {
		case float64:
			fmt.Fprintf(&sb, "f%x ", math.Float64bits(t))
		case []float64:
			sb.WriteString("[" + bitsStr(t) + "] ")
		case geom.Coord:
			sb.WriteString("[" + bitsStr(t) + "] ")
		case []byte:
			fmt.Fprintf(&sb, "b%x ", t)
		case geom.T:
			if t == nil || isNil(t) {
				sb.WriteString("<nil geom> ")
				break
			}
			if m, err := ref.Observe(t); err == nil {
				sb.WriteString(m.String() + " ")
			} else {
				sb.WriteString("unobservable:" + err.Error() + " ")
			}
		case *geom.Bounds:
			fmt.Fprintf(&sb, "B{%d", t.Layout())
			for i := 0; i < t.Layout().Stride(); i++ {
				fmt.Fprintf(&sb, " %x:%x", math.Float64bits(t.Min(i)), math.Float64bits(t.Max(i)))
			}
			sb.WriteString("} ")
		case error:
			if t == nil {
				sb.WriteString("ok ")
			} else {
				sb.WriteString("err:" + t.Error() + " ")
			}
		case nil:
			sb.WriteString("nil ")
		default:
			fmt.Fprintf(&sb, "%v ", t)
		}
	}
	return sb.String()
}

func isNil(t geom.T) bool {
	switch v := t.(type) {
	case *geom.Point:
		return v == nil
	case *geom.LineString:
		return v == nil
	case *geom.Polygon:
		return v == nil
	case *geom.MultiPoint:
		return v == nil
	case *geom.MultiLineString:
		return v == nil
	case *geom.MultiPolygon:
		return v == nil
	case *geom.GeometryCollection:
		return v == nil
	}
	return false
}

func hasGeom(in *Input) bool   { return in.T != nil && in.Model != nil }
func flatGeom(in *Input) bool  { return hasGeom(in) && in.Model.Kind != ref.Collection }
func nonEmpty(in *Input) bool  { return flatGeom(in) && len(in.T.FlatCoords()) > 0 }
func hasCoords(in *Input) bool { return len(in.Coords) >= 4 }

type measured interface {
	Area() float64
	Length() float64
}

// Registry lists the functions under property C17.
var (
	sharedWKTEncoder        = wkt.NewEncoder(wkt.EncodeOptionWithMaxDecimalDigits(3))
	sharedWKTEncoderDefault = wkt.NewEncoder()
	// encode options are values: callers build a list once and pass it to every Marshal
	sharedGeoJSONOptions = []geojson.EncodeGeometryOption{geojson.EncodeGeometryWithMaxDecimalDigits(3), geojson.EncodeGeometryWithBBox()}
	sharedWKBOptions     = []wkbcommon.WKBOption{wkbcommon.WKBOptionEmptyPointHandling(wkbcommon.EmptyPointHandlingNaN)}
)

// accessorSeq numbers the rings pushed into polygons handed out by MultiPolygon.Polygon.
var accessorSeq atomic.Int64

func Registry() []Fn {
	nanOpt := wkbcommon.WKBOptionEmptyPointHandling(wkbcommon.EmptyPointHandlingNaN)
	r := []Fn{
		{"T.Area+Length", flatGeom, func(in *Input) string { m := in.T.(measured); return in.fp(m.Area(), m.Length()) }},
		{"T.Bounds", hasGeom, func(in *Input) string { return in.fp(in.T.Bounds()) }},
		{"T.Coords+accessors", flatGeom, func(in *Input) string {
			out := in.fp(in.T, in.T.Layout(), in.T.Stride(), in.T.SRID(), in.T.Empty())
			switch t := in.T.(type) {
			case *geom.MultiPolygon:
				// what the accessor hands out belongs to the caller: a ring pushed into the polygon it
				// returned for a member without rings must not show in what it returns next
				// (a different ring on every call, so that a polygon shared behind the accessor makes
				// this call's result depend on the calls before it)
				for i, ends := range t.Endss() {
					if len(ends) == 0 && t.Stride() > 0 {
						q := t.Polygon(i)
						v := float64(accessorSeq.Add(1))
						ring := make([]float64, 4*t.Stride())
						for k := range ring {
							ring[k] = v
						}
						_ = q.Push(geom.NewLinearRingFlat(t.Layout(), ring))
						q.SetSRID(int(v))
					}
				}
			}
			switch t := in.T.(type) {
			case *geom.Polygon:
				for i := 0; i < t.NumLinearRings(); i++ {
					out += in.fp(t.LinearRing(i))
				}
			case *geom.MultiPoint:
				for i := 0; i < t.NumPoints(); i++ {
					out += in.fp(t.Point(i))
				}
			case *geom.MultiLineString:
				for i := 0; i < t.NumLineStrings(); i++ {
					out += in.fp(t.LineString(i))
				}
			case *geom.MultiPolygon:
				for i := 0; i < t.NumPolygons(); i++ {
					out += in.fp(t.Polygon(i))
				}
			}
			return out
		}},
		{"T.Clone", flatGeom, func(in *Input) string {
			switch t := in.T.(type) {
			case *geom.Point:
				return in.fp(t.Clone())
			case *geom.LineString:
				return in.fp(t.Clone())
			case *geom.Polygon:
				return in.fp(t.Clone())
			case *geom.MultiPoint:
				return in.fp(t.Clone())
			case *geom.MultiLineString:
				return in.fp(t.Clone())
			case *geom.MultiPolygon:
				return in.fp(t.Clone())
			}
			return ""
		}},
		{"Bounds.Overlaps+Polygon+Clone", hasGeom, func(in *Input) string {
			b := in.T.Bounds()
			if b.Layout() == geom.NoLayout {
				return "nolayout"
			}
			b2 := geom.NewBounds(b.Layout()).Extend(geom.NewPointFlat(geom.XY, []float64{1, 1}))
			return in.fp(b.Overlaps(geom.XY, b2), b.OverlapsPoint(geom.XY, geom.Coord{1, 1}), b.Polygon(), b.Clone(), b.IsEmpty())
		}},
		{"xy.ConvexHull", nonEmpty, func(in *Input) string { return in.fp(xy.ConvexHull(in.T)) }},
		{"xy.ConvexHullFlat", func(in *Input) bool {
			return len(in.Flat) > 0 && in.Layout >= geom.XY && in.Layout <= geom.XYZM && len(in.Flat)%in.Layout.Stride() == 0
		}, func(in *Input) string {
			return in.fp(xy.ConvexHullFlat(in.Layout, in.Flat))
		}},
		{"xy.Centroid", func(in *Input) bool { return nonEmpty(in) && centroidOK(in) }, func(in *Input) string {
			c, err := xy.Centroid(in.T)
			return in.fp(c, err)
		}},
		{"xy.PointsCentroidFlat", nonEmpty, func(in *Input) string { return in.fp(xy.PointsCentroidFlat(in.Layout, in.T.FlatCoords())) }},
		{"xy.IsRingCounterClockwise+SignedArea", func(in *Input) bool { return ringInput(in) != nil }, func(in *Input) string {
			r := ringInput(in)
			return in.fp(xy.IsRingCounterClockwise(in.Layout, r), xy.SignedArea(in.Layout, r))
		}},
		{"xy.LocatePointInRing+IsPointInRing", func(in *Input) bool { return ringInput(in) != nil }, func(in *Input) string {
			r := ringInput(in)
			p := make(geom.Coord, in.Layout.Stride())
			p[0], p[1] = 2.5, 2.6
			return in.fp(xy.LocatePointInRing(in.Layout, p, r), xy.IsPointInRing(in.Layout, p, r))
		}},
		{"xy.IsOnLine+DistanceFromPointToLineString", func(in *Input) bool {
			return nonEmpty(in) && len(in.T.FlatCoords()) >= 2*in.Layout.Stride() && in.Layout <= geom.XYZM
		}, func(in *Input) string {
			p := make(geom.Coord, in.Layout.Stride())
			p[0], p[1] = 12, 12
			return in.fp(xy.IsOnLine(in.Layout, p, in.T.FlatCoords()), xy.DistanceFromPointToLineString(in.Layout, p, in.T.FlatCoords()))
		}},
		{"xy.SimplifyFlatCoords", func(in *Input) bool { return nonEmpty(in) && in.Layout <= geom.XYZM }, func(in *Input) string {
			return in.fp(xy.SimplifyFlatCoords(in.T.FlatCoords(), 0.5, in.Layout.Stride()))
		}},
		{"transform.UniqueCoords", func(in *Input) bool { return nonEmpty(in) && in.Layout <= geom.XYZM }, func(in *Input) string {
			return in.fp(transform.UniqueCoords(in.Layout, cmp2D{}, in.T.FlatCoords()))
		}},
		{"OrientationIndex(bigxy+xy)", hasCoords, func(in *Input) string {
			c := in.Coords
			return in.fp(bigxy.OrientationIndex(c[0], c[1], c[2]), xy.OrientationIndex(c[1], c[2], c[0]), xy.OrientationIndex(c[0], c[1], c[3]))
		}},
		{"lineintersector.LineIntersectsLine(robust)", hasCoords, func(in *Input) string {
			c := in.Coords
			r := lineintersector.LineIntersectsLine(lineintersector.RobustLineIntersector{}, c[0], c[1], c[2], c[3])
			out := in.fp(r.Type(), r.HasIntersection())
			for _, p := range r.Intersection() {
				out += in.fp(p)
			}
			return out + in.fp(lineintersector.PointIntersectsLine(lineintersector.RobustLineIntersector{}, c[2], c[0], c[1]))
		}},
		{"lineintersector.LineIntersectsLine(nonrobust)", hasCoords, func(in *Input) string {
			c := in.Coords
			r := lineintersector.LineIntersectsLine(lineintersector.NonRobustLineIntersector{}, c[0], c[1], c[2], c[3])
			out := in.fp(r.Type())
			for _, p := range r.Intersection() {
				out += in.fp(p)
			}
			return out
		}},
		{"xy.Distance*", hasCoords, func(in *Input) string {
			c := in.Coords
			return in.fp(xy.DistanceFromPointToLine(c[2], c[0], c[1]), xy.PerpendicularDistanceFromPointToLine(c[3], c[0], c[1]), xy.DistanceFromLineToLine(c[0], c[1], c[2], c[3]), xy.Distance(c[0], c[3]))
		}},
		{"xy.Angle*", hasCoords, func(in *Input) string {
			c := in.Coords
			return in.fp(xy.Angle(c[0], c[1]), xy.AngleBetween(c[0], c[1], c[2]), xy.InteriorAngle(c[0], c[1], c[3]), xy.IsAcute(c[0], c[1], c[2]))
		}},
		{"xyz.Distance*", func(in *Input) bool { return hasCoords(in) && len(in.Coords[0]) >= 3 }, func(in *Input) string {
			c := in.Coords
			return in.fp(xyz.Distance(c[0], c[3]), xyz.DistancePointToLine(c[2], c[0], c[1]), xyz.DistanceLineToLine(c[0], c[1], c[1], c[2]))
		}},
		{"bigxy.Intersection", func(in *Input) bool { return hasCoords(in) && in.Name != "coords4" }, func(in *Input) string { c := in.Coords; return in.fp(bigxy.Intersection(c[0], c[1], c[2], c[3])) }},
		// encoders
		{"wkb.Marshal", func(in *Input) bool { return hasGeom(in) && in.WKB != nil }, func(in *Input) string {
			b, err := wkb.Marshal(in.T, wkb.NDR, nanOpt)
			b2, err2 := wkb.Marshal(in.T, wkb.XDR)
			in.keep(b, b2)
			return fmt.Sprintf("%x %v %x %v", b, err, b2, err2)
		}},
		{"ewkb.Marshal+hex", func(in *Input) bool { return hasGeom(in) && in.EWKB != nil }, func(in *Input) string {
			b, err := ewkb.Marshal(in.T, ewkb.XDR)
			s, err2 := ewkbhex.Encode(in.T, ewkbhex.NDR)
			s2, err3 := wkbhex.Encode(in.T, wkbhex.NDR, nanOpt)
			in.keep(b, s, s2)
			return fmt.Sprintf("%x %v %s %v %s %v", b, err, s, err2, s2, err3)
		}},
		{"wkt.Marshal", hasGeom, func(in *Input) string {
			s, err := wkt.Marshal(in.T)
			s2, err2 := wkt.Marshal(in.T, wkt.EncodeOptionWithMaxDecimalDigits(2))
			return fmt.Sprintf("%s %v %s %v", s, err, s2, err2)
		}},
		{"geojson.Marshal", func(in *Input) bool { return hasGeom(in) && in.JSON != nil }, func(in *Input) string {
			b, err := geojson.Marshal(in.T)
			b2, err2 := geojson.Marshal(in.T, geojson.EncodeGeometryWithMaxDecimalDigits(3), geojson.EncodeGeometryWithBBox())
			f := &geojson.Feature{ID: "x", Geometry: in.T, Properties: map[string]interface{}{"k": 1.0}}
			b3, err3 := json.Marshal(f)
			in.keep(b, b2, b3)
			return fmt.Sprintf("%s %v %s %v %s %v", b, err, b2, err2, b3, err3)
		}},
		{"kml.Encode", func(in *Input) bool {
			return hasGeom(in) && in.Layout >= geom.XY && in.Layout <= geom.XYZM && nonEmptyDeep(in)
		}, func(in *Input) string {
			e, err := kml.Encode(in.T)
			if err != nil {
				return "err:" + err.Error()
			}
			b, werr := xml.Marshal(e)
			if werr != nil {
				return "werr:" + werr.Error()
			}
			return string(b)
		}},
		{"igc.Encode", func(in *Input) bool { return strings.HasPrefix(in.Name, "igc") }, func(in *Input) string {
			var buf bytes.Buffer
			err := igc.NewEncoder(&buf, igc.A("XXX")).Encode(in.T.(*geom.LineString))
			return fmt.Sprintf("%s %v", buf.String(), err)
		}},
		{"sql.Value(wkb+ewkb wrappers)", func(in *Input) bool { return hasGeom(in) && in.WKB != nil && in.Layout >= geom.XY }, func(in *Input) string {
			var v1, v2, v3 driver.Value
			var e1, e2, e3 error
			switch t := in.T.(type) {
			case *geom.Point:
				v1, e1 = (&wkb.Point{Point: t}).Value()
				v2, e2 = (&ewkb.Point{Point: t}).Value()
			case *geom.LineString:
				v1, e1 = (&wkb.LineString{LineString: t}).Value()
				v2, e2 = (&ewkb.LineString{LineString: t}).Value()
			case *geom.Polygon:
				v1, e1 = (&wkb.Polygon{Polygon: t}).Value()
				v2, e2 = (&ewkb.Polygon{Polygon: t}).Value()
			case *geom.MultiPoint:
				v1, e1 = (&wkb.MultiPoint{MultiPoint: t}).Value()
				v2, e2 = (&ewkb.MultiPoint{MultiPoint: t}).Value()
			case *geom.MultiLineString:
				v1, e1 = (&wkb.MultiLineString{MultiLineString: t}).Value()
				v2, e2 = (&ewkb.MultiLineString{MultiLineString: t}).Value()
			case *geom.MultiPolygon:
				v1, e1 = (&wkb.MultiPolygon{MultiPolygon: t}).Value()
				v2, e2 = (&ewkb.MultiPolygon{MultiPolygon: t}).Value()
			case *geom.GeometryCollection:
				v1, e1 = (&wkb.GeometryCollection{GeometryCollection: t}).Value()
				v2, e2 = (&ewkb.GeometryCollection{GeometryCollection: t}).Value()
			}
			v3, e3 = (&wkb.Geom{T: in.T}).Value()
			return in.fp(v1, e1, v2, e2, v3, e3)
		}},
		{"sql.Scan(ewkb wrappers)", func(in *Input) bool { return hasGeom(in) && in.EWKB != nil }, func(in *Input) string {
			var g ewkb.GeometryCollection
			err := g.Scan(in.EWKB)
			var p ewkb.Point
			var ls ewkb.LineString
			var mp ewkb.MultiPolygon
			e1, e2, e3 := p.Scan(in.EWKB), ls.Scan(in.EWKB), mp.Scan(in.EWKB)
			var t1, t2, t3 geom.T
			if e1 == nil && p.Point != nil {
				t1 = p.Point
			}
			if e2 == nil && ls.LineString != nil {
				t2 = ls.LineString
			}
			if e3 == nil && mp.MultiPolygon != nil {
				t3 = mp.MultiPolygon
			}
			var t0 geom.T
			if err == nil && g.GeometryCollection != nil {
				t0 = g.GeometryCollection
			}
			return in.fp(t0, err != nil, t1, e1 != nil, t2, e2 != nil, t3, e3 != nil)
		}},
		{"geojson.Feature+FeatureCollection.MarshalJSON", func(in *Input) bool { return hasGeom(in) && in.JSON != nil }, func(in *Input) string {
			f := &geojson.Feature{ID: "id-" + in.Name, Geometry: in.T, Properties: map[string]interface{}{"name": in.Name, "k": 1.5}}
			b1, err1 := f.MarshalJSON()
			fc := &geojson.FeatureCollection{Features: []*geojson.Feature{f, {ID: "second", Geometry: in.T}}}
			b2, err2 := fc.MarshalJSON()
			return in.fp(b1, err1, b2, err2)
		}},
		{"geojson.Feature+FeatureCollection.UnmarshalJSON", func(in *Input) bool { return hasGeom(in) && in.JSON != nil }, func(in *Input) string {
			doc := append(append([]byte(`{"type":"Feature","id":"a1","properties":{"p":[1,"x",null]},"geometry":`), in.JSON...), '}')
			var f geojson.Feature
			err1 := f.UnmarshalJSON(doc)
			cdoc := append(append([]byte(`{"type":"FeatureCollection","features":[`), doc...), []byte(`]}`)...)
			var fc geojson.FeatureCollection
			err2 := fc.UnmarshalJSON(cdoc)
			out := in.fp(f.ID, f.Geometry, fmt.Sprint(f.Properties), err1, len(fc.Features), err2)
			for _, x := range fc.Features {
				out += in.fp(x.ID, x.Geometry)
			}
			return out
		}},
		{"geojson.Encode+Decode", func(in *Input) bool { return hasGeom(in) && in.JSON != nil }, func(in *Input) string {
			g, err := geojson.Encode(in.T, geojson.EncodeGeometryWithBBox())
			if err != nil {
				return in.fp(err)
			}
			t, err2 := g.Decode()
			var raw []byte
			if g.Coordinates != nil {
				raw = []byte(*g.Coordinates)
			}
			return in.fp(g.Type, raw, t, err2)
		}},
		{"wkt.Encoder.Encode", hasGeom, func(in *Input) string {
			s, err := wkt.NewEncoder(wkt.EncodeOptionWithMaxDecimalDigits(4)).Encode(in.T)
			return in.fp(s, err)
		}},
		{"encoders(last member unencodable)", func(in *Input) bool { return in.BadT != nil }, func(in *Input) string {
			s, e1 := wkt.Marshal(in.BadT)
			s2, e2 := wkt.NewEncoder(wkt.EncodeOptionWithMaxDecimalDigits(3)).Encode(in.BadT)
			b, e3 := wkb.Marshal(in.BadT, wkb.NDR)
			b2, e4 := ewkb.Marshal(in.BadT, ewkb.XDR)
			h, e5 := ewkbhex.Encode(in.BadT, ewkbhex.NDR)
			h2, e6 := wkbhex.Encode(in.BadT, wkbhex.XDR)
			return fmt.Sprintf("%q %v|%q %v|%x %v|%x %v|%s %v|%s %v", s, e1 != nil, s2, e2 != nil, b, e3 != nil, b2, e4 != nil, h, e5 != nil, h2, e6 != nil)
		}},
		{"geojson.Marshal+wkb.Marshal(one shared option list)", func(in *Input) bool { return hasGeom(in) && in.JSON != nil }, func(in *Input) string {
			b, err := geojson.Marshal(in.T, sharedGeoJSONOptions...)
			g, err2 := geojson.Encode(in.T, sharedGeoJSONOptions...)
			var gb []byte
			if err2 == nil {
				gb, _ = json.Marshal(g)
			}
			w, err3 := wkb.Marshal(in.T, wkb.NDR, sharedWKBOptions...)
			return in.fp(b, err, gb, err2, w, err3)
		}},
		{"wkt.Encoder.Encode(one shared Encoder)", func(in *Input) bool { return hasGeom(in) && in.WKT != "" }, func(in *Input) string {
			// an Encoder is configuration; callers keep one and use it from wherever they encode
			s, err := sharedWKTEncoder.Encode(in.T)
			s2, err2 := sharedWKTEncoderDefault.Encode(in.T)
			return in.fp(s, err, s2, err2)
		}},
		// decoders
		{"wkb.Unmarshal+Scan", func(in *Input) bool { return in.WKB != nil }, func(in *Input) string {
			g, err := wkb.Unmarshal(in.WKB, nanOpt)
			var s wkb.Geom
			err2 := s.Scan(in.WKB)
			return in.fp(g, err, err2)
		}},
		{"ewkb.Unmarshal+hex.Decode", func(in *Input) bool { return in.EWKB != nil }, func(in *Input) string {
			g, err := ewkb.Unmarshal(in.EWKB)
			g2, err2 := ewkbhex.Decode(in.Hex)
			g3, err3 := ewkbhex.Decode(strings.ToUpper(in.Hex))
			return in.fp(g, err, g2, err2, g3, err3)
		}},
		{"wkt.Unmarshal(spellings)", func(in *Input) bool { return in.WKT != "" }, func(in *Input) string {
			// non-canonical spellings: a memo keyed on the spelling is only written for these
			lower := strings.ToLower(in.WKT)
			mixed := []byte(lower)
			for i := 0; i < len(mixed); i += 2 {
				if mixed[i] >= 'a' && mixed[i] <= 'z' {
					mixed[i] -= 32
				}
			}
			spaced := strings.ReplaceAll(strings.ReplaceAll(in.WKT, "(", " (\n\t"), ",", " ,\r\n ")
			g1, e1 := wkt.Unmarshal(lower)
			g2, e2 := wkt.Unmarshal(string(mixed))
			g3, e3 := wkt.Unmarshal(spaced)
			return in.fp(g1, e1, g2, e2, g3, e3)
		}},
		{"binary decoders on hex text and other non-binary bytes", func(in *Input) bool { return in.HexText != nil }, func(in *Input) string {
			// bytes that are NOT a binary encoding (the hex text of one; its upper-case form is in
			// in.Hex users' hands): every binary entry point answers (an error, today) without
			// writing to the caller's slice
			g1, e1 := ewkb.Unmarshal(in.HexText)
			g2, e2 := wkb.Unmarshal(in.HexText)
			var s1 ewkb.LineString
			e3 := s1.Scan(in.HexText)
			var s2 wkb.Geom
			e4 := s2.Scan(in.HexText)
			var s3 ewkb.Point
			e5 := s3.Scan(in.HexText)
			return in.fp(g1, e1 != nil, g2, e2 != nil, e3 != nil, e4 != nil, e5 != nil)
		}},
		{"wkt.Unmarshal", func(in *Input) bool { return in.WKT != "" }, func(in *Input) string {
			g, err := wkt.Unmarshal(in.WKT)
			_, err2 := wkt.Unmarshal(in.WKT + " )")
			e2 := ""
			if err2 != nil {
				e2 = err2.Error()
			}
			return in.fp(g, err) + e2
		}},
		{"geojson.Unmarshal", func(in *Input) bool { return in.JSON != nil }, func(in *Input) string {
			var g geom.T
			err := geojson.Unmarshal(in.JSON, &g)
			return in.fp(g, err)
		}},
		{"igc.Read", func(in *Input) bool { return in.IGC != nil }, func(in *Input) string {
			t, err := igc.Read(bytes.NewReader(in.IGC))
			return in.fp(t.LineString, err) + fmt.Sprint(t.Headers)
		}},
	}
	return r
}

type cmp2D struct{}

func (cmp2D) IsEquals(x, y geom.Coord) bool { return x[0] == y[0] && x[1] == y[1] }
func (cmp2D) IsLess(x, y geom.Coord) bool   { return sorting.IsLess2D(x, y) }

func centroidOK(in *Input) bool {
	switch in.Model.Kind {
	case ref.Polygon:
		return len(in.Model.C2) > 0
	case ref.MultiPolygon:
		for _, p := range in.Model.C3 {
			if len(p) == 0 {
				return false
			}
		}
		return len(in.Model.C3) > 0
	}
	return true
}

// ringInput returns a closed ring (flat coordinates) when the input has one.
func ringInput(in *Input) []float64 {
	if in.Model != nil && in.Model.Kind == ref.Polygon && len(in.Model.C2) > 0 {
		return in.T.(*geom.Polygon).LinearRing(0).FlatCoords()
	}
	if in.Model == nil && len(in.Coords) >= 4 && len(in.Coords[0]) == 2 {
		return in.Flat
	}
	return nil
}

func nonEmptyDeep(in *Input) bool {
	if in.Model.Kind == ref.Collection {
		return false
	}
	if in.Model.Kind == ref.MultiPoint {
		for _, c := range in.Model.C1 {
			if c == nil {
				return false
			}
		}
	}
	return in.Model.NumOrdinates() > 0
}

// BulkTuples is the exhaustive low-level family of the purity check: every 4-tuple of points of
// the 3x3 integer grid (with a third ordinate derived from the position), the same scaled to
// 1e120 (overflowing products) for every 16th tuple, and every perturbation by -1/0/+1 ulp of
// the four ordinates of the second segment of a nearly coincident crossing pair.
func BulkTuples() [][][]float64 {
	var out [][][]float64
	var grid [][]float64
	for x := 0; x < 3; x++ {
		for y := 0; y < 3; y++ {
			grid = append(grid, []float64{float64(x), float64(y), float64((x*2 + y) % 3)})
		}
	}
	k := 0
	for _, a := range grid {
		for _, b := range grid {
			for _, c := range grid {
				for _, d := range grid {
					out = append(out, [][]float64{a, b, c, d})
					if k%16 == 0 {
						sc := func(p []float64) []float64 { return []float64{p[0] * 1e120, p[1] * 1e120, p[2]} }
						out = append(out, [][]float64{sc(a), sc(b), sc(c), sc(d)})
					}
					if k%4 == 1 {
						// third ordinates that are not set (NaN) in one of the two segments, or at one end
						// of each: a function that fills in or interpolates a Z must do so in its result
						nz := func(p []float64) []float64 { return []float64{p[0], p[1], math.NaN()} }
						out = append(out, [][]float64{nz(a), nz(b), c, d}, [][]float64{a, b, nz(c), nz(d)}, [][]float64{nz(a), b, c, nz(d)})
					}
					k++
				}
			}
		}
	}
	nx := func(v float64, d int) float64 {
		for ; d > 0; d-- {
			v = math.Nextafter(v, math.Inf(1))
		}
		for ; d < 0; d++ {
			v = math.Nextafter(v, math.Inf(-1))
		}
		return v
	}
	for d0 := -1; d0 <= 1; d0++ {
		for d1 := -1; d1 <= 1; d1++ {
			for d2 := -1; d2 <= 1; d2++ {
				for d3 := -1; d3 <= 1; d3++ {
					out = append(out, [][]float64{{4, 4, 0}, {103, 228, 1}, {nx(4, d0), nx(4, d1), 2}, {nx(103, d2), nx(228, d3), 3}})
				}
			}
		}
	}
	return out
}

// TupleInput builds an input from one coordinate tuple (fresh storage with spare capacity).
func TupleInput(name string, tp [][]float64) *Input {
	in := &Input{Name: name, Layout: geom.XY}
	for _, c := range tp {
		in.Coords = append(in.Coords, spare(c))
	}
	var flat []float64
	for _, c := range tp {
		flat = append(flat, c[0], c[1])
	}
	flat = append(flat, tp[0][0], tp[0][1])
	in.Flat = spare(flat)
	return in
}

// CoordSnapshot is the cheap part of Snapshot for tuple inputs.
func (in *Input) CoordSnapshot() string {
	var sb strings.Builder
	for _, c := range in.Coords {
		fmt.Fprintf(&sb, "c%d/%d=%s|", len(c), cap(c), bitsStr(c[:cap(c)]))
	}
	fmt.Fprintf(&sb, "flat%d/%d=%s", len(in.Flat), cap(in.Flat), bitsStr(in.Flat[:cap(in.Flat)]))
	return sb.String()
}
