//go:build verif

package pure

import "testing"

// TestRegistryCoverage runs every registered function on every input it accepts. It exists for
// tools/c17cover.sh, which reports the library statements the C17 inputs never reach (so that
// inputs can be added for branches such as fallbacks and caches keyed on unusual spellings).
func TestRegistryCoverage(t *testing.T) {
	fns := Registry()
	n := 0
	for i := range fns {
		for k := 0; k < NumInputs(); k++ {
			in := BuildInput(k)
			if fns[i].Applies(in) {
				func() {
					defer func() { recover() }()
					fns[i].Call(in)
				}()
				n++
			}
		}
	}
	t.Logf("%d calls", n)
}
