//go:build verifsched

package main

import "github.com/twpayne/go-geom/verifrt"

const haveHook = true

func installHook(f func(string)) { verifrt.Hook = f }
