//go:build verif

// Command vc17 runs the concurrency parts of property C17 in separate binaries:
//
//	vc17 sched <tier> <out.json>        cooperative-scheduler exploration (built with the
//	                                    instrumenting overlay, tag verifsched)
//	vc17 race  <tier> <out.json>        free-running pass (built with -race)
//	vc17 replay <case.json>             one recorded scenario/schedule; exit 1 if it violates
package main

import (
	"encoding/json"
	"fmt"
	"os"
	"runtime"
	"strings"
	"sync"
	"time"

	"github.com/twpayne/go-geom/encoding/wkbcommon"

	"verif/engine"
	"verif/pure"
	"verif/sched17"
)

// Scenario names the calls of the threads: function index and input index per thread.
type Scenario struct {
	Fns     []string `json:"fns"`
	Inputs  []string `json:"inputs"`
	Choices []int    `json:"choices,omitempty"`
	// Limits > 0: the scenario runs with wkbcommon.MaxGeometryElements configured to
	// {0, Limits, Limits, Limits} (set before the calls start; the library may only read it)
	Limits int `json:"limits,omitempty"`
}

type Violation struct {
	Key  string   `json:"key"`
	Desc string   `json:"desc"`
	Case Scenario `json:"case"`
}

type Output struct {
	Mode       string      `json:"mode"`
	Scenarios  int64       `json:"scenarios"`
	Schedules  int64       `json:"schedules"`
	Points     int64       `json:"scheduling_points"`
	MaxPoints  int         `json:"max_points_in_one_schedule"`
	Outcomes   int         `json:"distinct_outcomes"`
	Capped     bool        `json:"capped"`
	Hooked     bool        `json:"instrumented_build"`
	SelfTest   string      `json:"scheduler_self_test"`
	Violations []Violation `json:"violations"`
	Samples    []any       `json:"samples"`
}

var registry = pure.Registry()

func lookup(fns []pure.Fn, name string) *pure.Fn {
	for i := range fns {
		if fns[i].Name == name {
			return &fns[i]
		}
	}
	return nil
}

// scenarios enumerates: every unordered pair of functions on every shared input both accept,
// and every function on every ordered pair of distinct inputs of the same family (hidden state
// only shows when the two calls compute different things).
func scenarios(thorough bool) []Scenario {
	fns := pure.Registry()
	ins := pure.Inputs()
	var out []Scenario
	pairSeen := map[[2]int]int{}
	for _, in := range ins {
		for i := range fns {
			if !fns[i].Applies(in) {
				continue
			}
			for j := i; j < len(fns); j++ {
				if !fns[j].Applies(in) {
					continue
				}
				// quick: a pair of different functions on at most 6 of their shared inputs
				if !thorough && j != i {
					if pairSeen[[2]int{i, j}] >= 6 {
						continue
					}
					pairSeen[[2]int{i, j}]++
				}
				out = append(out, Scenario{Fns: []string{fns[i].Name, fns[j].Name}, Inputs: []string{in.Name, in.Name}})
			}
		}
	}
	for i := range fns {
		var ok []*pure.Input
		for _, in := range ins {
			if fns[i].Applies(in) {
				ok = append(ok, in)
			}
		}
		for a := 0; a < len(ok); a++ {
			for b := a + 1; b < len(ok); b++ {
				if !thorough && b > a+6 {
					break
				}
				out = append(out, Scenario{Fns: []string{fns[i].Name, fns[i].Name}, Inputs: []string{ok[a].Name, ok[b].Name}})
			}
		}
	}
	// the binary decoders again with element limits configured (a setting the caller makes once,
	// before any call; the solo results are taken under the same setting): 4 at every level, so
	// that the collections of the inputs sit at or just under the limit
	for _, sc := range append([]Scenario{}, out...) {
		dec := func(n string) bool {
			return strings.Contains(n, "wkb") && (strings.Contains(n, "Unmarshal") || strings.Contains(n, "Scan") || strings.Contains(n, "decoders"))
		}
		if dec(sc.Fns[0]) && dec(sc.Fns[1]) {
			sc.Limits = 4
			out = append(out, sc)
		}
	}
	if thorough {
		// three threads on the functions that reach the orientation predicate
		for _, tri := range [][]string{{"OrientationIndex(bigxy+xy)", "xy.ConvexHullFlat", "lineintersector.LineIntersectsLine(robust)"}} {
			out = append(out, Scenario{Fns: tri, Inputs: []string{"coords0", "coords1", "coords2"}})
		}
	}
	return out
}

type prepared struct {
	sc    Scenario
	fns   []*pure.Fn
	ins   []*pure.Input
	solo  []string
	snaps []string
	glob  string
}

var defaultLimits = wkbcommon.MaxGeometryElements

func prepare(sc Scenario) (*prepared, error) {
	all := registry
	wkbcommon.MaxGeometryElements = defaultLimits
	if sc.Limits > 0 {
		wkbcommon.MaxGeometryElements = [4]int{0, sc.Limits, sc.Limits, sc.Limits}
	}
	p := &prepared{sc: sc}
	shared := map[string]*pure.Input{}
	for k := range sc.Fns {
		f := lookup(all, sc.Fns[k])
		if f == nil {
			return nil, fmt.Errorf("unknown function %q", sc.Fns[k])
		}
		in := shared[sc.Inputs[k]]
		if in == nil {
			in = pure.BuildByName(sc.Inputs[k])
			if in == nil {
				return nil, fmt.Errorf("unknown input %q", sc.Inputs[k])
			}
			shared[sc.Inputs[k]] = in
		}
		p.fns = append(p.fns, f)
		p.ins = append(p.ins, in)
	}
	for k := range p.fns {
		p.solo = append(p.solo, safeCall(p.fns[k], p.ins[k]))
	}
	for _, in := range p.ins {
		p.snaps = append(p.snaps, in.Snapshot())
	}
	p.glob = pure.Globals()
	return p, nil
}

// yieldFn is the scheduler's yield while a scheduled run is in progress (nil otherwise).
var yieldFn func(string)

func installAll(f func(string)) { installHook(f); yieldFn = f }

// callKeeping performs one call the way a caller that KEEPS the result does: the live result is
// rendered on return, the thread reaches a scheduling point (so other threads' calls may run in
// between), and the retained result is rendered again. A result that aliases hidden shared
// state shows up as a difference. The call works on a shallow copy of the input (same storage,
// private list of retained results) because threads share inputs.
func callKeeping(f *pure.Fn, in *pure.Input) string {
	local := *in
	local.ResetKept()
	res := f.Call(&local)
	before := local.Rerender()
	if y := yieldFn; y != nil {
		y("result-retained:" + f.Name)
	} else {
		runtime.Gosched()
	}
	if after := local.Rerender(); after != before {
		return "retained result changed after the call returned: " + clip(before) + " -> " + clip(after)
	}
	return res
}

func safeCall(f *pure.Fn, in *pure.Input) (res string) {
	defer func() {
		if r := recover(); r != nil {
			res = fmt.Sprintf("panic: %v", r)
		}
	}()
	return callKeeping(f, in)
}

// check compares the results of one concurrent run with the solo results.
func (p *prepared) check(results []string) string {
	for k := range results {
		if results[k] != p.solo[k] {
			return fmt.Sprintf("call %d %s(%s) returned %s when run concurrently, %s when run alone", k, p.sc.Fns[k], p.sc.Inputs[k], clip(results[k]), clip(p.solo[k]))
		}
	}
	for k, in := range p.ins {
		if in.Snapshot() != p.snaps[k] {
			return fmt.Sprintf("argument storage of input %s was modified", p.sc.Inputs[k])
		}
	}
	if pure.Globals() != p.glob {
		return "package-level state changed"
	}
	return ""
}

func clip(s string) string {
	if len(s) > 160 {
		return s[:160] + "…"
	}
	return s
}

// selfTest shows that the explorer really enumerates interleavings: two threads perform an
// unsynchronised read-modify-write on a counter with a scheduling point in between; with a
// preemption bound of 1 the lost update must be found, with bound 0 it must not.
func selfTest() (foundWith1 bool, foundWith0 bool, schedules int64) {
	run := func(bound int) bool {
		found := false
		engine.Explore(bound, 0, nil, func(m *engine.MC) {
			counter := 0
			var s *sched17.Sched
			body := func() {
				v := counter
				s.Yield("selftest.counter")
				counter = v + 1
			}
			var yield func(string)
			install := func(f func(string)) { yield = f }
			_ = yield
			s2, _ := sched17.RunPrepared(m, 100, install, []func(){body, body}, func(sc *sched17.Sched) { s = sc })
			_ = s2
			schedules++
			if counter != 2 {
				found = true
			}
		})
		return found
	}
	return run(1), run(0), schedules
}

func runSched(tier, outPath string) {
	runtime.GOMAXPROCS(1)
	bound := 2
	if tier == "thorough" {
		bound = 3
	}
	out := &Output{Mode: "sched", Hooked: haveHook}
	w1, w0, n := selfTest()
	out.SelfTest = fmt.Sprintf("lost update on a shared counter: found with preemption bound 1 = %v, with bound 0 = %v (%d schedules)", w1, w0, n)
	if !w1 || w0 {
		fmt.Fprintln(os.Stderr, "vc17: scheduler self-test failed:", out.SelfTest)
		os.Exit(2)
	}
	outcomes := map[string]bool{}
	deadline := time.Now().Add(8 * time.Minute)
	if tier == "thorough" {
		deadline = time.Now().Add(30 * time.Minute)
	}
	seenKey := map[string]bool{}
	for _, sc := range scenarios(tier == "thorough") {
		if len(out.Violations) >= 8 {
			out.Capped = true // enough counterexamples: stop exploring
			break
		}
		p, err := prepare(sc)
		if err != nil {
			fmt.Fprintln(os.Stderr, "vc17:", err)
			os.Exit(2)
		}
		out.Scenarios++
		violated := false
		st := engine.Explore(bound, 20000, func() bool { return violated || time.Now().After(deadline) }, func(m *engine.MC) {
			results := make([]string, len(p.fns))
			bodies := make([]func(), len(p.fns))
			for k := range p.fns {
				k := k
				bodies[k] = func() { results[k] = callKeeping(p.fns[k], p.ins[k]) }
			}
			s, panics := sched17.Run(m, 4000, installAll, bodies)
			out.Schedules++
			out.Points += int64(s.Points)
			if s.Points > out.MaxPoints {
				out.MaxPoints = s.Points
			}
			if s.Capped {
				out.Capped = true
			}
			for k, pv := range panics {
				if pv != nil {
					results[k] = fmt.Sprintf("panic: %v", pv)
				}
			}
			outcomes[strings.Join(results, "|")] = true
			if d := p.check(results); d != "" {
				violated = true
				key := "sched/" + sc.Fns[0] + "+" + sc.Fns[1]
				if !seenKey[key] && len(out.Violations) < 30 {
					seenKey[key] = true
					c := sc
					c.Choices = m.Choices()
					out.Violations = append(out.Violations, Violation{Key: key, Desc: d + fmt.Sprintf(" (%d scheduling points, preemptions: %v)", s.Points, s.Trace), Case: c})
				}
			} else if len(out.Samples) < 6 && s.Points > 0 {
				out.Samples = append(out.Samples, map[string]any{"scenario": sc, "schedule": m.Choices(), "points": s.Points})
			}
		})
		if st.Capped && !violated {
			out.Capped = true
		}
		if time.Now().After(deadline) {
			out.Capped = true
			break
		}
	}
	out.Outcomes = len(outcomes)
	if len(out.Samples) == 0 {
		sc := scenarios(false)
		out.Samples = append(out.Samples, map[string]any{"scenario": sc[0], "schedule": []int{}, "points": 0}, map[string]any{"scenario": sc[len(sc)-1], "schedule": []int{1}, "points": 0})
	}
	write(outPath, out)
}

func runRace(tier, outPath string) {
	out := &Output{Mode: "race"}
	reps := 4
	all := scenarios(tier == "thorough")
	if tier != "thorough" {
		// quick: every function pair, on every third shared input; every cross-input scenario
		var keep []Scenario
		for i, sc := range all {
			if sc.Inputs[0] != sc.Inputs[1] || i%3 == 0 {
				keep = append(keep, sc)
			}
		}
		all = keep
		reps = 2
	}
	for si, sc := range all {
		p, err := prepare(sc)
		if err != nil {
			fmt.Fprintln(os.Stderr, "vc17:", err)
			os.Exit(2)
		}
		out.Scenarios++
		fmt.Fprintf(os.Stderr, "SCENARIO %d %s\n", si, mustJSON(sc))
		var wg sync.WaitGroup
		start := make(chan struct{})
		results := make([][]string, reps)
		for r := 0; r < reps; r++ {
			results[r] = make([]string, len(p.fns))
			for k := range p.fns {
				r, k := r, k
				wg.Add(1)
				go func() {
					defer wg.Done()
					<-start
					results[r][k] = safeCall(p.fns[k], p.ins[k])
				}()
			}
		}
		close(start)
		wg.Wait()
		out.Schedules += int64(reps)
		for r := 0; r < reps; r++ {
			if d := p.check(results[r]); d != "" && len(out.Violations) < 30 {
				out.Violations = append(out.Violations, Violation{Key: "free-running/" + sc.Fns[0] + "+" + sc.Fns[1], Desc: d, Case: sc})
				break
			}
		}
	}
	fmt.Fprintln(os.Stderr, "SCENARIO END")
	write(outPath, out)
}

// raceOne runs one scenario free-running many times (for replaying a race report).
func raceOne(path string) {
	b, err := os.ReadFile(path)
	if err != nil {
		fmt.Fprintln(os.Stderr, err)
		os.Exit(2)
	}
	var sc Scenario
	if err := json.Unmarshal(b, &sc); err != nil || len(sc.Fns) == 0 {
		fmt.Fprintln(os.Stderr, "bad scenario")
		os.Exit(2)
	}
	p, err := prepare(sc)
	if err != nil {
		fmt.Fprintln(os.Stderr, err)
		os.Exit(2)
	}
	for rep := 0; rep < 50; rep++ {
		var wg sync.WaitGroup
		start := make(chan struct{})
		results := make([]string, len(p.fns))
		for k := range p.fns {
			k := k
			wg.Add(1)
			go func() { defer wg.Done(); <-start; results[k] = safeCall(p.fns[k], p.ins[k]) }()
		}
		close(start)
		wg.Wait()
		if d := p.check(results); d != "" {
			fmt.Println("violated:", d)
			return
		}
	}
}

func mustJSON(v any) string { b, _ := json.Marshal(v); return string(b) }

func write(path string, out *Output) {
	b, _ := json.MarshalIndent(out, "", " ")
	if err := os.WriteFile(path, b, 0o644); err != nil {
		fmt.Fprintln(os.Stderr, err)
		os.Exit(2)
	}
}

func replay(path string) {
	b, err := os.ReadFile(path)
	if err != nil {
		fmt.Fprintln(os.Stderr, err)
		os.Exit(2)
	}
	var sc Scenario
	if err := json.Unmarshal(b, &sc); err != nil {
		fmt.Fprintln(os.Stderr, err)
		os.Exit(2)
	}
	runtime.GOMAXPROCS(1)
	p, err := prepare(sc)
	if err != nil {
		fmt.Fprintln(os.Stderr, err)
		os.Exit(2)
	}
	bad := ""
	engine.ReplayChoices(sc.Choices, func(m *engine.MC) {
		results := make([]string, len(p.fns))
		bodies := make([]func(), len(p.fns))
		for k := range p.fns {
			k := k
			bodies[k] = func() { results[k] = callKeeping(p.fns[k], p.ins[k]) }
		}
		_, panics := sched17.Run(m, 4000, installAll, bodies)
		for k, pv := range panics {
			if pv != nil {
				results[k] = fmt.Sprintf("panic: %v", pv)
			}
		}
		bad = p.check(results)
	})
	if bad != "" {
		fmt.Println("reproduced:", bad)
		os.Exit(1)
	}
	fmt.Println("not reproduced")
}

func main() {
	if len(os.Args) < 3 {
		fmt.Fprintln(os.Stderr, "usage: vc17 sched|race <tier> <out.json> | replay <case.json>")
		os.Exit(2)
	}
	switch os.Args[1] {
	case "sched":
		runSched(os.Args[2], os.Args[3])
	case "race":
		runRace(os.Args[2], os.Args[3])
	case "replay":
		replay(os.Args[2])
	case "race-one":
		raceOne(os.Args[2])
	}
}
