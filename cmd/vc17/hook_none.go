//go:build !verifsched

package main

const haveHook = false

func installHook(f func(string)) {}
