// Command vc is the check runner: supervisor, child and replay modes.
package main

import (
	"bufio"
	"crypto/sha1"
	"encoding/hex"
	"encoding/json"
	"fmt"
	"os"
	"os/exec"
	"path/filepath"
	"strconv"
	"strings"
	"syscall"
	"time"

	"verif/checks"
	"verif/engine"
)

// root is the directory of the verification framework (VERIF_HOME lets a scratch copy run
// against a scratch worktree when seeded changes are evaluated in parallel).
var root = checks.Home()

func main() {
	if len(os.Args) < 2 {
		usage()
	}
	switch os.Args[1] {
	case "run":
		if len(os.Args) < 4 {
			usage()
		}
		os.Exit(supervise(os.Args[2], os.Args[3]))
	case "child":
		child(os.Args[2], os.Args[3], os.Args[4])
	case "replay":
		os.Exit(replay(os.Args[2], true))
	case "c04forged":
		limitMemory()
		checks.C04ForgedMain(os.Args[2], os.Args[3])
	case "deepnest":
		ext := os.Args[2] == "true"
		levels, _ := strconv.Atoi(os.Args[3])
		mb, _ := strconv.Atoi(os.Args[4])
		checks.DeepNestMain(ext, levels, mb)
	case "list":
		for _, id := range engine.IDs() {
			fmt.Println(id)
		}
	default:
		usage()
	}
}

func usage() {
	fmt.Fprintln(os.Stderr, "usage: vc run <ID> <quick|thorough> | vc replay <file> | vc list")
	os.Exit(2)
}

func seed() int64 {
	s, _ := strconv.ParseInt(os.Getenv("VERIF_SEED"), 10, 64)
	return s
}

func budget(tier string) time.Duration {
	if s := os.Getenv("VERIF_BUDGET_S"); s != "" {
		if n, err := strconv.Atoi(s); err == nil {
			return time.Duration(n) * time.Second
		}
	}
	if tier == "thorough" {
		return 45 * time.Minute
	}
	return 4 * time.Minute
}

// limitMemory caps the address space of the child so that a library bug that allocates
// proportionally to a forged count ends the child quickly (reported as a crash violation)
// instead of exhausting the machine.
func limitMemory() {
	gb := uint64(24)
	if s := os.Getenv("VERIF_MEM_GB"); s != "" {
		if n, err := strconv.Atoi(s); err == nil && n > 0 {
			gb = uint64(n)
		}
	}
	lim := syscall.Rlimit{Cur: gb << 30, Max: gb << 30}
	_ = syscall.Setrlimit(syscall.RLIMIT_AS, &lim)
}

func child(id, tier, out string) {
	limitMemory()
	ch := engine.Lookup(id)
	if ch == nil {
		fmt.Fprintln(os.Stderr, "unknown check", id)
		os.Exit(2)
	}
	c := engine.NewCtx(id, tier, seed(), budget(tier))
	ch.Run(c)
	res := c.Finish(ch)
	b, err := json.Marshal(res)
	if err != nil {
		fmt.Fprintln(os.Stderr, "marshal result:", err)
		os.Exit(2)
	}
	if err := os.WriteFile(out, b, 0o644); err != nil {
		fmt.Fprintln(os.Stderr, err)
		os.Exit(2)
	}
}

type replayFile struct {
	Property string          `json:"property"`
	Key      string          `json:"key"`
	Desc     string          `json:"desc"`
	Kind     string          `json:"kind"`
	Case     json.RawMessage `json:"case"`
	Count    int64           `json:"cases_with_this_key"`
	Stderr   string          `json:"stderr_tail,omitempty"`
}

func replay(path string, verbose bool) int {
	b, err := os.ReadFile(path)
	if err != nil {
		fmt.Fprintln(os.Stderr, err)
		return 2
	}
	var rf replayFile
	if err := json.Unmarshal(b, &rf); err != nil {
		fmt.Fprintln(os.Stderr, err)
		return 2
	}
	ch := engine.Lookup(rf.Property)
	if ch == nil || ch.Replay == nil {
		fmt.Fprintln(os.Stderr, "no replay for", rf.Property)
		return 2
	}
	if rf.Kind == "crash" {
		fmt.Println("crash record; stderr tail:\n" + rf.Stderr)
		return 1
	}
	c := engine.NewCtx(rf.Property, "quick", 0, 10*time.Minute)
	ch.Replay(c, rf.Kind, rf.Case)
	vs := c.Violations()
	if len(vs) == 0 {
		if verbose {
			fmt.Println("not reproduced: no violation on this tree for", path)
		}
		return 0
	}
	for _, v := range vs {
		if verbose {
			fmt.Printf("VIOLATION property=%s replay=%s\n  key=%s\n  %s\n", rf.Property, path, v.Key, v.Desc)
		}
	}
	return 1
}

type finding struct {
	prop, key, text string
}

func loadFindings() []finding {
	f, err := os.Open(filepath.Join(root, "known_findings.txt"))
	if err != nil {
		return nil
	}
	defer f.Close()
	var out []finding
	sc := bufio.NewScanner(f)
	for sc.Scan() {
		line := strings.TrimSpace(sc.Text())
		if !strings.HasPrefix(line, "finding:") {
			continue // "fixed:" lines and comments suppress nothing
		}
		rest := strings.TrimSpace(strings.TrimPrefix(line, "finding:"))
		fs := strings.SplitN(rest, " ", 3)
		if len(fs) < 2 || !strings.HasPrefix(fs[0], "property=") || !strings.HasPrefix(fs[1], "key=") {
			continue
		}
		fd := finding{prop: strings.TrimPrefix(fs[0], "property="), key: strings.TrimPrefix(fs[1], "key=")}
		if len(fs) == 3 {
			fd.text = fs[2]
		}
		out = append(out, fd)
	}
	return out
}

func matchFinding(fs []finding, prop, key string) *finding {
	for i := range fs {
		f := &fs[i]
		if f.prop != prop {
			continue
		}
		if f.key == key {
			return f
		}
		if strings.HasSuffix(f.key, "*") && strings.HasPrefix(key, strings.TrimSuffix(f.key, "*")) {
			return f
		}
	}
	return nil
}

func keyFile(id, key string) string {
	h := sha1.Sum([]byte(key))
	safe := strings.Map(func(r rune) rune {
		if (r >= 'a' && r <= 'z') || (r >= 'A' && r <= 'Z') || (r >= '0' && r <= '9') || r == '-' || r == '_' || r == '.' {
			return r
		}
		return '_'
	}, key)
	if len(safe) > 60 {
		safe = safe[:60]
	}
	return filepath.Join(root, "replays", id, safe+"-"+hex.EncodeToString(h[:4])+".json")
}

func tail(path string, n int) string {
	b, _ := os.ReadFile(path)
	if len(b) > n {
		// keep the head (the fatal error and the faulting goroutine) and the end
		h := n * 2 / 3
		return string(b[:h]) + "\n[...]\n" + string(b[len(b)-(n-h):])
	}
	return string(b)
}

// supervise runs the check; when a run produced violations none of which reproduced from its replay
// file (they depended on what concurrent workers or earlier cases had left in process-wide state -
// pooled buffers, package-level scratch) and nothing else was reported, the check is run a second
// time with ONE worker: that execution is a single deterministic sequence of cases, so whatever
// it reports reproduces, and phases that the storm of irreproducible cases cut short are reached.
func supervise(id, tier string) int {
	exit, reported, flaky := superviseOnce(id, tier, "")
	if exit == 0 && reported == 0 && flaky > 0 {
		fmt.Fprintf(os.Stderr, "[%s] %d violation key(s) did not reproduce and nothing else was reported: second pass with one worker\n", id, flaky)
		exit, _, _ = superviseOnce(id, tier, "1")
	}
	return exit
}

func superviseOnce(id, tier, workers string) (int, int, int) {
	ch := engine.Lookup(id)
	if ch == nil {
		fmt.Fprintln(os.Stderr, "unknown check", id)
		return 2, 0, 0
	}
	start := time.Now()
	flaky := 0
	build := filepath.Join(root, ".build")
	os.MkdirAll(build, 0o755)
	os.MkdirAll(filepath.Join(root, "evidence"), 0o755)
	resPath := filepath.Join(build, fmt.Sprintf("result-%s-%d.json", id, os.Getpid()))
	errPath := filepath.Join(build, fmt.Sprintf("stderr-%s-%d.log", id, os.Getpid()))
	defer os.Remove(resPath)
	defer os.Remove(errPath)
	errF, _ := os.Create(errPath)
	cmd := exec.Command(os.Args[0], "child", id, tier, resPath)
	cmd.Stdout = os.Stderr
	cmd.Stderr = errF
	cmd.Env = append(os.Environ(), "GOTRACEBACK=single")
	if workers != "" {
		cmd.Env = append(cmd.Env, "VERIF_WORKERS="+workers)
	}
	runErr := cmd.Run()
	errF.Close()
	if t := tail(errPath, 4000); t != "" {
		fmt.Fprint(os.Stderr, t)
	}

	var res engine.Result
	haveRes := false
	if b, err := os.ReadFile(resPath); err == nil {
		if json.Unmarshal(b, &res) == nil {
			haveRes = true
		}
	}
	known := loadFindings()
	exit := 0
	var lines []string
	nViol := 0
	if !haveRes {
		// The child died (fatal error, stack overflow, OOM, os.Exit): totality violation or harness bug.
		rf := replayFile{Property: id, Key: "crash/child-died", Kind: "crash",
			Desc: fmt.Sprintf("check process died (fatal error, stack overflow or out of memory inside the code under test): %v", runErr), Stderr: tail(errPath, 6000)}
		if rf.Stderr == "" {
			rf.Stderr = "(no output: killed from outside)"
		}
		p := keyFile(id, rf.Key)
		os.MkdirAll(filepath.Dir(p), 0o755)
		b, _ := json.MarshalIndent(rf, "", " ")
		os.WriteFile(p, b, 0o644)
		lines = append(lines, fmt.Sprintf("VIOLATION property=%s replay=%s", id, p))
		nViol = 1
		exit = 1
		res = engine.Result{ID: id, Tier: tier, Seed: seed(), Level: ch.Level, Rule: ch.Rule,
			Counters: map[string]int64{}, Capped: true}
	}
	for _, v := range res.Violations {
		rf := replayFile{Property: id, Key: v.Key, Desc: v.Desc, Kind: v.Kind, Case: v.Case, Count: v.Count}
		p := keyFile(id, v.Key)
		os.MkdirAll(filepath.Dir(p), 0o755)
		b, _ := json.MarshalIndent(rf, "", " ")
		os.WriteFile(p, b, 0o644)
		if f := matchFinding(known, id, v.Key); f != nil {
			lines = append(lines, fmt.Sprintf("KNOWN-FINDING: property=%s key=%s %s (%d cases; replay=%s)", id, v.Key, f.text, v.Count, p))
			continue
		}
		// Believe a violation only if its replay file reproduces it every time, in a fresh process.
		// If the first recorded case does not (it depended on state that earlier cases of the run
		// had left behind), try the other recorded cases of the same key.
		ok := 0
		const tries = 5
		cands := append([]json.RawMessage{v.Case}, v.Alt...)
		descs := append([]string{v.Desc}, v.AltDesc...)
		for ci, cand := range cands {
			rf.Case, rf.Desc = cand, descs[ci]
			b, _ := json.MarshalIndent(rf, "", " ")
			os.WriteFile(p, b, 0o644)
			ok = 0
			for i := 0; i < tries; i++ {
				rc := exec.Command(os.Args[0], "replay", p)
				rc.Env = os.Environ()
				if err := rc.Run(); err != nil {
					if ee, isExit := err.(*exec.ExitError); isExit && ee.ExitCode() == 1 {
						ok++
					} else if isExit && ee.ExitCode() != 2 {
						ok++ // replay crashed outright: the crash is the reproduction
					}
				}
			}
			if ok == tries {
				v.Desc = descs[ci]
				break
			}
		}
		if ok == tries {
			lines = append(lines, fmt.Sprintf("VIOLATION property=%s replay=%s", id, p))
			fmt.Fprintf(os.Stderr, "  [%s] %s\n    %s (%d cases)\n", id, v.Key, v.Desc, v.Count)
			nViol++
			exit = 1
		} else {
			fmt.Fprintf(os.Stderr, "[%s] HARNESS-FLAKY (reproduced %d/%d, not reported): %s %s\n", id, ok, tries, v.Key, v.Desc)
			res.Warnings = append(res.Warnings, "flaky violation not reported: "+v.Key)
			res.Capped = true
			flaky++
		}
	}
	writeEvidence(ch, &res, tier, nViol, time.Since(start).Seconds())
	for _, l := range lines {
		fmt.Println(l)
	}
	fmt.Fprintf(os.Stderr, "[%s] tier=%s evaluations=%d distinct=%d violations=%d exhaustive=%v wall=%.1fs\n",
		id, tier, res.Counters["evaluations"], distinct(&res), nViol, !res.Capped, time.Since(start).Seconds())
	return exit, nViol, flaky
}

func distinct(res *engine.Result) int64 {
	// hashed distinct cases plus cases counted distinct by construction (disjoint sub-spaces)
	return res.Distinct + res.Counters["distinct_nontrivial"]
}

func writeEvidence(ch *engine.Check, res *engine.Result, tier string, nViol int, wall float64) {
	cov := map[string]any{}
	for k, v := range res.Counters {
		cov[k] = v
	}
	for k, v := range res.Notes {
		cov[k] = v
	}
	cov["evaluations"] = res.Counters["evaluations"]
	cov["distinct_nontrivial"] = distinct(res)
	cov["rule"] = res.Rule
	var samples []any
	for class, ss := range res.Samples {
		for _, s := range ss {
			samples = append(samples, map[string]any{"class": class, "case": s})
		}
	}
	if samples == nil {
		samples = []any{}
	}
	cov["samples"] = samples
	cov["exhaustive"] = !res.Capped
	if len(res.Warnings) > 0 {
		cov["warnings"] = res.Warnings
	}
	cov["violating_cases_total"] = res.ViolTotal
	ev := map[string]any{
		"property_id": res.ID, "tier": tier, "seed": res.Seed, "level": ch.Level,
		"coverage": cov, "assumptions": ch.Assumptions, "wall_s": wall, "violations": nViol,
	}
	if ev["assumptions"] == nil {
		ev["assumptions"] = []string{}
	}
	b, _ := json.MarshalIndent(ev, "", " ")
	os.WriteFile(filepath.Join(root, "evidence", res.ID+".json"), b, 0o644)
}
