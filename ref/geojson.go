package ref

import (
	"bytes"
	"encoding/json"
	"fmt"
	"strconv"

	"github.com/twpayne/go-geom"
)

// Independent reader of RFC 7946 geometry objects on top of encoding/json generic values.
// It returns the type, the nesting and the numbers; Layout is derived from the arity of the
// first position (2 XY, 3 XYZ, 4 XYZM, n Layout(n); NoLayout when there is no position).
// A null where a position is expected is read as an empty member (MultiPoint only).

var geojsonKinds = map[string]Kind{"Point": Point, "LineString": LineString, "Polygon": Polygon, "MultiPoint": MultiPoint,
	"MultiLineString": MultiLineString, "MultiPolygon": MultiPolygon, "GeometryCollection": Collection}

func jsonPos(v any, allowNull bool) (C, error) {
	if v == nil && allowNull {
		return nil, nil
	}
	arr, ok := v.([]any)
	if !ok {
		return nil, fmt.Errorf("position is not an array")
	}
	c := make(C, len(arr))
	for i, x := range arr {
		n, ok := x.(json.Number)
		if !ok {
			return nil, fmt.Errorf("ordinate is not a number")
		}
		f, err := strconv.ParseFloat(string(n), 64)
		if err != nil {
			return nil, err
		}
		c[i] = F(f)
	}
	return c, nil
}

func jsonPosList(v any, allowNull bool) ([]C, error) {
	arr, ok := v.([]any)
	if !ok {
		return nil, fmt.Errorf("not an array of positions")
	}
	out := make([]C, len(arr))
	for i, x := range arr {
		c, err := jsonPos(x, allowNull)
		if err != nil {
			return nil, err
		}
		out[i] = c
	}
	return out, nil
}

func jsonPosList2(v any) ([][]C, error) {
	arr, ok := v.([]any)
	if !ok {
		return nil, fmt.Errorf("not an array of arrays of positions")
	}
	out := make([][]C, len(arr))
	for i, x := range arr {
		c, err := jsonPosList(x, false)
		if err != nil {
			return nil, err
		}
		out[i] = c
	}
	return out, nil
}

// ParseGeoJSON reads one geometry object.
func ParseGeoJSON(data []byte) (*G, error) {
	dec := json.NewDecoder(bytes.NewReader(data))
	dec.UseNumber()
	var v any
	if err := dec.Decode(&v); err != nil {
		return nil, err
	}
	return geoFromValue(v)
}

func layoutForArity(n int) geom.Layout {
	switch n {
	case 2:
		return geom.XY
	case 3:
		return geom.XYZ
	case 4:
		return geom.XYZM
	}
	return geom.Layout(n)
}

func geoFromValue(v any) (*G, error) {
	obj, ok := v.(map[string]any)
	if !ok {
		return nil, fmt.Errorf("geometry is not an object")
	}
	ts, ok := obj["type"].(string)
	if !ok {
		return nil, fmt.Errorf("type is not a string")
	}
	k, ok := geojsonKinds[ts]
	if !ok {
		return nil, fmt.Errorf("unknown type %q", ts)
	}
	g := &G{Kind: k}
	if k == Collection {
		arr, ok := obj["geometries"].([]any)
		if !ok {
			return nil, fmt.Errorf("geometries is not an array")
		}
		for _, x := range arr {
			kid, err := geoFromValue(x)
			if err != nil {
				return nil, err
			}
			g.Kids = append(g.Kids, kid)
		}
		return g, nil
	}
	co, present := obj["coordinates"]
	if !present {
		return nil, fmt.Errorf("no coordinates")
	}
	var err error
	switch k {
	case Point:
		g.C0, err = jsonPos(co, false)
		if err == nil && len(g.C0) == 0 {
			g.C0 = nil // "coordinates": [] is the empty point
		}
	case LineString:
		g.C1, err = jsonPosList(co, false)
	case MultiPoint:
		g.C1, err = jsonPosList(co, true)
	case Polygon, MultiLineString:
		g.C2, err = jsonPosList2(co)
	case MultiPolygon:
		arr, ok := co.([]any)
		if !ok {
			return nil, fmt.Errorf("not an array of polygons")
		}
		g.C3 = make([][][]C, len(arr))
		for i, x := range arr {
			g.C3[i], err = jsonPosList2(x)
			if err != nil {
				return nil, err
			}
		}
	}
	if err != nil {
		return nil, err
	}
	first := -1
	g.Ordinates(func(*F) {})
	eachC(g, func(c C) {
		if first < 0 && c != nil {
			first = len(c)
		}
	})
	if first >= 0 {
		g.Layout = layoutForArity(first)
	}
	return g, nil
}

func eachC(g *G, f func(c C)) {
	if g.C0 != nil {
		f(g.C0)
	}
	for _, c := range g.C1 {
		f(c)
	}
	for _, x := range g.C2 {
		for _, c := range x {
			f(c)
		}
	}
	for _, x := range g.C3 {
		for _, y := range x {
			for _, c := range y {
				f(c)
			}
		}
	}
}

// SameShapeAndNumbers compares type, nesting and numbers (bit for bit), ignoring layouts and SRIDs.
func SameShapeAndNumbers(a, b *G) bool {
	if a.Kind != b.Kind {
		return false
	}
	switch a.Kind {
	case Point:
		return eqC(a.C0, b.C0, true)
	case LineString, LinearRing:
		return eq1(a.C1, b.C1, false)
	case MultiPoint:
		return eq1(a.C1, b.C1, true)
	case Polygon, MultiLineString:
		return eq2(a.C2, b.C2)
	case MultiPolygon:
		return eq3(a.C3, b.C3)
	case Collection:
		if len(a.Kids) != len(b.Kids) {
			return false
		}
		for i := range a.Kids {
			if !SameShapeAndNumbers(a.Kids[i], b.Kids[i]) {
				return false
			}
		}
		return true
	}
	return false
}
