// Package ref is the reference side of the checks: a boring algebraic model of
// geometries, builders/observers that go through the public API only, the
// structural well-formedness predicate restated from the property text, exact
// arithmetic helpers and independent codecs.
package ref

import (
	"encoding/json"
	"fmt"
	"math"
	"strconv"
	"strings"

	"github.com/twpayne/go-geom"
)

// Kind enumerates geometry kinds.
type Kind int

// Kinds.
const (
	Point Kind = iota
	LineString
	LinearRing
	Polygon
	MultiPoint
	MultiLineString
	MultiPolygon
	Collection
)

var kindNames = []string{"Point", "LineString", "LinearRing", "Polygon", "MultiPoint", "MultiLineString", "MultiPolygon", "GeometryCollection"}

func (k Kind) String() string { return kindNames[k] }

// F is a float64 that survives JSON (NaN payloads, infinities, -0) bit for bit.
type F float64

// MarshalJSON writes plain numbers where that is lossless, else "bits:0x…".
func (f F) MarshalJSON() ([]byte, error) {
	v := float64(f)
	if !math.IsNaN(v) && !math.IsInf(v, 0) && !(v == 0 && math.Signbit(v)) {
		s := strconv.FormatFloat(v, 'g', -1, 64)
		return []byte(s), nil
	}
	return []byte(fmt.Sprintf("\"bits:0x%016x\"", math.Float64bits(v))), nil
}

// UnmarshalJSON reverses MarshalJSON.
func (f *F) UnmarshalJSON(b []byte) error {
	s := string(b)
	if strings.HasPrefix(s, "\"bits:0x") {
		u, err := strconv.ParseUint(strings.TrimSuffix(strings.TrimPrefix(s, "\"bits:0x"), "\""), 16, 64)
		if err != nil {
			return err
		}
		*f = F(math.Float64frombits(u))
		return nil
	}
	v, err := strconv.ParseFloat(s, 64)
	if err != nil {
		return err
	}
	*f = F(v)
	return nil
}

// C is one coordinate; nil means "empty point" where the kind allows one.
type C []F

// Floats converts to a geom.Coord (nil stays nil).
func (c C) Floats() geom.Coord {
	if c == nil {
		return nil
	}
	out := make(geom.Coord, len(c))
	for i, v := range c {
		out[i] = float64(v)
	}
	return out
}

// FromFloats converts a []float64.
func FromFloats(fs []float64) C {
	if fs == nil {
		return nil
	}
	out := make(C, len(fs))
	for i, v := range fs {
		out[i] = F(v)
	}
	return out
}

// G is the algebraic model of a geometry.
type G struct {
	Kind   Kind        `json:"kind"`
	Layout geom.Layout `json:"layout"`
	SRID   int         `json:"srid,omitempty"`
	C0     C           `json:"c0,omitempty"` // Point (nil = empty)
	C1     []C         `json:"c1,omitempty"` // LineString, LinearRing, MultiPoint (nil member = empty point)
	C2     [][]C       `json:"c2,omitempty"` // Polygon, MultiLineString
	C3     [][][]C     `json:"c3,omitempty"` // MultiPolygon
	Kids   []*G        `json:"kids,omitempty"`
	// Fixed is the layout fixed on a collection with SetLayout (NoLayout = none).
	Fixed geom.Layout `json:"fixed,omitempty"`
}

func (g *G) String() string {
	b, _ := json.Marshal(g)
	return string(b)
}

func coords1(cs []C) []geom.Coord {
	out := make([]geom.Coord, len(cs))
	for i, c := range cs {
		out[i] = c.Floats()
	}
	return out
}

func coords2(cs [][]C) [][]geom.Coord {
	out := make([][]geom.Coord, len(cs))
	for i, c := range cs {
		out[i] = coords1(c)
	}
	return out
}

func coords3(cs [][][]C) [][][]geom.Coord {
	out := make([][][]geom.Coord, len(cs))
	for i, c := range cs {
		out[i] = coords2(c)
	}
	return out
}

// Build constructs the real geometry through New*(layout).SetCoords.
func (g *G) Build() (geom.T, error) {
	switch g.Kind {
	case Point:
		if g.C0 == nil {
			return geom.NewPointEmpty(g.Layout).SetSRID(g.SRID), nil
		}
		p, err := geom.NewPoint(g.Layout).SetCoords(g.C0.Floats())
		if err != nil {
			return nil, err
		}
		return p.SetSRID(g.SRID), nil
	case LineString:
		p, err := geom.NewLineString(g.Layout).SetCoords(coords1(g.C1))
		if err != nil {
			return nil, err
		}
		return p.SetSRID(g.SRID), nil
	case LinearRing:
		p, err := geom.NewLinearRing(g.Layout).SetCoords(coords1(g.C1))
		if err != nil {
			return nil, err
		}
		return p.SetSRID(g.SRID), nil
	case Polygon:
		p, err := geom.NewPolygon(g.Layout).SetCoords(coords2(g.C2))
		if err != nil {
			return nil, err
		}
		return p.SetSRID(g.SRID), nil
	case MultiPoint:
		p, err := geom.NewMultiPoint(g.Layout).SetCoords(coords1(g.C1))
		if err != nil {
			return nil, err
		}
		return p.SetSRID(g.SRID), nil
	case MultiLineString:
		p, err := geom.NewMultiLineString(g.Layout).SetCoords(coords2(g.C2))
		if err != nil {
			return nil, err
		}
		return p.SetSRID(g.SRID), nil
	case MultiPolygon:
		p, err := geom.NewMultiPolygon(g.Layout).SetCoords(coords3(g.C3))
		if err != nil {
			return nil, err
		}
		return p.SetSRID(g.SRID), nil
	case Collection:
		gc := geom.NewGeometryCollection()
		for _, k := range g.Kids {
			t, err := k.Build()
			if err != nil {
				return nil, err
			}
			if err := gc.Push(t); err != nil {
				return nil, err
			}
		}
		if g.Fixed != geom.NoLayout {
			if err := gc.SetLayout(g.Fixed); err != nil {
				return nil, err
			}
		}
		return gc.SetSRID(g.SRID), nil
	}
	return nil, fmt.Errorf("bad kind %d", g.Kind)
}

// MustBuild panics on error (harness bug).
func (g *G) MustBuild() geom.T {
	t, err := g.Build()
	if err != nil {
		panic(fmt.Sprintf("ref: cannot build %s: %v", g, err))
	}
	return t
}

func fromCoords1(cs []geom.Coord) []C {
	out := make([]C, len(cs))
	for i, c := range cs {
		out[i] = FromFloats(c)
	}
	return out
}

func fromCoords2(cs [][]geom.Coord) [][]C {
	out := make([][]C, len(cs))
	for i, c := range cs {
		out[i] = fromCoords1(c)
	}
	return out
}

func fromCoords3(cs [][][]geom.Coord) [][][]C {
	out := make([][][]C, len(cs))
	for i, c := range cs {
		out[i] = fromCoords2(c)
	}
	return out
}

// Observe reads a real geometry back into a model through the public API only.
func Observe(t geom.T) (g *G, err error) {
	defer func() {
		if r := recover(); r != nil {
			g, err = nil, fmt.Errorf("accessor panicked while observing a %T (layout %v): %v", t, layoutOf(t), r)
		}
	}()
	return observe(t)
}

func layoutOf(t geom.T) (l geom.Layout) {
	defer func() { _ = recover() }()
	if t == nil {
		return geom.NoLayout
	}
	return t.Layout()
}

func observe(t geom.T) (*G, error) {
	switch t := t.(type) {
	case *geom.Point:
		g := &G{Kind: Point, Layout: t.Layout(), SRID: t.SRID()}
		if !t.Empty() {
			g.C0 = FromFloats(t.Coords())
		}
		return g, nil
	case *geom.LineString:
		return &G{Kind: LineString, Layout: t.Layout(), SRID: t.SRID(), C1: fromCoords1(t.Coords())}, nil
	case *geom.LinearRing:
		return &G{Kind: LinearRing, Layout: t.Layout(), SRID: t.SRID(), C1: fromCoords1(t.Coords())}, nil
	case *geom.Polygon:
		return &G{Kind: Polygon, Layout: t.Layout(), SRID: t.SRID(), C2: fromCoords2(t.Coords())}, nil
	case *geom.MultiPoint:
		return &G{Kind: MultiPoint, Layout: t.Layout(), SRID: t.SRID(), C1: fromCoords1(t.Coords())}, nil
	case *geom.MultiLineString:
		return &G{Kind: MultiLineString, Layout: t.Layout(), SRID: t.SRID(), C2: fromCoords2(t.Coords())}, nil
	case *geom.MultiPolygon:
		return &G{Kind: MultiPolygon, Layout: t.Layout(), SRID: t.SRID(), C3: fromCoords3(t.Coords())}, nil
	case *geom.GeometryCollection:
		g := &G{Kind: Collection, Layout: t.Layout(), SRID: t.SRID()}
		for _, k := range t.Geoms() {
			kg, err := observe(k)
			if err != nil {
				return nil, err
			}
			g.Kids = append(g.Kids, kg)
		}
		return g, nil
	case nil:
		return nil, fmt.Errorf("nil geometry")
	}
	return nil, fmt.Errorf("unknown geometry type %T", t)
}

func eqC(a, b C, nilMatters bool) bool {
	if nilMatters && (a == nil) != (b == nil) {
		return false
	}
	if len(a) != len(b) {
		return false
	}
	for i := range a {
		if math.Float64bits(float64(a[i])) != math.Float64bits(float64(b[i])) {
			return false
		}
	}
	return true
}

func eq1(a, b []C, nilMatters bool) bool {
	if len(a) != len(b) {
		return false
	}
	for i := range a {
		if !eqC(a[i], b[i], nilMatters) {
			return false
		}
	}
	return true
}

func eq2(a, b [][]C) bool {
	if len(a) != len(b) {
		return false
	}
	for i := range a {
		if !eq1(a[i], b[i], false) {
			return false
		}
	}
	return true
}

func eq3(a, b [][][]C) bool {
	if len(a) != len(b) {
		return false
	}
	for i := range a {
		if !eq2(a[i], b[i]) {
			return false
		}
	}
	return true
}

// EqualOpt controls Equal.
type EqualOpt struct {
	IgnoreSRID       bool
	IgnoreCollLayout bool // do not compare Layout of collections (computed, not stored)
}

// Equal is structural equality with float64 compared by bits.
func Equal(a, b *G, o EqualOpt) bool {
	if a == nil || b == nil {
		return a == b
	}
	if a.Kind != b.Kind {
		return false
	}
	if !(a.Kind == Collection && o.IgnoreCollLayout) && a.Layout != b.Layout {
		return false
	}
	if !o.IgnoreSRID && a.SRID != b.SRID {
		return false
	}
	switch a.Kind {
	case Point:
		return eqC(a.C0, b.C0, true)
	case LineString, LinearRing:
		return eq1(a.C1, b.C1, false)
	case MultiPoint:
		return eq1(a.C1, b.C1, true)
	case Polygon, MultiLineString:
		return eq2(a.C2, b.C2)
	case MultiPolygon:
		return eq3(a.C3, b.C3)
	case Collection:
		if len(a.Kids) != len(b.Kids) {
			return false
		}
		for i := range a.Kids {
			if !Equal(a.Kids[i], b.Kids[i], o) {
				return false
			}
		}
		return true
	}
	return false
}

// WellFormed is the structural predicate of property C01, restated from its
// text: stride = dimension of the layout; the flat array holds a whole number
// of coordinates; end offsets are stride-aligned, non-decreasing and finish
// exactly at the end of the coordinates. Collections are checked member by member.
func WellFormed(t geom.T) error {
	if t == nil {
		return fmt.Errorf("nil geometry")
	}
	if gc, ok := t.(*geom.GeometryCollection); ok {
		for i, k := range gc.Geoms() {
			if err := WellFormed(k); err != nil {
				return fmt.Errorf("member %d: %w", i, err)
			}
		}
		return nil
	}
	stride := t.Stride()
	if stride != t.Layout().Stride() {
		return fmt.Errorf("stride %d != layout %v stride %d", stride, t.Layout(), t.Layout().Stride())
	}
	if stride < 0 {
		return fmt.Errorf("negative stride")
	}
	flat := t.FlatCoords()
	if stride == 0 {
		if len(flat) != 0 {
			return fmt.Errorf("stride 0 with %d ordinates", len(flat))
		}
	} else if len(flat)%stride != 0 {
		return fmt.Errorf("len(flat)=%d not a multiple of stride %d", len(flat), stride)
	}
	checkEnds := func(ends []int, offset int) (int, error) {
		for _, e := range ends {
			if stride == 0 {
				if e != 0 {
					return 0, fmt.Errorf("stride 0 with end %d", e)
				}
				continue
			}
			if e%stride != 0 {
				return 0, fmt.Errorf("misaligned end %d (stride %d)", e, stride)
			}
			if e < offset {
				return 0, fmt.Errorf("decreasing end %d after %d", e, offset)
			}
			offset = e
		}
		return offset, nil
	}
	switch t := t.(type) {
	case *geom.Point:
		if len(flat) != 0 && len(flat) != stride {
			return fmt.Errorf("point with %d ordinates, stride %d", len(flat), stride)
		}
	case *geom.LineString, *geom.LinearRing:
	case *geom.Polygon, *geom.MultiLineString, *geom.MultiPoint:
		off, err := checkEnds(t.Ends(), 0)
		if err != nil {
			return err
		}
		if off != len(flat) {
			return fmt.Errorf("last end %d != len(flat) %d", off, len(flat))
		}
		if mp, ok := t.(*geom.MultiPoint); ok && stride > 0 {
			prev := 0
			for _, e := range mp.Ends() {
				if e-prev != 0 && e-prev != stride {
					return fmt.Errorf("multipoint member of %d ordinates", e-prev)
				}
				prev = e
			}
		}
	case *geom.MultiPolygon:
		off := 0
		for _, ends := range t.Endss() {
			var err error
			off, err = checkEnds(ends, off)
			if err != nil {
				return err
			}
		}
		if off != len(flat) {
			return fmt.Errorf("last end %d != len(flat) %d", off, len(flat))
		}
	default:
		return fmt.Errorf("unknown type %T", t)
	}
	return nil
}

// Dim is the number of ordinates per coordinate of a layout.
func Dim(l geom.Layout) int { return l.Stride() }

// Clone deep-copies a model.
func (g *G) Clone() *G {
	b, _ := json.Marshal(g)
	var out G
	if err := json.Unmarshal(b, &out); err != nil {
		panic(err)
	}
	// JSON drops the nil/empty distinction of MultiPoint members only when omitempty applies to
	// whole fields; members survive as null. Restore empty-but-present top-level slices.
	return &out
}
