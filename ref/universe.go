package ref

import (
	"math"

	"github.com/twpayne/go-geom"
)

// Seqs returns every sequence of length 0..maxLen over the alphabet, shortest first,
// in lexicographic order of alphabet index.
func Seqs(alphabet []int, maxLen int) [][]int {
	out := [][]int{{}}
	level := [][]int{{}}
	for l := 1; l <= maxLen; l++ {
		var next [][]int
		for _, s := range level {
			for _, a := range alphabet {
				t := append(append([]int{}, s...), a)
				next = append(next, t)
			}
		}
		out = append(out, next...)
		level = next
	}
	return out
}

// SeqsOf returns every sequence of length 0..maxLen over an alphabet of shapes.
func SeqsOf(alphabet [][]int, maxLen int) [][][]int {
	out := [][][]int{{}}
	level := [][][]int{{}}
	for l := 1; l <= maxLen; l++ {
		var next [][][]int
		for _, s := range level {
			for _, a := range alphabet {
				t := append(append([][]int{}, s...), a)
				next = append(next, t)
			}
		}
		out = append(out, next...)
		level = next
	}
	return out
}

// Layouts used by the universe.
var (
	Layouts4   = []geom.Layout{geom.XY, geom.XYZ, geom.XYM, geom.XYZM}
	LayoutsAll = []geom.Layout{geom.XY, geom.XYZ, geom.XYM, geom.XYZM, geom.Layout(5), geom.Layout(7)}
)

// Filler hands out ordinate values.
type Filler func() F

// Counter is the default filler: ordinate k gets the value k+1, so every offset mistake
// moves a visible number.
func Counter() Filler {
	k := 0.0
	return func() F { k++; return F(k) }
}

// CounterFrom starts at a given value.
func CounterFrom(start float64) Filler {
	k := start
	return func() F { k++; return F(k) }
}

func fillC(stride int, f Filler) C {
	c := make(C, stride)
	for i := range c {
		c[i] = f()
	}
	return c
}

func fill1(n, stride int, f Filler) []C {
	out := make([]C, n)
	for i := range out {
		out[i] = fillC(stride, f)
	}
	return out
}

func fill2(sizes []int, stride int, f Filler) [][]C {
	out := make([][]C, len(sizes))
	for i, n := range sizes {
		out[i] = fill1(n, stride, f)
	}
	return out
}

// NewPoint builds a point model.
func NewPoint(l geom.Layout, present bool, f Filler) *G {
	g := &G{Kind: Point, Layout: l}
	if present {
		g.C0 = fillC(l.Stride(), f)
	}
	return g
}

// NewLine builds a LineString/LinearRing model with n coordinates.
func NewLine(k Kind, l geom.Layout, n int, f Filler) *G {
	return &G{Kind: k, Layout: l, C1: fill1(n, l.Stride(), f)}
}

// NewParts builds a Polygon/MultiLineString model with the given part sizes.
func NewParts(k Kind, l geom.Layout, sizes []int, f Filler) *G {
	return &G{Kind: k, Layout: l, C2: fill2(sizes, l.Stride(), f)}
}

// NewMultiPoint builds a MultiPoint; pattern[i]==0 means an empty member.
func NewMultiPoint(l geom.Layout, pattern []int, f Filler) *G {
	g := &G{Kind: MultiPoint, Layout: l, C1: make([]C, len(pattern))}
	for i, p := range pattern {
		if p != 0 {
			g.C1[i] = fillC(l.Stride(), f)
		}
	}
	return g
}

// NewMultiPolygon builds a MultiPolygon from ring-size vectors.
func NewMultiPolygon(l geom.Layout, shape [][]int, f Filler) *G {
	g := &G{Kind: MultiPolygon, Layout: l, C3: make([][][]C, len(shape))}
	for i, sizes := range shape {
		g.C3[i] = fill2(sizes, l.Stride(), f)
	}
	return g
}

// Sizes012 is the part-size alphabet of the universe.
var Sizes012 = []int{0, 1, 2}

// ForEachBase enumerates the non-collection universe for one layout: every shape of the
// seven concrete types with counter values. maxPolys bounds MultiPolygon length (2 quick, 3 thorough).
func ForEachBase(l geom.Layout, maxPolys int, emit func(*G)) {
	for _, present := range []bool{false, true} {
		emit(NewPoint(l, present, Counter()))
	}
	for _, k := range []Kind{LineString, LinearRing} {
		for n := 0; n <= 3; n++ {
			emit(NewLine(k, l, n, Counter()))
		}
	}
	parts := Seqs(Sizes012, 3)
	for _, k := range []Kind{Polygon, MultiLineString} {
		for _, s := range parts {
			emit(NewParts(k, l, s, Counter()))
		}
	}
	for _, p := range Seqs([]int{0, 1}, 3) {
		emit(NewMultiPoint(l, p, Counter()))
	}
	ringVecs := Seqs(Sizes012, 2)
	for _, s := range SeqsOf(ringVecs, maxPolys) {
		emit(NewMultiPolygon(l, s, Counter()))
	}
}

// SpecialFloats is the special-value sweep of the universe.
var SpecialFloats = []float64{
	math.Float64frombits(0x7FF8000000000000), // canonical quiet NaN (= empty point ordinate)
	math.Float64frombits(0x7FF8000000000001), // NaN with payload
	math.Float64frombits(0x7FF0000000000001), // signalling NaN
	math.Float64frombits(0xFFF8000000000000), // negative quiet NaN
	math.Inf(1), math.Inf(-1),
	math.Copysign(0, -1),
	math.SmallestNonzeroFloat64,
	math.MaxFloat64,
}

// Ordinates calls f with a pointer to every ordinate of g in flattening order.
func (g *G) Ordinates(f func(p *F)) {
	c := func(c C) {
		for i := range c {
			f(&c[i])
		}
	}
	c(g.C0)
	for _, x := range g.C1 {
		c(x)
	}
	for _, x := range g.C2 {
		for _, y := range x {
			c(y)
		}
	}
	for _, x := range g.C3 {
		for _, y := range x {
			for _, z := range y {
				c(z)
			}
		}
	}
	for _, k := range g.Kids {
		k.Ordinates(f)
	}
}

// NumOrdinates counts ordinates.
func (g *G) NumOrdinates() int {
	n := 0
	g.Ordinates(func(*F) { n++ })
	return n
}

// Flat returns the model's own flattening: flat coordinates, ends (level 2) and endss (level 3).
func (g *G) Flat() (flat []float64, ends []int, endss [][]int) {
	add := func(c C) {
		for _, v := range c {
			flat = append(flat, float64(v))
		}
	}
	switch g.Kind {
	case Point:
		add(g.C0)
	case LineString, LinearRing:
		for _, c := range g.C1 {
			add(c)
		}
	case MultiPoint:
		for _, c := range g.C1 {
			add(c)
			ends = append(ends, len(flat))
		}
	case Polygon, MultiLineString:
		for _, p := range g.C2 {
			for _, c := range p {
				add(c)
			}
			ends = append(ends, len(flat))
		}
	case MultiPolygon:
		for _, poly := range g.C3 {
			var es []int
			for _, p := range poly {
				for _, c := range p {
					add(c)
				}
				es = append(es, len(flat))
			}
			endss = append(endss, es)
		}
	}
	return
}

// Cover is the smallest layout that covers all given layouts (XYZ+XYM = XYZM).
func Cover(ls []geom.Layout) geom.Layout {
	max := geom.NoLayout
	for _, l := range ls {
		switch {
		case (l == geom.XYZ && max == geom.XYM) || (l == geom.XYM && max == geom.XYZ):
			max = geom.XYZM
		case l > max:
			max = l
		}
	}
	return max
}

// NewCollection builds a collection model; fixed != NoLayout fixes the layout (SetLayout),
// otherwise Layout is the cover of the members' layouts.
func NewCollection(fixed geom.Layout, kids ...*G) *G {
	g := &G{Kind: Collection, Kids: kids, Fixed: fixed}
	g.RecomputeLayout()
	return g
}

// RecomputeLayout sets Layout of a collection from Fixed or the members.
func (g *G) RecomputeLayout() {
	if g.Kind != Collection {
		return
	}
	if g.Fixed != geom.NoLayout {
		g.Layout = g.Fixed
		return
	}
	var ls []geom.Layout
	for _, k := range g.Kids {
		k.RecomputeLayout()
		ls = append(ls, k.Layout)
	}
	g.Layout = Cover(ls)
}
