package ref

import (
	"encoding/binary"
	"math"

	"github.com/twpayne/go-geom"
)

// Independent reference encoder for ISO WKB and PostGIS EWKB, written from the format
// descriptions; shares no code with the library.

var canonNaN = math.Float64frombits(0x7FF8000000000000)

type wbuf struct {
	b   []byte
	xdr bool
}

func (w *wbuf) u8(v byte) { w.b = append(w.b, v) }
func (w *wbuf) u32(v uint32) {
	var t [4]byte
	if w.xdr {
		binary.BigEndian.PutUint32(t[:], v)
	} else {
		binary.LittleEndian.PutUint32(t[:], v)
	}
	w.b = append(w.b, t[:]...)
}
func (w *wbuf) f64(v float64) {
	var t [8]byte
	if w.xdr {
		binary.BigEndian.PutUint64(t[:], math.Float64bits(v))
	} else {
		binary.LittleEndian.PutUint64(t[:], math.Float64bits(v))
	}
	w.b = append(w.b, t[:]...)
}
func (w *wbuf) coord(c C) {
	for _, v := range c {
		w.f64(float64(v))
	}
}

var baseCode = map[Kind]uint32{Point: 1, LineString: 2, Polygon: 3, MultiPoint: 4, MultiLineString: 5, MultiPolygon: 6, Collection: 7}

func typeWord(k Kind, l geom.Layout, ext bool, srid int) uint32 {
	t := baseCode[k]
	hasZ := l == geom.XYZ || l == geom.XYZM
	hasM := l == geom.XYM || l == geom.XYZM
	if ext {
		if hasZ {
			t |= 0x80000000
		}
		if hasM {
			t |= 0x40000000
		}
		if srid != 0 {
			t |= 0x20000000
		}
		return t
	}
	switch {
	case hasZ && hasM:
		t += 3000
	case hasM:
		t += 2000
	case hasZ:
		t += 1000
	}
	return t
}

// EncodeWKB returns the reference encoding (ext=false: ISO WKB, ext=true: EWKB). Empty points
// are written as all-canonical-NaN ordinates. Layouts must be XY/XYZ/XYM/XYZM (or NoLayout for an
// empty collection, written with the plain XY code).
func EncodeWKB(g *G, xdr, ext bool) []byte {
	w := &wbuf{xdr: xdr}
	encodeWKB(w, g, ext)
	return w.b
}

func encodeWKB(w *wbuf, g *G, ext bool) {
	if w.xdr {
		w.u8(0)
	} else {
		w.u8(1)
	}
	l := g.Layout
	w.u32(typeWord(g.Kind, l, ext, g.SRID))
	if ext && g.SRID != 0 {
		w.u32(uint32(g.SRID))
	}
	sub := func(k Kind) *G { return &G{Kind: k, Layout: l} }
	switch g.Kind {
	case Point:
		if g.C0 == nil {
			for i := 0; i < l.Stride(); i++ {
				w.f64(canonNaN)
			}
		} else {
			w.coord(g.C0)
		}
	case LineString:
		w.u32(uint32(len(g.C1)))
		for _, c := range g.C1 {
			w.coord(c)
		}
	case Polygon:
		w.u32(uint32(len(g.C2)))
		for _, r := range g.C2 {
			w.u32(uint32(len(r)))
			for _, c := range r {
				w.coord(c)
			}
		}
	case MultiPoint:
		w.u32(uint32(len(g.C1)))
		for _, c := range g.C1 {
			p := sub(Point)
			p.C0 = c
			encodeWKB(w, p, ext)
		}
	case MultiLineString:
		w.u32(uint32(len(g.C2)))
		for _, ls := range g.C2 {
			p := sub(LineString)
			p.C1 = ls
			encodeWKB(w, p, ext)
		}
	case MultiPolygon:
		w.u32(uint32(len(g.C3)))
		for _, pg := range g.C3 {
			p := sub(Polygon)
			p.C2 = pg
			encodeWKB(w, p, ext)
		}
	case Collection:
		w.u32(uint32(len(g.Kids)))
		for _, k := range g.Kids {
			encodeWKB(w, k, ext)
		}
	}
}

func allCanonNaN(c C) bool {
	if len(c) == 0 {
		return false
	}
	for _, v := range c {
		if math.Float64bits(float64(v)) != 0x7FF8000000000000 {
			return false
		}
	}
	return true
}

// ExpectDecoded applies the format carve-outs of property C03 to a model: a point (or multipoint
// member) whose ordinates are all the canonical quiet NaN reads back as the empty point (nanEmpty:
// EWKB always, WKB in NaN mode); an empty collection without a fixed layout reads back with the
// layout of its type code (XY).
func ExpectDecoded(g *G, nanEmpty bool) *G {
	h := g.Clone()
	var fix func(x *G)
	fix = func(x *G) {
		switch x.Kind {
		case Point:
			if nanEmpty && allCanonNaN(x.C0) {
				x.C0 = nil
			}
		case MultiPoint:
			for i, c := range x.C1 {
				if nanEmpty && allCanonNaN(c) {
					x.C1[i] = nil
				}
			}
		case Collection:
			for _, k := range x.Kids {
				fix(k)
			}
			x.Fixed = geom.NoLayout
			if len(x.Kids) == 0 {
				if x.Layout == geom.NoLayout {
					x.Layout = geom.XY
				}
			} else {
				var ls []geom.Layout
				for _, k := range x.Kids {
					ls = append(ls, k.Layout)
				}
				x.Layout = Cover(ls)
			}
		}
	}
	fix(h)
	return h
}

// HasEmptyPoint reports whether the model contains an empty point (top level, multipoint member, nested).
func HasEmptyPoint(g *G) bool {
	switch g.Kind {
	case Point:
		return g.C0 == nil
	case MultiPoint:
		for _, c := range g.C1 {
			if c == nil {
				return true
			}
		}
	case Collection:
		for _, k := range g.Kids {
			if HasEmptyPoint(k) {
				return true
			}
		}
	}
	return false
}
