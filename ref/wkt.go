package ref

import (
	"fmt"
	"strconv"
	"strings"

	"github.com/twpayne/go-geom"
)

// Independent WKT reader (recursive descent) and writer with spelling variants.
// The dimensionality conventions are the ones documented for the library's parser:
// a suffix fixes the layout; a base type takes it from the arity of its first point
// (2 XY, 3 XYZ, 4 XYZM); base-type EMPTY is XY unless it stands inside a Z/M/ZM
// collection whose type it takes on; inside an M collection a base type must be EMPTY;
// every geometry has one layout throughout; lines >= 2 points; rings closed >= 4 points.

type wtok struct {
	kind byte // 'k' keyword, 'n' number, '(' ')' ','
	text string
	num  float64
}

func isWS(c byte) bool {
	return c == ' ' || c == '\t' || c == '\n' || c == '\r' || c == '\v' || c == '\f'
}
func isLetter(c byte) bool { return (c >= 'a' && c <= 'z') || (c >= 'A' && c <= 'Z') }
func isNumCh(c byte) bool {
	return (c >= '0' && c <= '9') || c == '-' || c == '+' || c == '.' || c == 'e' || c == 'E'
}

func wktTokens(s string) ([]wtok, error) {
	var out []wtok
	i := 0
	for i < len(s) {
		c := s[i]
		switch {
		case isWS(c):
			i++
		case c == '(' || c == ')' || c == ',':
			out = append(out, wtok{kind: c})
			i++
		case isLetter(c):
			j := i
			for j < len(s) && isLetter(s[j]) {
				j++
			}
			out = append(out, wtok{kind: 'k', text: strings.ToUpper(s[i:j])})
			i = j
		case (c >= '0' && c <= '9') || c == '-' || c == '.':
			j := i
			for j < len(s) && isNumCh(s[j]) {
				j++
			}
			v, err := strconv.ParseFloat(s[i:j], 64)
			if err != nil {
				return nil, fmt.Errorf("bad number %q", s[i:j])
			}
			out = append(out, wtok{kind: 'n', num: v})
			i = j
		default:
			return nil, fmt.Errorf("bad character %q", c)
		}
	}
	return out, nil
}

type wframe struct {
	layout geom.Layout
	inBase bool
}

type wparser struct {
	toks []wtok
	pos  int
}

func (p *wparser) peek() wtok {
	if p.pos < len(p.toks) {
		return p.toks[p.pos]
	}
	return wtok{kind: 0}
}
func (p *wparser) next() wtok { t := p.peek(); p.pos++; return t }
func (p *wparser) expect(k byte) error {
	if t := p.next(); t.kind != k {
		return fmt.Errorf("expected %q", k)
	}
	return nil
}

var wktKinds = map[string]Kind{
	"POINT": Point, "LINESTRING": LineString, "POLYGON": Polygon, "MULTIPOINT": MultiPoint,
	"MULTILINESTRING": MultiLineString, "MULTIPOLYGON": MultiPolygon, "GEOMETRYCOLLECTION": Collection,
}

var suffixLayout = map[string]geom.Layout{"Z": geom.XYZ, "M": geom.XYM, "ZM": geom.XYZM}

// ParseWKT parses one WKT geometry.
func ParseWKT(s string) (*G, error) {
	toks, err := wktTokens(s)
	if err != nil {
		return nil, err
	}
	p := &wparser{toks: toks}
	top := &wframe{layout: geom.NoLayout, inBase: true}
	g, err := p.geometry(top)
	if err != nil {
		return nil, err
	}
	if p.pos != len(p.toks) {
		return nil, fmt.Errorf("trailing tokens")
	}
	return g, nil
}

func (p *wparser) typeAndSuffix() (Kind, geom.Layout, error) {
	t := p.next()
	if t.kind != 'k' {
		return 0, 0, fmt.Errorf("expected a geometry type")
	}
	name := t.text
	suffix := geom.NoLayout
	if k, ok := wktKinds[name]; ok {
		// detached suffix
		if n := p.peek(); n.kind == 'k' {
			if l, ok := suffixLayout[n.text]; ok {
				p.next()
				suffix = l
			}
		}
		return k, suffix, nil
	}
	for _, sfx := range []string{"ZM", "Z", "M"} {
		if strings.HasSuffix(name, sfx) {
			if k, ok := wktKinds[strings.TrimSuffix(name, sfx)]; ok {
				suffix = suffixLayout[sfx]
				// "POINTZ M" is read as POINT ZM
				if sfx == "Z" {
					if n := p.peek(); n.kind == 'k' && n.text == "M" {
						p.next()
						suffix = geom.XYZM
					}
				}
				return k, suffix, nil
			}
		}
	}
	return 0, 0, fmt.Errorf("unknown keyword %q", name)
}

func arityOK(n int, l geom.Layout) bool {
	switch l {
	case geom.NoLayout:
		return n >= 2 && n <= 4
	case geom.XY:
		return n == 2
	case geom.XYZ, geom.XYM:
		return n == 3
	case geom.XYZM:
		return n == 4
	}
	return false
}

func (p *wparser) point(f *wframe) (C, error) {
	var c C
	for p.peek().kind == 'n' {
		c = append(c, F(p.next().num))
	}
	if len(c) < 2 || len(c) > 4 {
		return nil, fmt.Errorf("point with %d ordinates", len(c))
	}
	if !arityOK(len(c), f.layout) {
		return nil, fmt.Errorf("mixed dimensionality")
	}
	if f.layout == geom.NoLayout {
		f.layout = map[int]geom.Layout{2: geom.XY, 3: geom.XYZ, 4: geom.XYZM}[len(c)]
	}
	return c, nil
}

func (p *wparser) pointList(f *wframe) ([]C, error) {
	if err := p.expect('('); err != nil {
		return nil, err
	}
	var out []C
	for {
		c, err := p.point(f)
		if err != nil {
			return nil, err
		}
		out = append(out, c)
		if p.peek().kind == ',' {
			p.next()
			continue
		}
		break
	}
	return out, p.expect(')')
}

func (p *wparser) line(f *wframe) ([]C, error) {
	cs, err := p.pointList(f)
	if err != nil {
		return nil, err
	}
	if len(cs) < 2 {
		return nil, fmt.Errorf("linestring with one point")
	}
	return cs, nil
}

func (p *wparser) ring(f *wframe) ([]C, error) {
	cs, err := p.pointList(f)
	if err != nil {
		return nil, err
	}
	if len(cs) < 4 {
		return nil, fmt.Errorf("ring with fewer than 4 points")
	}
	dims := 2
	if f.layout.ZIndex() != -1 {
		dims = 3
	}
	for i := 0; i < dims; i++ {
		if float64(cs[0][i]) != float64(cs[len(cs)-1][i]) {
			return nil, fmt.Errorf("ring not closed")
		}
	}
	return cs, nil
}

func (p *wparser) ringList(f *wframe) ([][]C, error) {
	if err := p.expect('('); err != nil {
		return nil, err
	}
	var out [][]C
	for {
		r, err := p.ring(f)
		if err != nil {
			return nil, err
		}
		out = append(out, r)
		if p.peek().kind == ',' {
			p.next()
			continue
		}
		break
	}
	return out, p.expect(')')
}

// emptyRule applies the EMPTY rule; base = the geometry type keyword had no suffix.
func emptyRule(f *wframe, base bool) error {
	if !base || !f.inBase {
		return nil
	}
	switch f.layout {
	case geom.NoLayout:
		f.layout = geom.XY
		return nil
	case geom.XY:
		return nil
	}
	return fmt.Errorf("EMPTY is XY in a base geometry type")
}

func (p *wparser) isEmptyTok() bool {
	t := p.peek()
	return t.kind == 'k' && t.text == "EMPTY"
}

func (p *wparser) geometry(ctx *wframe) (*G, error) {
	kind, suffix, err := p.typeAndSuffix()
	if err != nil {
		return nil, err
	}
	base := suffix == geom.NoLayout
	if kind == Collection {
		f := &wframe{layout: ctx.layout, inBase: ctx.inBase}
		if !base {
			if ctx.layout != geom.NoLayout && ctx.layout != suffix {
				return nil, fmt.Errorf("mixed dimensionality")
			}
			f = &wframe{layout: suffix, inBase: false}
		}
		g := &G{Kind: Collection}
		if p.isEmptyTok() {
			p.next()
			if err := emptyRule(f, base); err != nil {
				return nil, err
			}
		} else {
			if err := p.expect('('); err != nil {
				return nil, err
			}
			for {
				k, err := p.geometry(f)
				if err != nil {
					return nil, err
				}
				g.Kids = append(g.Kids, k)
				if p.peek().kind == ',' {
					p.next()
					continue
				}
				break
			}
			if err := p.expect(')'); err != nil {
				return nil, err
			}
		}
		if f.layout == geom.NoLayout {
			return nil, fmt.Errorf("collection without a layout")
		}
		if ctx.layout != geom.NoLayout && ctx.layout != f.layout {
			return nil, fmt.Errorf("mixed dimensionality")
		}
		ctx.layout = f.layout
		g.Layout = f.layout
		g.Fixed = f.layout
		for _, k := range g.Kids {
			if k.Layout != g.Layout {
				return nil, fmt.Errorf("member layout differs")
			}
		}
		return g, nil
	}
	mustBeEmpty := false
	if base {
		if !ctx.inBase {
			mustBeEmpty = ctx.layout == geom.XYM
		} else if ctx.layout == geom.XYM {
			return nil, fmt.Errorf("M variant required")
		}
	} else {
		if ctx.layout != geom.NoLayout && ctx.layout != suffix {
			return nil, fmt.Errorf("mixed dimensionality")
		}
		ctx.layout = suffix
	}
	g := &G{Kind: kind}
	if p.isEmptyTok() {
		p.next()
		if err := emptyRule(ctx, base); err != nil {
			return nil, err
		}
		g.Layout = ctx.layout
		switch kind {
		case LineString:
			g.C1 = []C{}
		case MultiPoint:
			g.C1 = []C{}
		case Polygon, MultiLineString:
			g.C2 = [][]C{}
		case MultiPolygon:
			g.C3 = [][][]C{}
		}
		return g, nil
	}
	if p.peek().kind != '(' {
		return nil, fmt.Errorf("expected ( or EMPTY")
	}
	if mustBeEmpty {
		return nil, fmt.Errorf("base type in an M collection must be EMPTY")
	}
	switch kind {
	case Point:
		p.next()
		c, err := p.point(ctx)
		if err != nil {
			return nil, err
		}
		if err := p.expect(')'); err != nil {
			return nil, err
		}
		g.C0 = c
	case LineString:
		cs, err := p.line(ctx)
		if err != nil {
			return nil, err
		}
		g.C1 = cs
	case Polygon:
		rs, err := p.ringList(ctx)
		if err != nil {
			return nil, err
		}
		g.C2 = rs
	case MultiPoint:
		p.next()
		g.C1 = []C{}
		for {
			switch {
			case p.isEmptyTok():
				p.next()
				if err := emptyRule(ctx, base); err != nil {
					return nil, err
				}
				g.C1 = append(g.C1, nil)
			case p.peek().kind == '(':
				p.next()
				c, err := p.point(ctx)
				if err != nil {
					return nil, err
				}
				if err := p.expect(')'); err != nil {
					return nil, err
				}
				g.C1 = append(g.C1, c)
			default:
				c, err := p.point(ctx)
				if err != nil {
					return nil, err
				}
				g.C1 = append(g.C1, c)
			}
			if p.peek().kind == ',' {
				p.next()
				continue
			}
			break
		}
		if err := p.expect(')'); err != nil {
			return nil, err
		}
	case MultiLineString:
		p.next()
		g.C2 = [][]C{}
		for {
			if p.isEmptyTok() {
				p.next()
				if err := emptyRule(ctx, base); err != nil {
					return nil, err
				}
				g.C2 = append(g.C2, []C{})
			} else {
				cs, err := p.line(ctx)
				if err != nil {
					return nil, err
				}
				g.C2 = append(g.C2, cs)
			}
			if p.peek().kind == ',' {
				p.next()
				continue
			}
			break
		}
		if err := p.expect(')'); err != nil {
			return nil, err
		}
	case MultiPolygon:
		p.next()
		g.C3 = [][][]C{}
		for {
			if p.isEmptyTok() {
				p.next()
				if err := emptyRule(ctx, base); err != nil {
					return nil, err
				}
				g.C3 = append(g.C3, [][]C{})
			} else {
				rs, err := p.ringList(ctx)
				if err != nil {
					return nil, err
				}
				g.C3 = append(g.C3, rs)
			}
			if p.peek().kind == ',' {
				p.next()
				continue
			}
			break
		}
		if err := p.expect(')'); err != nil {
			return nil, err
		}
	}
	g.Layout = ctx.layout
	return g, nil
}

// ---- writer with spelling variants ------------------------------------------------------

// WKTStyle selects one spelling of the same geometry.
type WKTStyle struct {
	Case     int // 0 upper, 1 lower, 2 mixed
	Space    int // 0 minimal, 1 padded, 2 newlines and tabs
	MPParens bool
	Detached bool // "POINT Z" instead of "POINTZ"
	Num      int  // 0 plain decimal, 1 exponent e, 2 exponent E with explicit sign, 3 no leading zero
}

// AllWKTStyles enumerates every combination of spelling variants (3*3*2*2*4 = 144).
func AllWKTStyles() []WKTStyle {
	var out []WKTStyle
	for c := 0; c < 3; c++ {
		for s := 0; s < 3; s++ {
			for _, mp := range []bool{false, true} {
				for _, d := range []bool{false, true} {
					for n := 0; n < 4; n++ {
						out = append(out, WKTStyle{Case: c, Space: s, MPParens: mp, Detached: d, Num: n})
					}
				}
			}
		}
	}
	return out
}

type wktWriter struct {
	sb strings.Builder
	st WKTStyle
}

func (w *wktWriter) word(s string) {
	switch w.st.Case {
	case 1:
		s = strings.ToLower(s)
	case 2:
		b := []byte(strings.ToLower(s))
		for i := 0; i < len(b); i += 2 {
			if b[i] >= 'a' && b[i] <= 'z' {
				b[i] -= 32
			}
		}
		s = string(b)
	}
	w.sb.WriteString(s)
}

// gap writes optional whitespace (none in minimal style); sep writes mandatory whitespace.
func (w *wktWriter) gap() {
	switch w.st.Space {
	case 1:
		w.sb.WriteString("  ")
	case 2:
		w.sb.WriteString("\n\t")
	case 3, 4, 5, 6:
		w.sb.WriteString(oneSpace[w.st.Space-3])
	}
}

// oneSpace: spellings in which every piece of whitespace is the same single character (tab, line
// feed, carriage return alone) or the CR LF pair.
var oneSpace = [4]string{"\t", "\n", "\r", "\r\n"}

// OneSpaceWKTStyles are the spellings with a single kind of whitespace throughout, also before the
// first word and after the last parenthesis.
func OneSpaceWKTStyles() []WKTStyle {
	var out []WKTStyle
	for s := 3; s <= 6; s++ {
		for _, mp := range []bool{false, true} {
			out = append(out, WKTStyle{Space: s, MPParens: mp, Detached: true}, WKTStyle{Space: s, MPParens: mp, Case: 1})
		}
	}
	return out
}

func (w *wktWriter) sep() {
	switch w.st.Space {
	case 0:
		w.sb.WriteString(" ")
	case 1:
		w.sb.WriteString("   ")
	case 2:
		w.sb.WriteString(" \r\n\t ")
	case 3, 4, 5, 6:
		w.sb.WriteString(oneSpace[w.st.Space-3])
	}
}

func (w *wktWriter) num(v float64) {
	var s string
	switch w.st.Num {
	case 0:
		s = strconv.FormatFloat(v, 'f', -1, 64)
	case 1:
		s = strconv.FormatFloat(v, 'e', -1, 64)
	case 2:
		s = strconv.FormatFloat(v, 'E', -1, 64)
	case 3:
		s = strconv.FormatFloat(v, 'f', -1, 64)
		if strings.HasPrefix(s, "0.") {
			s = s[1:]
		} else if strings.HasPrefix(s, "-0.") {
			s = "-" + s[2:]
		}
	}
	w.sb.WriteString(s)
}

func (w *wktWriter) coord(c C) {
	for i, v := range c {
		if i > 0 {
			w.sep()
		}
		w.num(float64(v))
	}
}

func (w *wktWriter) coordList(cs []C) {
	w.sb.WriteString("(")
	w.gap()
	for i, c := range cs {
		if i > 0 {
			w.gap()
			w.sb.WriteString(",")
			w.gap()
		}
		w.coord(c)
	}
	w.gap()
	w.sb.WriteString(")")
}

func (w *wktWriter) rings(rs [][]C) {
	w.sb.WriteString("(")
	w.gap()
	for i, r := range rs {
		if i > 0 {
			w.sb.WriteString(",")
			w.gap()
		}
		w.coordList(r)
	}
	w.gap()
	w.sb.WriteString(")")
}

var wktNames = map[Kind]string{Point: "POINT", LineString: "LINESTRING", LinearRing: "LINESTRING", Polygon: "POLYGON", MultiPoint: "MULTIPOINT",
	MultiLineString: "MULTILINESTRING", MultiPolygon: "MULTIPOLYGON", Collection: "GEOMETRYCOLLECTION"}

func (w *wktWriter) geometry(g *G) {
	w.word(wktNames[g.Kind])
	sfx := map[geom.Layout]string{geom.XYZ: "Z", geom.XYM: "M", geom.XYZM: "ZM"}[g.Layout]
	if sfx != "" {
		if w.st.Detached {
			w.sep()
		}
		w.word(sfx)
	}
	empty := func() { w.sep(); w.word("EMPTY") }
	switch g.Kind {
	case Point:
		if g.C0 == nil {
			empty()
			return
		}
		w.gap()
		w.coordList([]C{g.C0})
	case LineString, LinearRing:
		if len(g.C1) == 0 {
			empty()
			return
		}
		w.gap()
		w.coordList(g.C1)
	case Polygon:
		if len(g.C2) == 0 {
			empty()
			return
		}
		w.gap()
		w.rings(g.C2)
	case MultiPoint:
		if len(g.C1) == 0 {
			empty()
			return
		}
		w.gap()
		w.sb.WriteString("(")
		for i, c := range g.C1 {
			if i > 0 {
				w.sb.WriteString(",")
			}
			w.gap()
			switch {
			case c == nil:
				w.word("EMPTY")
			case w.st.MPParens:
				w.coordList([]C{c})
			default:
				w.coord(c)
			}
		}
		w.gap()
		w.sb.WriteString(")")
	case MultiLineString:
		if len(g.C2) == 0 {
			empty()
			return
		}
		w.gap()
		w.sb.WriteString("(")
		for i, l := range g.C2 {
			if i > 0 {
				w.sb.WriteString(",")
			}
			w.gap()
			if len(l) == 0 {
				w.word("EMPTY")
			} else {
				w.coordList(l)
			}
		}
		w.gap()
		w.sb.WriteString(")")
	case MultiPolygon:
		if len(g.C3) == 0 {
			empty()
			return
		}
		w.gap()
		w.sb.WriteString("(")
		for i, pg := range g.C3 {
			if i > 0 {
				w.sb.WriteString(",")
			}
			w.gap()
			if len(pg) == 0 {
				w.word("EMPTY")
			} else {
				w.rings(pg)
			}
		}
		w.gap()
		w.sb.WriteString(")")
	case Collection:
		if len(g.Kids) == 0 {
			empty()
			return
		}
		w.gap()
		w.sb.WriteString("(")
		for i, k := range g.Kids {
			if i > 0 {
				w.sb.WriteString(",")
			}
			w.gap()
			w.geometry(k)
		}
		w.gap()
		w.sb.WriteString(")")
	}
}

// WriteWKT renders g in the given spelling.
func WriteWKT(g *G, st WKTStyle) string {
	w := &wktWriter{st: st}
	if st.Space > 0 {
		w.gap()
	}
	w.geometry(g)
	if st.Space > 0 {
		w.gap()
	}
	return w.sb.String()
}
