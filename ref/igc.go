package ref

import (
	"fmt"
	"strings"
	"time"
)

// Reference model of the IGC record rules (A, H, I, B records), written from the format
// conventions the decoder documents: fixed B-record columns, I-record extensions that must be
// contiguous and extend the B-record length, H DTE dates with a two-digit year window
// 1970..2069, day roll-over when the time of day goes backwards.

// IGCHeader mirrors igc.Header.
type IGCHeader struct{ Source, Key, KeyExtra, Value string }

// IGCFix is one decoded fix.
type IGCFix struct {
	Lng, Lat, EllipsoidAlt, Unix, PressureAlt float64
}

// IGCModel is the decoder state machine.
type IGCModel struct {
	FoundA, LeadingNoise bool
	Year, Month, Day     int
	LastDate             time.Time
	BLen                 int
	LadStart, LadStop    int
	LodStart, LodStop    int
	TdsStart, TdsStop    int
	Headers              []IGCHeader
	Fixes                []IGCFix
	RecordErrors         int // errors of individual records (excludes the A-record verdict)
	// MaxLatDeg / MaxLngDeg are the exclusive upper bounds of the degree fields.
	MaxLatDeg, MaxLngDeg int
}

// NewIGCModel returns the initial state. The degree bounds follow the format: latitude degrees
// 0..90 and longitude degrees 0..180 are expressible (90°00.000' and 180°00.000' are what the
// encoder writes for the poles and the antimeridian).
func NewIGCModel() *IGCModel { return &IGCModel{BLen: 35, MaxLatDeg: 91, MaxLngDeg: 181} }

// StateKey is the canonical decoder state (without the accumulated outputs).
func (m *IGCModel) StateKey() string {
	return fmt.Sprintf("A=%v n=%v d=%d-%d-%d last=%d blen=%d lad=%d:%d lod=%d:%d tds=%d:%d", m.FoundA, m.LeadingNoise, m.Year, m.Month, m.Day,
		m.LastDate.UnixNano(), m.BLen, m.LadStart, m.LadStop, m.LodStart, m.LodStop, m.TdsStart, m.TdsStop)
}

var errIGC = fmt.Errorf("record error")

func igcDec(s string, start, stop int) (int, error) {
	if start >= len(s) || stop > len(s) || start > stop {
		return 0, errIGC
	}
	neg := false
	if s[start] == '-' {
		neg = true
		start++
	}
	r := 0
	for i := start; i < stop; i++ {
		c := s[i]
		if c < '0' || c > '9' {
			return 0, errIGC
		}
		r = 10*r + int(c-'0')
	}
	if neg {
		r = -r
	}
	return r, nil
}

func igcDecRange(s string, start, stop, lo, hi int) (int, error) {
	r, err := igcDec(s, start, stop)
	if err != nil {
		return 0, err
	}
	if r < lo || r >= hi {
		return 0, errIGC
	}
	return r, nil
}

// Line feeds one line (without its line terminator) to the model.
func (m *IGCModel) Line(line string) {
	line = strings.TrimSuffix(line, "\r")
	if len(line) == 0 {
		return
	}
	if m.FoundA {
		var err error
		switch line[0] {
		case 'B':
			err = m.b(line)
		case 'H':
			err = m.h(line)
		case 'I':
			err = m.i(line)
		}
		if err != nil {
			m.RecordErrors++
		}
		return
	}
	c := line[0]
	switch {
	case c == 'A':
		m.FoundA = true
	case c >= 'A' && c <= 'Z':
		m.LeadingNoise = true
	default:
		i := strings.IndexRune(line, 'A')
		if i == -1 {
			return
		}
		for j, r := range line[:i] {
			if !(r == ' ' || (r >= 'A' && r <= 'Z')) {
				m.FoundA = true
				m.LeadingNoise = j != 0 || (r != '\x13' && r != '\ufeff')
				break
			}
		}
	}
}

func (m *IGCModel) b(line string) error {
	if len(line) < m.BLen {
		return errIGC
	}
	hour, err := igcDecRange(line, 1, 3, 0, 24)
	if err != nil {
		return err
	}
	minute, err := igcDecRange(line, 3, 5, 0, 60)
	if err != nil {
		return err
	}
	second, err := igcDecRange(line, 5, 7, 0, 60)
	if err != nil {
		return err
	}
	nsec := 0
	if m.TdsStart != 0 {
		ds, err := igcDecRange(line, m.TdsStart, m.TdsStop, 0, 10)
		if err != nil {
			return err
		}
		nsec = ds * 100000000
	}
	date := time.Date(m.Year, time.Month(m.Month), m.Day, hour, minute, second, nsec, time.UTC)
	if date.Before(m.LastDate) {
		m.Day++ // the roll-over sticks even if the rest of the record is rejected
		date = time.Date(m.Year, time.Month(m.Month), m.Day, hour, minute, second, nsec, time.UTC)
	}
	latDeg, err := igcDecRange(line, 7, 9, 0, m.MaxLatDeg)
	if err != nil {
		return err
	}
	latMM, err := igcDecRange(line, 9, 14, 0, 60001)
	if err != nil {
		return err
	}
	lat := float64(60000*latDeg+latMM) / 60000.
	if m.LadStart != 0 {
		lad, err := igcDec(line, m.LadStart, m.LadStop)
		if err != nil {
			return err
		}
		lat += float64(lad) / 6000000.
	}
	switch line[14] {
	case 'N':
	case 'S':
		lat = -lat
	default:
		return errIGC
	}
	lngDeg, err := igcDecRange(line, 15, 18, 0, m.MaxLngDeg)
	if err != nil {
		return err
	}
	lngMM, err := igcDecRange(line, 18, 23, 0, 60001)
	if err != nil {
		return err
	}
	lng := float64(60000*lngDeg+lngMM) / 60000.
	if m.LodStart != 0 {
		lod, err := igcDec(line, m.LodStart, m.LodStop)
		if err != nil {
			return err
		}
		lng += float64(lod) / 6000000.
	}
	switch line[23] {
	case 'E':
	case 'W':
		lng = -lng
	default:
		return errIGC
	}
	palt, err := igcDec(line, 25, 30)
	if err != nil {
		return err
	}
	galt, err := igcDec(line, 30, 35)
	if err != nil {
		return err
	}
	m.Fixes = append(m.Fixes, IGCFix{Lng: lng, Lat: lat, EllipsoidAlt: float64(galt), Unix: float64(date.UnixNano()) / 1e9, PressureAlt: float64(palt)})
	m.LastDate = date
	return nil
}

func isKeyCh(c byte) bool { return (c >= 'A' && c <= 'Z') || (c >= '0' && c <= '9') }

func (m *IGCModel) h(line string) error {
	// the first occurrence of: H, one source character, a three-character key [A-Z0-9]; then an
	// optional "extra:" and the value (the pattern is searched, not anchored at the line start)
	at := -1
	for i := 0; i+5 <= len(line); i++ {
		if line[i] == 'H' && line[i+1] < 0x80 && isKeyCh(line[i+2]) && isKeyCh(line[i+3]) && isKeyCh(line[i+4]) {
			at = i
			break
		}
	}
	if at < 0 {
		return errIGC
	}
	rest := line[at+5:]
	h := IGCHeader{Source: line[at+1 : at+2], Key: line[at+2 : at+5]}
	if k := strings.IndexByte(rest, ':'); k >= 0 {
		h.KeyExtra, rest = rest[:k], rest[k+1:]
	}
	h.Value = strings.TrimRight(rest, " \t\n\f\r")
	m.Headers = append(m.Headers, h)
	if h.Key != "DTE" {
		return nil
	}
	if len(h.Value) < 6 {
		return errIGC
	}
	day, err := igcDecRange(h.Value, 0, 2, 1, 32)
	if err != nil {
		return err
	}
	month, err := igcDecRange(h.Value, 2, 4, 1, 13)
	if err != nil {
		return err
	}
	year, err := igcDec(h.Value, 4, 6)
	if err != nil {
		return err
	}
	m.Day, m.Month = day, month
	// two-digit year window 1970..2069
	if year < 70 {
		m.Year = 2000 + year
	} else {
		m.Year = 1900 + year
	}
	return nil
}

func (m *IGCModel) i(line string) error {
	if len(line) < 3 {
		return errIGC
	}
	n, err := igcDec(line, 1, 3)
	if err != nil {
		return err
	}
	if len(line) < 7*n+3 {
		return errIGC
	}
	for k := 0; k < n; k++ {
		start, err := igcDec(line, 7*k+3, 7*k+5)
		if err != nil {
			return err
		}
		stop, err := igcDec(line, 7*k+5, 7*k+7)
		if err != nil {
			return err
		}
		if start != m.BLen+1 || stop < start {
			return errIGC
		}
		m.BLen = stop
		switch line[7*k+7 : 7*k+10] {
		case "LAD":
			m.LadStart, m.LadStop = start-1, stop
		case "LOD":
			m.LodStart, m.LodStop = start-1, stop
		case "TDS":
			m.TdsStart, m.TdsStop = start-1, stop
		}
	}
	return nil
}
