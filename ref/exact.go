package ref

import (
	"math"
	"math/big"
)

// R converts a finite float64 to an exact rational.
func R(x float64) *big.Rat {
	r := new(big.Rat)
	if r.SetFloat64(x) == nil {
		panic("ref.R: non-finite value")
	}
	return r
}

// P2 is a point with exact float64 ordinates.
type P2 struct{ X, Y float64 }

// P3 is a 3D point.
type P3 struct{ X, Y, Z float64 }

func rsub(a, b *big.Rat) *big.Rat { return new(big.Rat).Sub(a, b) }
func radd(a, b *big.Rat) *big.Rat { return new(big.Rat).Add(a, b) }
func rmul(a, b *big.Rat) *big.Rat { return new(big.Rat).Mul(a, b) }

// Cross returns (b-a) x (c-a) exactly.
func Cross(a, b, c P2) *big.Rat {
	ax, ay := R(a.X), R(a.Y)
	return rsub(rmul(rsub(R(b.X), ax), rsub(R(c.Y), ay)), rmul(rsub(R(b.Y), ay), rsub(R(c.X), ax)))
}

// Orient is the sign of Cross: +1 counter-clockwise, -1 clockwise, 0 collinear.
func Orient(a, b, c P2) int { return Cross(a, b, c).Sign() }

// Shoelace2 returns twice the signed shoelace area (counter-clockwise positive) of the
// polyline pts taken segment by segment: sum of x[i-1]*y[i] - x[i]*y[i-1]. For a closed
// ring this is twice the enclosed signed area.
func Shoelace2(pts []P2) *big.Rat {
	s := new(big.Rat)
	for i := 1; i < len(pts); i++ {
		s.Add(s, rsub(rmul(R(pts[i-1].X), R(pts[i].Y)), rmul(R(pts[i].X), R(pts[i-1].Y))))
	}
	return s
}

// Prec is the working precision for square roots.
const Prec = 256

// RatToFloat converts a rational to a big.Float at Prec bits.
func RatToFloat(r *big.Rat) *big.Float {
	return new(big.Float).SetPrec(Prec).SetRat(r)
}

// SqrtRat returns sqrt(r) at Prec bits (r >= 0).
func SqrtRat(r *big.Rat) *big.Float {
	if r.Sign() == 0 {
		return new(big.Float).SetPrec(Prec)
	}
	return new(big.Float).SetPrec(Prec).Sqrt(RatToFloat(r))
}

// Dist2 is the exact squared distance between two points.
func Dist2(a, b P2) *big.Rat {
	dx, dy := rsub(R(a.X), R(b.X)), rsub(R(a.Y), R(b.Y))
	return radd(rmul(dx, dx), rmul(dy, dy))
}

// PolylineLength is the length of a polyline at Prec bits.
func PolylineLength(pts []P2) *big.Float {
	s := new(big.Float).SetPrec(Prec)
	for i := 1; i < len(pts); i++ {
		s.Add(s, SqrtRat(Dist2(pts[i-1], pts[i])))
	}
	return s
}

// F64 converts a big.Float to the nearest float64.
func F64(f *big.Float) float64 {
	v, _ := f.Float64()
	return v
}

// RatF64 converts a rational to the nearest float64.
func RatF64(r *big.Rat) float64 {
	v, _ := r.Float64()
	return v
}

// AbsDiffLE reports |got - want| <= tol, with want a big.Float; all finite.
func AbsDiffLE(got float64, want *big.Float, tol float64) bool {
	if math.IsNaN(got) || math.IsInf(got, 0) {
		return false
	}
	d := new(big.Float).SetPrec(Prec).SetFloat64(got)
	d.Sub(d, want)
	d.Abs(d)
	return d.Cmp(new(big.Float).SetPrec(Prec).SetFloat64(tol)) <= 0
}

// XY extracts the XY part of a coordinate list.
func XY(cs []C) []P2 {
	out := make([]P2, len(cs))
	for i, c := range cs {
		out[i] = P2{float64(c[0]), float64(c[1])}
	}
	return out
}
