package ref

import (
	"math"
	"math/big"
)

// R converts a finite float64 to an exact rational.
func R(x float64) *big.Rat {
	r := new(big.Rat)
	if r.SetFloat64(x) == nil {
		panic("ref.R: non-finite value")
	}
	return r
}

// P2 is a point with exact float64 ordinates.
type P2 struct{ X, Y float64 }

// P3 is a 3D point.
type P3 struct{ X, Y, Z float64 }

func rsub(a, b *big.Rat) *big.Rat { return new(big.Rat).Sub(a, b) }
func radd(a, b *big.Rat) *big.Rat { return new(big.Rat).Add(a, b) }
func rmul(a, b *big.Rat) *big.Rat { return new(big.Rat).Mul(a, b) }

// Cross returns (b-a) x (c-a) exactly.
func Cross(a, b, c P2) *big.Rat {
	ax, ay := R(a.X), R(a.Y)
	return rsub(rmul(rsub(R(b.X), ax), rsub(R(c.Y), ay)), rmul(rsub(R(b.Y), ay), rsub(R(c.X), ax)))
}

// Orient is the sign of Cross: +1 counter-clockwise, -1 clockwise, 0 collinear.
func Orient(a, b, c P2) int { return Cross(a, b, c).Sign() }

// Shoelace2 returns twice the signed shoelace area (counter-clockwise positive) of the
// polyline pts taken segment by segment: sum of x[i-1]*y[i] - x[i]*y[i-1]. For a closed
// ring this is twice the enclosed signed area.
func Shoelace2(pts []P2) *big.Rat {
	s := new(big.Rat)
	for i := 1; i < len(pts); i++ {
		s.Add(s, rsub(rmul(R(pts[i-1].X), R(pts[i].Y)), rmul(R(pts[i].X), R(pts[i-1].Y))))
	}
	return s
}

// Prec is the working precision for square roots.
const Prec = 256

// RatToFloat converts a rational to a big.Float at Prec bits.
func RatToFloat(r *big.Rat) *big.Float {
	return new(big.Float).SetPrec(Prec).SetRat(r)
}

// SqrtRat returns sqrt(r) at Prec bits (r >= 0).
func SqrtRat(r *big.Rat) *big.Float {
	if r.Sign() == 0 {
		return new(big.Float).SetPrec(Prec)
	}
	return new(big.Float).SetPrec(Prec).Sqrt(RatToFloat(r))
}

// Dist2 is the exact squared distance between two points.
func Dist2(a, b P2) *big.Rat {
	dx, dy := rsub(R(a.X), R(b.X)), rsub(R(a.Y), R(b.Y))
	return radd(rmul(dx, dx), rmul(dy, dy))
}

// PolylineLength is the length of a polyline at Prec bits.
func PolylineLength(pts []P2) *big.Float {
	s := new(big.Float).SetPrec(Prec)
	for i := 1; i < len(pts); i++ {
		s.Add(s, SqrtRat(Dist2(pts[i-1], pts[i])))
	}
	return s
}

// F64 converts a big.Float to the nearest float64.
func F64(f *big.Float) float64 {
	v, _ := f.Float64()
	return v
}

// RatF64 converts a rational to the nearest float64.
func RatF64(r *big.Rat) float64 {
	v, _ := r.Float64()
	return v
}

// AbsDiffLE reports |got - want| <= tol, with want a big.Float; all finite.
func AbsDiffLE(got float64, want *big.Float, tol float64) bool {
	if math.IsNaN(got) || math.IsInf(got, 0) {
		return false
	}
	d := new(big.Float).SetPrec(Prec).SetFloat64(got)
	d.Sub(d, want)
	d.Abs(d)
	return d.Cmp(new(big.Float).SetPrec(Prec).SetFloat64(tol)) <= 0
}

// XY extracts the XY part of a coordinate list.
func XY(cs []C) []P2 {
	out := make([]P2, len(cs))
	for i, c := range cs {
		out[i] = P2{float64(c[0]), float64(c[1])}
	}
	return out
}

// OnSegment reports whether p lies on the closed segment ab, exactly.
func OnSegment(p, a, b P2) bool {
	if Orient(a, b, p) != 0 {
		return false
	}
	minx, maxx := a.X, b.X
	if minx > maxx {
		minx, maxx = maxx, minx
	}
	miny, maxy := a.Y, b.Y
	if miny > maxy {
		miny, maxy = maxy, miny
	}
	return minx <= p.X && p.X <= maxx && miny <= p.Y && p.Y <= maxy
}

// Locate classifies p against the closed ring (first point == last point) by the even-odd
// rule in exact arithmetic: 1 = boundary (on a segment), 0 = interior, 2 = exterior.
// It shoots a VERTICAL ray upwards with its own half-open convention in x, independent of
// the horizontal-ray convention of the implementation.
func Locate(p P2, ring []P2) int {
	for i := 1; i < len(ring); i++ {
		if OnSegment(p, ring[i-1], ring[i]) {
			return 1
		}
	}
	crossings := 0
	for i := 1; i < len(ring); i++ {
		a, b := ring[i-1], ring[i]
		if a.X == b.X {
			continue // vertical edges never cross a vertical ray transversally
		}
		if a.X > b.X {
			a, b = b, a
		}
		// half-open in x: a.X <= p.X < b.X
		if !(a.X <= p.X && p.X < b.X) {
			continue
		}
		// the edge passes above p iff p is to the right of a->b (clockwise), a being the left end
		if Orient(a, b, p) < 0 {
			crossings++
		}
	}
	if crossings%2 == 1 {
		return 0
	}
	return 2
}

// SegInter is the exact intersection of two non-degenerate segments.
type SegInter struct {
	Kind int // 0 none, 1 single point, 2 collinear overlap of positive length
	// Endpoint: for Kind 1, true when the point is an endpoint of one of the segments (then P is that endpoint, exact).
	Endpoint bool
	P, Q     P2       // Kind 1: P (if Endpoint); Kind 2: overlap endpoints P<Q lexicographically
	PX, PY   *big.Rat // Kind 1: exact point
}

func lexLess(a, b P2) bool { return a.X < b.X || (a.X == b.X && a.Y < b.Y) }

// SegSeg classifies and locates the intersection of segments a1a2 and b1b2 exactly.
func SegSeg(a1, a2, b1, b2 P2) SegInter {
	o1, o2 := Orient(a1, a2, b1), Orient(a1, a2, b2)
	o3, o4 := Orient(b1, b2, a1), Orient(b1, b2, a2)
	if o1 == 0 && o2 == 0 && o3 == 0 && o4 == 0 {
		loA, hiA := a1, a2
		if lexLess(hiA, loA) {
			loA, hiA = hiA, loA
		}
		loB, hiB := b1, b2
		if lexLess(hiB, loB) {
			loB, hiB = hiB, loB
		}
		lo, hi := loA, hiA
		if lexLess(lo, loB) {
			lo = loB
		}
		if lexLess(hiB, hi) {
			hi = hiB
		}
		switch {
		case lexLess(hi, lo):
			return SegInter{Kind: 0}
		case lo == hi:
			return SegInter{Kind: 1, Endpoint: true, P: lo, PX: R(lo.X), PY: R(lo.Y)}
		}
		return SegInter{Kind: 2, P: lo, Q: hi}
	}
	if o1*o2 > 0 || o3*o4 > 0 {
		return SegInter{Kind: 0}
	}
	ep := func(p P2) SegInter { return SegInter{Kind: 1, Endpoint: true, P: p, PX: R(p.X), PY: R(p.Y)} }
	switch {
	case o1 == 0:
		return ep(b1)
	case o2 == 0:
		return ep(b2)
	case o3 == 0:
		return ep(a1)
	case o4 == 0:
		return ep(a2)
	}
	// proper crossing: P = a1 + t (a2-a1), t = cross(b1-a1, b2-b1) / cross(a2-a1, b2-b1)
	dax, day := rsub(R(a2.X), R(a1.X)), rsub(R(a2.Y), R(a1.Y))
	dbx, dby := rsub(R(b2.X), R(b1.X)), rsub(R(b2.Y), R(b1.Y))
	ex, ey := rsub(R(b1.X), R(a1.X)), rsub(R(b1.Y), R(a1.Y))
	num := rsub(rmul(ex, dby), rmul(ey, dbx))
	den := rsub(rmul(dax, dby), rmul(day, dbx))
	t := new(big.Rat).Quo(num, den)
	return SegInter{Kind: 1, PX: radd(R(a1.X), rmul(t, dax)), PY: radd(R(a1.Y), rmul(t, day))}
}

// Hull returns the strict convex hull (extreme points only, counter-clockwise, no repeated
// closing point) of a point multiset, computed by a monotone chain in exact arithmetic.
// 1 distinct point -> that point; all collinear -> the two extreme points.
func Hull(pts []P2) []P2 {
	seen := map[P2]bool{}
	var u []P2
	for _, p := range pts {
		if !seen[p] {
			seen[p] = true
			u = append(u, p)
		}
	}
	// insertion sort by (x,y): inputs are small
	for i := 1; i < len(u); i++ {
		for j := i; j > 0 && lexLess(u[j], u[j-1]); j-- {
			u[j], u[j-1] = u[j-1], u[j]
		}
	}
	if len(u) <= 2 {
		return u
	}
	var lower, upper []P2
	for _, p := range u {
		for len(lower) >= 2 && Orient(lower[len(lower)-2], lower[len(lower)-1], p) <= 0 {
			lower = lower[:len(lower)-1]
		}
		lower = append(lower, p)
	}
	for i := len(u) - 1; i >= 0; i-- {
		p := u[i]
		for len(upper) >= 2 && Orient(upper[len(upper)-2], upper[len(upper)-1], p) <= 0 {
			upper = upper[:len(upper)-1]
		}
		upper = append(upper, p)
	}
	h := append(lower[:len(lower)-1], upper[:len(upper)-1]...)
	if len(h) < 3 {
		// all collinear: the chain degenerates to the two extreme points
		return []P2{u[0], u[len(u)-1]}
	}
	return h
}

// SimpleRing reports whether the closed ring (first == last) is a simple polygon: at least 3
// distinct vertices, no repeated vertex, adjacent edges meet only in their shared vertex and
// non-adjacent edges do not meet at all.
func SimpleRing(ring []P2) bool {
	n := len(ring) - 1
	if n < 3 || ring[0] != ring[n] {
		return false
	}
	for i := 0; i < n; i++ {
		for j := i + 1; j < n; j++ {
			if ring[i] == ring[j] {
				return false
			}
		}
	}
	for i := 0; i < n; i++ {
		for j := i + 1; j < n; j++ {
			r := SegSeg(ring[i], ring[i+1], ring[j], ring[j+1])
			adjacent := j == i+1 || (i == 0 && j == n-1)
			if adjacent {
				if r.Kind == 2 {
					return false
				}
				continue
			}
			if r.Kind != 0 {
				return false
			}
		}
	}
	return true
}

// RingMoments returns twice the signed area (ccw positive) and the first moments
// (6*A*cx, 6*A*cy) of a closed ring, exactly.
func RingMoments(ring []P2) (a2, mx, my *big.Rat) {
	a2, mx, my = new(big.Rat), new(big.Rat), new(big.Rat)
	for i := 1; i < len(ring); i++ {
		x0, y0, x1, y1 := R(ring[i-1].X), R(ring[i-1].Y), R(ring[i].X), R(ring[i].Y)
		cr := rsub(rmul(x0, y1), rmul(x1, y0))
		a2.Add(a2, cr)
		mx.Add(mx, rmul(radd(x0, x1), cr))
		my.Add(my, rmul(radd(y0, y1), cr))
	}
	return
}

func r3(p P3) [3]*big.Rat { return [3]*big.Rat{R(p.X), R(p.Y), R(p.Z)} }

func dot3(a, b [3]*big.Rat) *big.Rat {
	s := new(big.Rat)
	for i := 0; i < 3; i++ {
		s.Add(s, rmul(a[i], b[i]))
	}
	return s
}

func sub3(a, b [3]*big.Rat) [3]*big.Rat {
	return [3]*big.Rat{rsub(a[0], b[0]), rsub(a[1], b[1]), rsub(a[2], b[2])}
}

func clamp01(t *big.Rat) *big.Rat {
	if t.Sign() < 0 {
		return new(big.Rat)
	}
	if t.Cmp(big.NewRat(1, 1)) > 0 {
		return big.NewRat(1, 1)
	}
	return t
}

// PointSeg2 is the exact squared distance from p to the segment qr (3D; use Z=0 for 2D).
func PointSeg2(p, q, r P3) *big.Rat {
	P, Q, Rr := r3(p), r3(q), r3(r)
	d := sub3(Rr, Q)
	l2 := dot3(d, d)
	w := sub3(P, Q)
	if l2.Sign() == 0 {
		return dot3(w, w)
	}
	t := clamp01(new(big.Rat).Quo(dot3(w, d), l2))
	diff := [3]*big.Rat{rsub(w[0], rmul(t, d[0])), rsub(w[1], rmul(t, d[1])), rsub(w[2], rmul(t, d[2]))}
	return dot3(diff, diff)
}

// SegSeg2 is the exact squared distance between segments ab and cd in 3D: the interior
// critical point of the convex quadratic if it lies in the unit square, else the best of the
// four edges of the square (each a point-segment problem).
func SegSeg2(a, b, c, d P3) *big.Rat {
	best := PointSeg2(a, c, d)
	for _, v := range []*big.Rat{PointSeg2(b, c, d), PointSeg2(c, a, b), PointSeg2(d, a, b)} {
		if v.Cmp(best) < 0 {
			best = v
		}
	}
	A, B, C, D := r3(a), r3(b), r3(c), r3(d)
	u, v, w := sub3(B, A), sub3(D, C), sub3(A, C)
	aa, bb, cc, dd, ee := dot3(u, u), dot3(u, v), dot3(v, v), dot3(u, w), dot3(v, w)
	den := rsub(rmul(aa, cc), rmul(bb, bb))
	if den.Sign() != 0 {
		s := new(big.Rat).Quo(rsub(rmul(bb, ee), rmul(cc, dd)), den)
		t := new(big.Rat).Quo(rsub(rmul(aa, ee), rmul(bb, dd)), den)
		one := big.NewRat(1, 1)
		if s.Sign() >= 0 && s.Cmp(one) <= 0 && t.Sign() >= 0 && t.Cmp(one) <= 0 {
			diff := [3]*big.Rat{}
			for i := 0; i < 3; i++ {
				diff[i] = rsub(radd(w[i], rmul(s, u[i])), rmul(t, v[i]))
			}
			if q := dot3(diff, diff); q.Cmp(best) < 0 {
				best = q
			}
		}
	}
	return best
}
