package ref

import (
	"math"
	"math/big"
)

// R converts a finite float64 to an exact rational.
func R(x float64) *big.Rat {
	r := new(big.Rat)
	if r.SetFloat64(x) == nil {
		panic("ref.R: non-finite value")
	}
	return r
}

// P2 is a point with exact float64 ordinates.
type P2 struct{ X, Y float64 }

// P3 is a 3D point.
type P3 struct{ X, Y, Z float64 }

func rsub(a, b *big.Rat) *big.Rat { return new(big.Rat).Sub(a, b) }
func radd(a, b *big.Rat) *big.Rat { return new(big.Rat).Add(a, b) }
func rmul(a, b *big.Rat) *big.Rat { return new(big.Rat).Mul(a, b) }

// Cross returns (b-a) x (c-a) exactly.
func Cross(a, b, c P2) *big.Rat {
	ax, ay := R(a.X), R(a.Y)
	return rsub(rmul(rsub(R(b.X), ax), rsub(R(c.Y), ay)), rmul(rsub(R(b.Y), ay), rsub(R(c.X), ax)))
}

// Orient is the sign of Cross: +1 counter-clockwise, -1 clockwise, 0 collinear.
func Orient(a, b, c P2) int { return Cross(a, b, c).Sign() }

// Shoelace2 returns twice the signed shoelace area (counter-clockwise positive) of the
// polyline pts taken segment by segment: sum of x[i-1]*y[i] - x[i]*y[i-1]. For a closed
// ring this is twice the enclosed signed area.
func Shoelace2(pts []P2) *big.Rat {
	s := new(big.Rat)
	for i := 1; i < len(pts); i++ {
		s.Add(s, rsub(rmul(R(pts[i-1].X), R(pts[i].Y)), rmul(R(pts[i].X), R(pts[i-1].Y))))
	}
	return s
}

// Prec is the working precision for square roots.
const Prec = 256

// RatToFloat converts a rational to a big.Float at Prec bits.
func RatToFloat(r *big.Rat) *big.Float {
	return new(big.Float).SetPrec(Prec).SetRat(r)
}

// SqrtRat returns sqrt(r) at Prec bits (r >= 0).
func SqrtRat(r *big.Rat) *big.Float {
	if r.Sign() == 0 {
		return new(big.Float).SetPrec(Prec)
	}
	return new(big.Float).SetPrec(Prec).Sqrt(RatToFloat(r))
}

// Dist2 is the exact squared distance between two points.
func Dist2(a, b P2) *big.Rat {
	dx, dy := rsub(R(a.X), R(b.X)), rsub(R(a.Y), R(b.Y))
	return radd(rmul(dx, dx), rmul(dy, dy))
}

// PolylineLength is the length of a polyline at Prec bits.
func PolylineLength(pts []P2) *big.Float {
	s := new(big.Float).SetPrec(Prec)
	for i := 1; i < len(pts); i++ {
		s.Add(s, SqrtRat(Dist2(pts[i-1], pts[i])))
	}
	return s
}

// F64 converts a big.Float to the nearest float64.
func F64(f *big.Float) float64 {
	v, _ := f.Float64()
	return v
}

// RatF64 converts a rational to the nearest float64.
func RatF64(r *big.Rat) float64 {
	v, _ := r.Float64()
	return v
}

// AbsDiffLE reports |got - want| <= tol, with want a big.Float; all finite.
func AbsDiffLE(got float64, want *big.Float, tol float64) bool {
	if math.IsNaN(got) || math.IsInf(got, 0) {
		return false
	}
	d := new(big.Float).SetPrec(Prec).SetFloat64(got)
	d.Sub(d, want)
	d.Abs(d)
	return d.Cmp(new(big.Float).SetPrec(Prec).SetFloat64(tol)) <= 0
}

// XY extracts the XY part of a coordinate list.
func XY(cs []C) []P2 {
	out := make([]P2, len(cs))
	for i, c := range cs {
		out[i] = P2{float64(c[0]), float64(c[1])}
	}
	return out
}

// OnSegment reports whether p lies on the closed segment ab, exactly.
func OnSegment(p, a, b P2) bool {
	if Orient(a, b, p) != 0 {
		return false
	}
	minx, maxx := a.X, b.X
	if minx > maxx {
		minx, maxx = maxx, minx
	}
	miny, maxy := a.Y, b.Y
	if miny > maxy {
		miny, maxy = maxy, miny
	}
	return minx <= p.X && p.X <= maxx && miny <= p.Y && p.Y <= maxy
}

// Locate classifies p against the closed ring (first point == last point) by the even-odd
// rule in exact arithmetic: 1 = boundary (on a segment), 0 = interior, 2 = exterior.
// It shoots a VERTICAL ray upwards with its own half-open convention in x, independent of
// the horizontal-ray convention of the implementation.
func Locate(p P2, ring []P2) int {
	for i := 1; i < len(ring); i++ {
		if OnSegment(p, ring[i-1], ring[i]) {
			return 1
		}
	}
	crossings := 0
	for i := 1; i < len(ring); i++ {
		a, b := ring[i-1], ring[i]
		if a.X == b.X {
			continue // vertical edges never cross a vertical ray transversally
		}
		if a.X > b.X {
			a, b = b, a
		}
		// half-open in x: a.X <= p.X < b.X
		if !(a.X <= p.X && p.X < b.X) {
			continue
		}
		// the edge passes above p iff p is to the right of a->b (clockwise), a being the left end
		if Orient(a, b, p) < 0 {
			crossings++
		}
	}
	if crossings%2 == 1 {
		return 0
	}
	return 2
}

// SegInter is the exact intersection of two non-degenerate segments.
type SegInter struct {
	Kind int // 0 none, 1 single point, 2 collinear overlap of positive length
	// Endpoint: for Kind 1, true when the point is an endpoint of one of the segments (then P is that endpoint, exact).
	Endpoint bool
	P, Q     P2       // Kind 1: P (if Endpoint); Kind 2: overlap endpoints P<Q lexicographically
	PX, PY   *big.Rat // Kind 1: exact point
}

func lexLess(a, b P2) bool { return a.X < b.X || (a.X == b.X && a.Y < b.Y) }

// SegSeg classifies and locates the intersection of segments a1a2 and b1b2 exactly.
func SegSeg(a1, a2, b1, b2 P2) SegInter {
	o1, o2 := Orient(a1, a2, b1), Orient(a1, a2, b2)
	o3, o4 := Orient(b1, b2, a1), Orient(b1, b2, a2)
	if o1 == 0 && o2 == 0 && o3 == 0 && o4 == 0 {
		loA, hiA := a1, a2
		if lexLess(hiA, loA) {
			loA, hiA = hiA, loA
		}
		loB, hiB := b1, b2
		if lexLess(hiB, loB) {
			loB, hiB = hiB, loB
		}
		lo, hi := loA, hiA
		if lexLess(lo, loB) {
			lo = loB
		}
		if lexLess(hiB, hi) {
			hi = hiB
		}
		switch {
		case lexLess(hi, lo):
			return SegInter{Kind: 0}
		case lo == hi:
			return SegInter{Kind: 1, Endpoint: true, P: lo, PX: R(lo.X), PY: R(lo.Y)}
		}
		return SegInter{Kind: 2, P: lo, Q: hi}
	}
	if o1*o2 > 0 || o3*o4 > 0 {
		return SegInter{Kind: 0}
	}
	ep := func(p P2) SegInter { return SegInter{Kind: 1, Endpoint: true, P: p, PX: R(p.X), PY: R(p.Y)} }
	switch {
	case o1 == 0:
		return ep(b1)
	case o2 == 0:
		return ep(b2)
	case o3 == 0:
		return ep(a1)
	case o4 == 0:
		return ep(a2)
	}
	// proper crossing: P = a1 + t (a2-a1), t = cross(b1-a1, b2-b1) / cross(a2-a1, b2-b1)
	dax, day := rsub(R(a2.X), R(a1.X)), rsub(R(a2.Y), R(a1.Y))
	dbx, dby := rsub(R(b2.X), R(b1.X)), rsub(R(b2.Y), R(b1.Y))
	ex, ey := rsub(R(b1.X), R(a1.X)), rsub(R(b1.Y), R(a1.Y))
	num := rsub(rmul(ex, dby), rmul(ey, dbx))
	den := rsub(rmul(dax, dby), rmul(day, dbx))
	t := new(big.Rat).Quo(num, den)
	return SegInter{Kind: 1, PX: radd(R(a1.X), rmul(t, dax)), PY: radd(R(a1.Y), rmul(t, day))}
}
