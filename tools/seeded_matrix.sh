#!/bin/bash
# Re-runs seeded changes under /verif/seeded against the checks and rewrites meta.json and
# seeded/RESULTS.md. Each change is evaluated on a scratch worktree + scratch copy of /verif
# (tools/scratch_eval.sh), several at a time; /repo is never touched.
#   usage: tools/seeded_matrix.sh [-t tier] [-j jobs] [ids...]
set -u
cd /verif
TIER=quick; JOBS=4
while getopts "t:j:" o; do case $o in t) TIER=$OPTARG;; j) JOBS=$OPTARG;; esac; done
shift $((OPTIND-1))
ids=${*:-$(ls seeded | grep -v RESULTS)}
one() {
	id=$1; tier=$2
	d=/verif/seeded/$id
	[ -s $d/patch.diff ] || exit 0
	prop=${id%%_*}
	extra=$(cat $d/also_run 2>/dev/null)
	out=$(/verif/tools/scratch_eval.sh $d/patch.diff $tier $prop $extra 2>&1)
	echo "$out" | sed "s/^/$id  /"
	python3 - "$d" "$prop" "$tier" "$out" <<'PY'
import json,sys,os,re
d,prop,tier,out=sys.argv[1:5]
p=os.path.join(d,'meta.json')
meta={}
if os.path.exists(p):
    try: meta=json.loads(open(p).read().replace('\t',' '))
    except Exception: meta={}
notes=open(os.path.join(d,'agent_notes.txt')).read() if os.path.exists(os.path.join(d,'agent_notes.txt')) else ''
low=notes.lower(); needs=''
for key in ('what it needs','needs to manifest','needs in order'):
    i=low.find(key)
    if i>=0: needs=' '.join(notes[i:i+700].split()); break
checks={k:v for k,v in (meta.get('checks') or {}).items() if isinstance(v,dict)}
for line in out.splitlines():
    m=re.match(r'(C\d\d) (\w+) exit=(\d+) violations=(\d+) known=(\d+) seconds=(\d+) first=(.*)',line)
    if m: checks[f'{m[1]} {m[2]}']={'exit':int(m[3]),'violation_lines':int(m[4]),'seconds':int(m[6]),'first':m[7]}
meta.update({'property':prop,'id':os.path.basename(d),
 'needs_to_manifest':meta.get('needs_to_manifest') or needs,
 'confirmed_by_me':'demo passes on the clean tree and fails with the patch; the repository suite passes with the patch (confirmed in a scratch worktree before the change was kept)',
 'checks':checks})
json.dump(meta,open(p,'w'),indent=1)
PY
}
export -f one
printf '%s\n' $ids | xargs -P $JOBS -I{} bash -c "one {} $TIER"
python3 - <<'PY'
import json,glob,os
rows=[]
for p in sorted(glob.glob('/verif/seeded/*/meta.json')):
    m=json.load(open(p))
    diff=open(os.path.join(os.path.dirname(p),'patch.diff')).read()
    files=sorted({l[6:] for l in diff.splitlines() if l.startswith('+++ b/')})
    det=[]
    for k,v in sorted(m.get('checks',{}).items()):
        if isinstance(v,dict): det.append(f"{k}: {'CAUGHT' if v['exit']==1 else ('missed' if v['exit']==0 else 'error')} ({v['violation_lines']} keys, {v['seconds']} s)")
    rows.append((m.get('id',os.path.basename(os.path.dirname(p))),', '.join(files),'; '.join(det),m.get('needs_to_manifest','')[:300]))
with open('/verif/seeded/RESULTS.md','w') as f:
    f.write('# Seeded property-breaking changes and which checks catch them\n\n')
    f.write('Each change was written by an independent sub-agent that saw only the property text and a scratch worktree; it compiles, passes the repository suite, and its demonstration fails with it and passes without (confirmed in a scratch worktree). Regenerate with tools/seeded_matrix.sh.\n\n')
    f.write('| id | files | result | needs |\n|---|---|---|---|\n')
    for r in rows: f.write('| '+' | '.join(x.replace('|','/').replace('\n',' ') for x in r)+' |\n')
caught=sum(1 for r in rows if 'CAUGHT' in r[2]); print(f"{caught}/{len(rows)} caught by at least one check")
for r in rows:
    if 'CAUGHT' not in r[2]: print('MISSED',r[0],r[2])
PY
