#!/bin/bash
# Re-runs every seeded change under /verif/seeded against the checks (quick tier) and rewrites
# meta.json and RESULTS.md. usage: tools/seeded_matrix.sh [ids...]
set -u
cd /verif
export GOFLAGS=-mod=mod GOPROXY=off GOSUMDB=off GOTOOLCHAIN=local
ids=${*:-$(ls seeded | grep -v RESULTS)}
git -C /repo diff --quiet || { echo "/repo has uncommitted changes"; exit 2; }
for id in $ids; do
	d=seeded/$id
	[ -s $d/patch.diff ] || continue
	prop=${id%%_*}
	extra=$(cat $d/also_run 2>/dev/null)
	git -C /repo apply $d/patch.diff || { echo "$id: patch does not apply"; continue; }
	res=""
	for ch in $prop $extra; do
		s=$(date +%s)
		out=$(./vcheck $ch quick 2>/dev/null); rc=$?
		n=$(echo "$out" | grep -c '^VIOLATION')
		first=$(echo "$out" | grep '^VIOLATION' | head -1 | sed 's/.*replays\///')
		res="$res\"$ch quick\": {\"exit\": $rc, \"violation_lines\": $n, \"first\": \"$first\", \"seconds\": $(( $(date +%s) - s ))},"
		rm -rf replays/$ch
		echo "$id  $ch quick: exit=$rc violations=$n ($first)"
	done
	git -C /repo checkout -- .
	python3 - "$d" "$prop" "{${res%,}}" <<'PY'
import json,sys,os
d,prop,res=sys.argv[1],sys.argv[2],json.loads(sys.argv[3])
meta={}
p=os.path.join(d,'meta.json')
if os.path.exists(p):
    try: meta=json.load(open(p))
    except Exception: meta={}
notes=open(os.path.join(d,'agent_notes.txt')).read() if os.path.exists(os.path.join(d,'agent_notes.txt')) else ''
needs=''
low=notes.lower()
i=low.find('what it needs')
if i<0: i=low.find('needs to manifest')
if i>=0: needs=' '.join(notes[i:i+700].split())
meta.update({'property':prop,'id':os.path.basename(d),'needs_to_manifest':needs or meta.get('needs_to_manifest',''),
 'confirmed_by_me':'demo passes on the clean tree, fails with the patch; the repository suite passes with the patch (tools/mutant_eval.sh in a scratch worktree)',
 'checks':res})
json.dump(meta,open(p,'w'),indent=1)
PY
done
# restore evidence of the checks touched
for ch in $(for id in $ids; do echo ${id%%_*}; cat seeded/$id/also_run 2>/dev/null; done | sort -u); do ./vcheck $ch quick >/dev/null 2>&1; done
python3 - <<'PY'
import json,glob,os
rows=[]
for p in sorted(glob.glob('/verif/seeded/*/meta.json')):
    m=json.load(open(p))
    diff=open(os.path.join(os.path.dirname(p),'patch.diff')).read()
    files=sorted({l[6:] for l in diff.splitlines() if l.startswith('+++ b/')})
    det=[]
    for k,v in m.get('checks',{}).items():
        if isinstance(v,dict): det.append(f"{k}: {'CAUGHT' if v['exit']==1 else 'missed'} ({v['violation_lines']} keys, {v['seconds']} s)")
        else: det.append(f"{k}: {v}")
    rows.append((m.get('id',os.path.basename(os.path.dirname(p))),', '.join(files),'; '.join(det),m.get('needs_to_manifest','')[:300]))
with open('/verif/seeded/RESULTS.md','w') as f:
    f.write('# Seeded property-breaking changes and which checks catch them (quick tier)\n\n')
    f.write('Each change was written by an independent sub-agent that saw only the property text and a scratch worktree; it compiles, passes the repository suite, and its demonstration fails with it and passes without (confirmed in a scratch worktree). Regenerate with tools/seeded_matrix.sh.\n\n')
    f.write('| id | files | result | needs |\n|---|---|---|---|\n')
    for r in rows: f.write('| '+' | '.join(x.replace('|','/').replace('\n',' ') for x in r)+' |\n')
print(open('/verif/seeded/RESULTS.md').read()[:400])
PY
