#!/bin/bash
# Reports the statements of the library that the C17 registry x inputs never execute
# (coverage of github.com/twpayne/go-geom/... by pure.TestRegistryCoverage). Analysis aid only:
# works on a scratch worktree (the cover tool cannot read overlay files, so the generated dump
# files are written into the scratch copy). usage: tools/c17cover.sh [filter-command]
set -e
export GOFLAGS=-mod=mod GOPROXY=off GOSUMDB=off GOTOOLCHAIN=local
S=/tmp/sx/cov$$
mkdir -p $S
trap 'git -C /repo worktree remove --force $S/repo >/dev/null 2>&1; rm -rf $S; git -C /repo worktree prune' EXIT
git -C /repo worktree add -q --detach $S/repo HEAD
rsync -a --exclude .git --exclude .build --exclude evidence --exclude replays --exclude seeded /verif/ $S/verif/
sed -i "s#=> /repo#=> $S/repo#" $S/verif/go.mod
cd $S/verif
mkdir -p .build
go build -o .build/instr ./tools/instr
.build/instr -repo $S/repo -out $S/gen -overlay $S/ov.json -mode dump -report $S/scan.json
python3 - $S/ov.json <<'PY'
import json,sys,shutil
for dst,src in json.load(open(sys.argv[1]))["Replace"].items(): shutil.copy(src,dst)
PY
go test -tags verif -vet=off -count=1 -coverpkg=github.com/twpayne/go-geom/... -coverprofile=$S/c17.cov -run TestRegistryCoverage ./pure/ | tail -2
grep -v "_test.go\|zz_verif\|wkt.gen.go\|derived.gen.go" $S/c17.cov | awk 'NR>1 && $3==0 {print $1}' | sed "s#github.com/twpayne/go-geom/##" | sort -t: -k1,1 -k2,2n > /tmp/c17_uncovered.txt
wc -l /tmp/c17_uncovered.txt
