#!/bin/bash
# Generates the build overlay (add-only files, guarded by the build tag "verif") from the
# current /repo sources: one VerifDumpGlobals() per library package. usage: mkoverlay.sh <overlay.json> [dump|sched]
set -e
H="${VERIF_HOME:-/verif}"
cd "$H"
export GOFLAGS=-mod=mod GOPROXY=off GOSUMDB=off GOTOOLCHAIN=local
MODE=${2:-dump}
mkdir -p .build
if [ ! -x .build/instr ] || [ tools/instr/main.go -nt .build/instr ]; then
	go build -o .build/instr.$$ ./tools/instr && mv -f .build/instr.$$ .build/instr
fi
OUT=.build/ov_$MODE.$$
rm -rf "$OUT"; mkdir -p "$OUT"
.build/instr -repo "${VERIF_REPO:-/repo}" -out "$H/$OUT" -overlay "$1" -mode "$MODE" -report ".build/scan_$MODE.json"
# keep only the newest generated directory per mode
ls -d .build/ov_$MODE.* 2>/dev/null | grep -v "$OUT" | while read d; do
	# a concurrent build may still be using an older directory: remove those older than 10 minutes
	if [ -n "$(find "$d" -maxdepth 0 -mmin +10 2>/dev/null)" ]; then rm -rf "$d"; fi
done
