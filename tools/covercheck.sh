#!/bin/bash
# Coverage aid (analysis only, never part of a verdict): runs one check's tier with the library
# compiled for coverage and lists the blocks of the property's anchor files that the exploration
# never executes. Works on a scratch worktree + scratch copy of /verif.
#   usage: tools/covercheck.sh <ID> [tier]      output: /tmp/cover_<ID>.txt
set -e
export GOFLAGS=-mod=mod GOPROXY=off GOSUMDB=off GOTOOLCHAIN=local
ID=$1; TIER=${2:-quick}
S=/tmp/sx/cc$$
mkdir -p $S/cov
trap '[ -n "${KEEP_SCRATCH:-}" ] || { git -C /repo worktree remove --force $S/repo >/dev/null 2>&1; rm -rf $S; git -C /repo worktree prune; }' EXIT
git -C /repo worktree add -q --detach $S/repo HEAD
rsync -a --exclude .git --exclude .build --exclude evidence --exclude replays --exclude seeded /verif/ $S/verif/
sed -i "s#=> /repo#=> $S/repo#" $S/verif/go.mod
cd $S/verif
mkdir -p .build evidence
go build -o .build/instr ./tools/instr
.build/instr -repo $S/repo -out $S/gen -overlay $S/ov.json -mode dump -report $S/scan.json
python3 - $S/ov.json <<'PY'
import json,sys,shutil
for dst,src in json.load(open(sys.argv[1]))["Replace"].items(): shutil.copy(src,dst)
PY
export VERIF_HOME=$S/verif VERIF_REPO=$S/repo COVER_ID=$ID COVER_TIER=$TIER
go test -tags verif -vet=off -count=1 -timeout 60m -coverpkg=github.com/twpayne/go-geom/... -coverprofile=$S/cov.txt -run TestCoverRun -v ./checks/ 2>&1 | grep -v "^=== \|^--- \|^PASS\|^coverage" | tail -3
FILES=$(python3 - $ID <<'PY'
import json,sys
for l in open('/verif/properties.jsonl'):
    p=json.loads(l)
    if p['id']==sys.argv[1]: print('|'.join(f.replace('.','\\.') for f in p['anchors']['files']))
PY
)
grep -v "_test.go\|zz_verif\|wkt.gen.go\|derived.gen.go" $S/cov.txt | awk 'NR>1 && $3==0 {print $1}' | sed "s#github.com/twpayne/go-geom/##" | grep -E "^($FILES):" | sort -t: -k1,1 -k2,2n > /tmp/cover_$ID.txt
echo "$ID: $(wc -l < /tmp/cover_$ID.txt) uncovered blocks in anchor files -> /tmp/cover_$ID.txt"
