#!/usr/bin/env python3
"""Prints the compact seeded-change table of DESIGN.md section 10 from seeded/*/meta.json."""
import json, glob, os
rows = []
for p in sorted(glob.glob('/verif/seeded/*/meta.json')):
    m = json.load(open(p)); d = os.path.dirname(p)
    diff = open(d + '/patch.diff').read()
    files = sorted({os.path.basename(l[6:]) for l in diff.splitlines() if l.startswith('+++ b/')})
    own = m['property']
    caught = [k.split()[0] for k, v in sorted(m['checks'].items()) if v.get('exit') == 1]
    missed = [k.split()[0] for k, v in sorted(m['checks'].items()) if v.get('exit') == 0]
    rows.append((m['id'], ','.join(files), ' '.join(caught), ' '.join(missed)))
print('| id | file(s) | caught by (quick) | also run, silent |')
print('|---|---|---|---|')
for r in rows:
    print('| ' + ' | '.join(r) + ' |')
print()
print(f"{len(rows)} seeded changes; {sum(1 for r in rows if r[2])} caught by at least one quick check; "
      f"{sum(1 for r in rows if r[0][:3] in r[2].split())} caught by the check of the property they were written against.")
