#!/bin/bash
# usage: tools/benign_eval.sh <PROP>_<TAG> [extra checks...]
# Evaluates a property-PRESERVING change delivered by a sub-agent (/tmp/wt/outB/<id>.patch.diff): the
# repository suite must pass with it, and the property's quick check (plus any extra checks) must
# stay silent. Any VIOLATION printed here is either a false alarm of the check or a change that
# does break the property - to be classified by hand. Scratch copies only; /repo is not touched.
set -u
export GOFLAGS=-mod=mod GOPROXY=off GOSUMDB=off GOTOOLCHAIN=local
ID=$1; shift
P=${ID%%_*}
PATCH=${BENIGN_DIR:-/tmp/wt/outB}/$ID.patch.diff
[ -s "$PATCH" ] || { echo "$ID no patch"; exit 2; }
W=/tmp/wt/beval_${ID}_$$
git -C /repo worktree add -q --detach "$W" HEAD || exit 2
trap 'git -C /repo worktree remove --force "$W" >/dev/null 2>&1; git -C /repo worktree prune' EXIT
git -C "$W" apply "$PATCH" || { echo "$ID patch does not apply"; exit 3; }
suite=$(cd "$W" && go test -vet=off -count=1 ./... 2>&1 | grep -v "no test files" | grep -v "^ok" | head -5)
[ -z "$suite" ] || { echo "$ID SUITE FAILS: $suite"; exit 3; }
KEEP_OUT=/tmp/wt/beval_$ID.out /verif/tools/scratch_eval.sh "$PATCH" quick $P "$@" 2>&1 | grep -v conda | sed "s/^/$ID  /"
grep -a "^VIOLATION\|HARNESS\|BUILD FAILED" /tmp/wt/beval_$ID.out 2>/dev/null | cut -c1-220 | head -8 | sed "s/^/$ID      /"
