#!/usr/bin/env python3
"""Regenerates /verif/MANIFEST.json from the table below (kept next to the checks)."""
import json, sys

ALL = ["C%02d" % i for i in range(1, 21)]

# id -> (category, technique, text, note, design_ref)
CHECKS = {
 "C01": ("exploration",
         "bounded exhaustive enumeration of the shape universe against an algebraic reference model",
         "Every shape of a finite universe (7 types x 6 layouts + NoLayout empties, <=3 parts of size 0..2, <=3 polygons of <=2 rings), built three ways (SetCoords, New*Flat, Push) and cloned, with a 9-value special-float sweep at every ordinate position and every single-coordinate length mismatch, is executed on the real constructors and compared bit for bit with the model; complete for the stated bounds, not sampled.",
         "Bounded: parts <=3, sizes <=2, one special float per geometry. Trusted: ref.WellFormed/Observe (public accessors only), Go runtime.",
         "DESIGN.md section 2, C01"),
 "C02": ("model_checking",
         "explicit-state BFS over operation histories on the real objects (successor = fresh object + replay + one op) against a list-of-parts model",
         "All operation histories up to depth 5 (quick) / 6 (thorough) over Push(part menu incl. empty parts and the receiver's own part accessors), Push(wrong layout), Reverse, Swap, Clone (and variadic Push / SetLayout for collections) are executed on real Polygon, MultiPoint, MultiLineString, MultiPolygon and GeometryCollection values; every reached state is compared with the reference list model (count, each part accessor, whole Coords, well-formedness, failed Push leaves the state unchanged). States are deduplicated on the complete observable state, so the reported states/transitions are the explored graph.",
         "Bounded: depth <=6, parts of <=3 coordinates, 3-5 layouts. State merging assumes operations depend only on observable state (argued in DESIGN.md 1.2).",
         "DESIGN.md section 2, C02"),
 "C09": ("exploration",
         "bounded exhaustive enumeration of grid geometries against rational-arithmetic measures",
         "Every closed ring of 3-4 free vertices on a small integer grid, every polyline of <=3 grid points, and every sequence of <=3 rings/polygons/lines over menus that include empty rings, empty polygons and degenerate rings, in 6 layouts and exact power-of-two scalings, has Area and Length computed by the real methods and compared with exact rational shoelace sums and 256-bit square-root sums under a forward error bound; additivity is checked against the part accessors and panics are violations.",
         "Bounded: <=3 parts, grid 4x4, scalings 2^-100..2^200. Area compared on closed rings only. Trusted: math/big.",
         "DESIGN.md section 2, C09"),
 "C10": ("exploration",
         "bounded exhaustive enumeration of point triples (integer grids, scalings, ulp-perturbation lattices) against the exact rational determinant",
         "Every ordered triple of a 5x5/7x7 integer grid (also scaled by 2^+-330, translated by 2^40), every triple over a 27-bit coordinate set, and every perturbation by up to +-2/+-3 ulps of the six ordinates of 24 exactly collinear base triples is classified by bigxy.OrientationIndex and xy.OrientationIndex and compared with the sign of the exact rational cross product; antisymmetry and cyclic invariance are asserted on each.",
         "Bounded: grids and lattices as listed, magnitudes within [1e-100,1e100]. Trusted: math/big.",
         "DESIGN.md section 2, C10"),
 "C11": ("exploration",
         "bounded exhaustive enumeration of rings x query points against the exact even-odd rule (independent vertical-ray evaluation)",
         "Every closed ring of 3 and 4 vertices on a 4x4 grid and 5 vertices on a 3x3 grid (thorough: 5 on 4x4), in every direction and start vertex, incl. self-intersecting and degenerate rings, is queried at every point of the doubled grid; LocatePointInRing/IsPointInRing must equal the exact even-odd classification (boundary iff on a segment). IsOnLine/PointIntersectsLine are compared with the exact on-segment predicate for all segments and 3-vertex polylines x points of the 5x5 grid and +-1 ulp perturbations of on-segment configurations.",
         "Bounded: grids as listed (ordinates up to 2^26). Trusted: math/big, ref.Locate.",
         "DESIGN.md section 2, C11"),
 "C12": ("exploration",
         "bounded exhaustive enumeration of segment pairs against exact rational intersection",
         "Every ordered pair of non-degenerate directed segments on a 5x5/6x6 integer grid (and a scaled+translated copy) is intersected by the robust strategy and compared with the exact rational result: classification none/point/overlap, endpoint intersections bit-identical, proper crossings within 8 ulps, overlap endpoints exact; the non-robust strategy must agree on HasIntersection. +-1 ulp perturbations of T-junction / touching / collinear configurations are checked for classification.",
         "Bounded: grids as listed. Trusted: math/big, ref.SegSeg.",
         "DESIGN.md section 2, C12"),
 "C13": ("exploration",
         "bounded exhaustive enumeration of point sequences (incl. the >50-point path by padding) against an exact monotone-chain hull",
         "Every sequence of up to 5/6 points on a 3x3 grid (order matters to the scan), every set of <=6 points on a 4x4 grid (thorough), each also padded to 51/52/60 points three ways, and a 64-point block with every pair of outliers from a surrounding half-integer ring, in four layouts with unique extra-ordinate tags, through ConvexHull and ConvexHullFlat; compared with the strict convex hull computed in rational arithmetic: result kind, exact vertex set, each vertex bit-equal to an input coordinate, closed ring of one fixed orientation without collinear vertices, input unmodified incl. spare capacity.",
         "Bounded: grids and sizes as listed. Trusted: math/big, ref.Hull.",
         "DESIGN.md section 2, C13"),
 "C14": ("exploration",
         "bounded exhaustive enumeration of point sets, polylines, simple rings and valid polygons against exact rational centroids and areas",
         "Point sets, polylines and pairs of polylines on a 4x4 grid; every simple ring of 3..4/5 vertices on the 4x4 grid in both directions and from every start vertex; rectangles and lattice triangles with 0..1/2 holes strictly inside, in every ring-direction combination, and pairs of disjoint polygons; zero-area polygons; three offsets and four layouts. Centroids are compared with the rational mean / length-weighted / area-weighted centroid within a forward error bound, IsRingCounterClockwise with the sign of the exact area, SignedArea with the exact area.",
         "Bounded: grids as listed; valid polygons only. Trusted: math/big.",
         "DESIGN.md section 2, C14"),
 "C15": ("exploration",
         "bounded exhaustive enumeration of points/segments on 2D and 3D integer grids against exact rational squared distances",
         "Every point x segment and every pair of segments (degenerate ones included) on the 4x4 grid, scaled and translated copies, point-to-linestring for all polylines of <=3 vertices, perpendicular distances; in 3D every pair of segments and every point x segment with endpoints in {0,1}x{0,1,2}^2 / {0,1,2}^3 plus scaled copies and NaN-Z cases. Results must be within 1e-9 x scale of the square root of the exact squared distance (3D by exact minimisation over the clamped parameter square), never NaN, and identical under argument swaps and reversals.",
         "Bounded: grids as listed. Trusted: math/big.",
         "DESIGN.md section 2, C15"),
 "C20": ("exploration",
         "bounded exhaustive enumeration of coordinate sequences x thresholds against exact rational point-segment distances",
         "Every sequence of up to 5/6 points on a 3x3 grid, 4/5 on a 4x4 grid and 9/11 over a 3-point alphabet, plus long straight and zig-zag runs with each single point displaced, for 8 thresholds and strides 2..5 with NaN extra ordinates: indexes strictly increasing incl. first and last, every omitted point exactly within the threshold of the segment between its nearest retained neighbours (exactly on it for threshold 0), and a second pass removes nothing.",
         "Bounded: lengths and grids as listed. Trusted: math/big.",
         "DESIGN.md section 2, C20"),
 "C03": ("fault_enumeration",
         "exhaustive enumeration of reader-split and writer-fault schedules (deviation-bounded choice-sequence DFS on the real codec) plus exhaustive input corpus against an independent reference encoder",
         "Every corpus geometry (shape universe in 4 layouts + collections) in WKB, WKB-NaN and EWKB, both byte orders, six SRIDs and a special-float sweep is marshalled and compared byte for byte with an independent encoder, decoded and compared with the model (carve-outs computed), through Marshal/Unmarshal, Read/Write, hex and all SQL wrappers (incl. wrong-type and non-[]byte errors). Read is then driven over a fault-injecting reader on enc(g1)||enc(g2): every answer sequence with <=1 (quick) / <=2 (thorough) non-default answers and every chunk composition of encodings <=22 bytes; Write over a fault-injecting writer with a fault at every Write call. Each schedule must yield g1, g2, error and exact stream positions / a prefix of the reference bytes and the injected error.",
         "Bounded: corpus shapes, <=2 reader deviations, 1 writer fault. Children SRID 0; (0,nil) reads excluded. Element limits set to 65536 during the stream phases (corpus counts <=3).",
         "DESIGN.md section 2, C03"),
 "C04": ("model_checking",
         "deviation-bounded DFS over the decision points of a reference WKB/EWKB reader model; every model trace (byte string + verdict) replayed against the real decoders (conformance), with allocation measured around forged counts",
         "A Go reference model of the WKB/EWKB reader generates, by exhaustive choice-sequence search with <=3/<=4 non-default field choices and <=14 fields, every byte string of its alphabet together with the verdict OK(geometry) / TooLarge{level,n,limit} / Error, for three decoder modes and 8/27 limit configurations; each string is decoded by Unmarshal, hex Decode and Scan and must conform (equal geometry, well-formed, canonical re-encode; exact ErrGeometryTooLarge fields; some error). Forged counts are tried in ascending magnitude with the heap-allocation delta bounded. A role-blind sweep (all prefixes, byte and 4-byte-word substitutions of every corpus encoding) checks totality/well-formedness/canonical re-encode, and a nesting-depth family runs in a sacrificial subprocess.",
         "Bounded: <=4 deviations, <=14 fields, alphabets as listed; noise inside coordinate blocks not explored. Known finding: unbounded recursion depth (stack overflow) on deeply nested collections.",
         "DESIGN.md section 2, C04"),
 "C05": ("exploration",
         "bounded exhaustive enumeration of WKT-expressible geometries x all spelling variants against an independent reference reader/writer",
         "Every geometry of a WKT-expressible corpus (all shapes up to 3 parts per type in four layouts, EMPTY members at every position, collections nested to depth 3, fixed-layout empty collections) plus a float lattice of formatting boundary values is (a) marshalled by the library and parsed back by the library and by an independent recursive-descent WKT reader, both compared bit for bit with the model, and (b) written by an independent writer in every one of 144 combinations of spelling variants and parsed by the library.",
         "Bounded: <=3 parts, nesting <=3, lattice of ~10^4 floats. Trusted: ref/wkt.go (cross-checked against the library on the whole corpus).",
         "DESIGN.md section 2, C05"),
 "C06": ("model_checking",
         "stateless exhaustive tree search over token sequences (three alphabets, depth-bounded) with sound LALR(1) prefix pruning on the real parser, differential against an independent reference reader",
         "All token sequences over three alphabets are explored to depth 9/11/16 (quick) and 10/13/19 (thorough): every explored sequence is parsed by wkt.Unmarshal and must not panic (the parser's 14 internal assertions are therefore unreachable within the bound), an error must render with a position inside the input, an accepted geometry must be well formed, of one layout, with lines >=2 and closed rings >=4 points and must survive re-encoding; accept/reject and the geometry must agree with the reference reader. Prefixes are pruned only when the parse failed strictly before the last token. Also all single-token mutations of valid corpus texts and all short byte strings over a 20-byte alphabet.",
         "Bounded by depth per alphabet; byte strings <=5 bytes. Error positions taken from the rendered SyntaxError message.",
         "DESIGN.md section 2, C06"),
 "C07": ("exploration",
         "bounded exhaustive enumeration of geometries/features and grammar-directed enumeration of JSON documents against an independent RFC 7946 reader",
         "Every geometry of the shape universe in six layouts, collections with mixed layouts and nesting, and a float lattice is marshalled, read by an independent RFC 7946 reader (same type, nesting, numbers) and decoded back through Unmarshal and Encode/Decode, with the format carve-outs computed from the model (layout from the first position, empties come back XY, arity mismatch must error). Features and FeatureCollections are round-tripped over every combination of id, bbox, properties and geometry (incl. null). Totality is checked on a complete grammar-directed menu of documents (type x coordinates x geometries; Feature and FeatureCollection member menus) plus every prefix and single-byte deletion of valid documents, decoded as geometry, Feature and FeatureCollection.",
         "Bounded: universe shapes, menus as listed; arbitrary byte noise beyond single deletions not explored. DefaultLayout left at XY.",
         "DESIGN.md section 2, C07"),
 "C08": ("model_checking",
         "explicit-state BFS over Extend histories on real Bounds values plus exhaustive enumeration of geometries and box pairs against a per-dimension reference fold",
         "Bounds() of every geometry of the shape universe and of every collection of <=3 members (mixed layouts, empty members, nested collections) is compared per semantic dimension (X,Y,Z,M located via ZIndex/MIndex) with a reference fold, together with IsEmpty, Bounds.Polygon and the GeoJSON bbox; all Extend histories up to depth 4/5 from five start layouts over a 12-geometry alphabet are executed on real Bounds values, each reached state compared with the fold over its multiset and with every other order reaching that multiset; Overlaps/OverlapsPoint are compared with closed-interval arithmetic on all pairs of small boxes incl. empty ones.",
         "Bounded: depth <=5, layouts XY/XYZ/XYM/XYZM in mixes, no NaN. IsEmpty is only demanded for 'no coordinates' and 'data in every dimension'.",
         "DESIGN.md section 2, C08"),
 "C16": ("model_checking",
         "exhaustive enumeration of mutation histories (depth-bounded) on clone/original pairs of real geometries with full storage-state comparison",
         "For every geometry of the shape universe (three constructions incl. spare capacity and empty-non-nil slices), Coord and Bounds: the clone equals the original (type, layout, SRID, structure, bits), and after every step of every mutation history up to depth 2/3 over 7 mutators x {original, clone} the complete storage state (incl. spare-capacity contents) of the side not operated on is unchanged.",
         "Bounded: depth <=3, universe shapes. nil-vs-empty identity of clone slices not demanded.",
         "DESIGN.md section 2, C16"),
 "C18": ("exploration",
         "bounded exhaustive enumeration of boundary floats x digit limits x geometry kinds with exact decimal/rational error checking",
         "For d in 0..15, a lattice of few-bit floats over 141 binary exponents, every decimal tie (m+1/2)*10^-d with its +-2 ulp neighbours, powers of ten and extreme values are encoded with the WKT and GeoJSON max-decimal-digits options (GeoJSON with and without bbox in both option orders) in one valid geometry per kind and layout; every emitted number must have the restricted form, no trailing zero, and differ from the exact ordinate (or exact bbox extreme) by at most half a unit in the d-th place, and the output must parse to the same type, structure and ordinate count.",
         "Bounded: lattice as listed. Trusted: math/big, encoding/json.",
         "DESIGN.md section 2, C18"),
}

def main():
    checks = []
    for pid in ALL:
        if pid not in CHECKS:
            continue
        cat, tech, text, note, ref = CHECKS[pid]
        checks.append({
            "property_id": pid,
            "quick_cmd": "./vcheck %s quick" % pid,
            "thorough_cmd": "./vcheck %s thorough" % pid,
            "evidence_file": "/verif/evidence/%s.json" % pid,
            "replay_cmd_template": "./vcheck --replay {path}",
            "engine": "vc",
            "level_claimed": {"category": cat, "text": text, "design_ref": ref},
            "level_note": note,
            "technique": tech,
        })
    na = [{"property_id": p, "reason": "check not built yet in this session (planned, see DESIGN.md section 2); not claimed until it runs"}
          for p in ALL if p not in CHECKS]
    m = {
        "version": 1,
        "setup_cmd": "./vcheck --setup",
        "hooks": {
            "guard": "verif",
            "enable": "go build -tags verif -overlay <generated overlay.json> (export files are added to packages by the overlay; /repo itself carries no hook code)",
            "baseline_off_cmd": "cd /repo && go test -mod=mod -vet=off -count=1 ./...",
            "source_commits": [],
            "add_only": True,
        },
        "engines": [{
            "name": "vc", "path": "/verif/cmd/vc",
            "serves_properties": sorted(CHECKS.keys()),
            "kind_free_text": "hand-written bounded-exhaustive explorer in Go: choice-sequence DFS, explicit-state BFS over real objects (replay-from-fresh successor), fault-injecting reader/writer, cooperative scheduler; supervisor/child processes, replay files, known-findings filter",
        }],
        "checks": checks,
        "not_applicable": na,
        "notes": "All checks rebuild from /repo's working tree on every invocation (go build with replace => /repo). Deadlines never produce violations; a capped run reports exhaustive:false.",
    }
    json.dump(m, open("/verif/MANIFEST.json", "w"), indent=1)
    print("manifest: %d checks, %d not_applicable" % (len(checks), len(na)))

main()
