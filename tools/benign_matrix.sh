#!/bin/bash
# usage: tools/benign_matrix.sh [-j N] [ids...]
# Runs the property's quick check against every archived property-PRESERVING change
# (/verif/benign/<id>/patch.diff, confirmed earlier: the repository suite passes with it) on
# scratch copies and prints one line per change; any line with violations>0 is an alarm on code
# where the property holds and has to be classified by hand (DESIGN.md section 10b).
set -u
J=4
if [ "${1:-}" = "-j" ]; then J=$2; shift 2; fi
IDS=${*:-$(for d in /verif/benign/*; do [ -f $d/reclassified.txt ] || basename $d; done)}
run_one() {
	id=$1; p=${id%%_*}
	out=$(/verif/tools/scratch_eval.sh /verif/benign/$id/patch.diff quick $p 2>&1 | grep -v conda | tail -n 3 | tr '\n' ' ')
	echo "$id  $out"
}
export -f run_one
echo $IDS | tr ' ' '\n' | xargs -P $J -I{} bash -c 'run_one {}'
