#!/bin/bash
# Runs checks against a scratch worktree of /repo (HEAD) with one patch applied, using a scratch
# copy of /verif, so that /repo and /verif/evidence are never touched and several seeded changes
# can be evaluated at the same time.
#   usage: tools/scratch_eval.sh <patch.diff|none> <tier> <check>...
# Prints one line per check:  <check> <tier> exit=<rc> violations=<n> known=<n> seconds=<s> first=<key>
# and leaves nothing behind. Only for evaluating the machinery; registered checks and committed
# evidence always come from /verif run against /repo itself.
set -u
export GOFLAGS=-mod=mod GOPROXY=off GOSUMDB=off GOTOOLCHAIN=local
PATCH=$1; TIER=$2; shift 2
case "$PATCH" in none|/*) ;; *) PATCH="$PWD/$PATCH";; esac
S=${SCRATCH_ROOT:-/tmp/sx}/$$
mkdir -p "$S"
cleanup() { [ -n "${KEEP_SCRATCH:-}" ] && return;  git -C /repo worktree remove --force "$S/repo" >/dev/null 2>&1; rm -rf "$S"; git -C /repo worktree prune >/dev/null 2>&1; }
trap cleanup EXIT
git -C /repo worktree add -q --detach "$S/repo" HEAD || exit 2
if [ "$PATCH" != none ]; then
	# (a patch taken against an older HEAD: fall back to a three-way application; the blobs it names are in /repo)
	git -C "$S/repo" apply "$PATCH" 2>/dev/null || git -C "$S/repo" apply -3 "$PATCH" >/dev/null 2>&1 || { echo "patch does not apply: $PATCH"; exit 2; }
	git -C "$S/repo" reset -q 2>/dev/null
fi
mkdir -p "$S/verif"
rsync -a --exclude .git --exclude .build --exclude evidence --exclude replays --exclude seeded /verif/ "$S/verif/"
sed -i "s#=> /repo#=> $S/repo#" "$S/verif/go.mod"
mkdir -p "$S/verif/.build"
[ -x /verif/.build/instr ] && cp /verif/.build/instr "$S/verif/.build/instr"
export VERIF_HOME="$S/verif" VERIF_REPO="$S/repo"
for ch in "$@"; do
	s=$(date +%s)
	out=$("$S/verif/vcheck" "$ch" "$TIER" 2>"$S/err.txt"); rc=$?
	n=$(echo "$out" | grep -c '^VIOLATION')
	k=$(echo "$out" | grep -c '^KNOWN-FINDING')
	first=$(echo "$out" | grep '^VIOLATION' | head -1 | sed 's/.*replays\///')
	fl=$(grep -c 'HARNESS-FLAKY' "$S/err.txt")
	echo "$ch $TIER exit=$rc violations=$n known=$k seconds=$(( $(date +%s) - s )) first=$first"
	if [ "$fl" != 0 ]; then echo "    WARNING: $fl violation key(s) not reproduced by replay (HARNESS-FLAKY): $(grep -m1 'HARNESS-FLAKY' "$S/err.txt" | cut -c1-300)"; fi
	if [ $rc -ge 2 ]; then tail -5 "$S/err.txt" | sed 's/^/    /'; fi
	if [ -n "${KEEP_OUT:-}" ]; then { echo "== $ch"; echo "$out" | head -40; tail -40 "$S/err.txt"; } >> "$KEEP_OUT"; fi
done
