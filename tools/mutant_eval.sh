#!/bin/bash
# usage: tools/mutant_eval.sh <PROP> <TAG> [extra checks...]
# Confirms a seeded change delivered by a sub-agent in /tmp/wt/out (patch + demonstration + notes)
# in a scratch worktree: the repository suite passes with the patch, the demonstration passes
# without it and fails with it. Then runs the property's quick check (and any extra checks)
# against the patched tree on scratch copies (tools/scratch_eval.sh; /repo is not touched) and
# files everything under /verif/seeded/<PROP>_<TAG>/.
set -u
export GOFLAGS=-mod=mod GOPROXY=off GOSUMDB=off GOTOOLCHAIN=local
P=$1; T=$2; shift 2
EXTRA=$*
OUT=${MUT_OUT:-/tmp/wt/out}
PATCH=$OUT/${P}_${T}.patch.diff
DEMO=$OUT/${P}_${T}_demo_test.go
NOTES=$OUT/${P}_${T}_meta.txt
[ -s "$PATCH" ] || { echo "no patch $PATCH"; exit 2; }
[ -s "$DEMO" ] || { echo "no demo $DEMO"; exit 2; }
DIR=$(grep -m1 '^demo_dir:' "$NOTES" 2>/dev/null | sed 's/^demo_dir:[[:space:]]*//; s/[[:space:]]*$//; s/^"//; s/"$//')
DIR=${DIR:-.}
W=/tmp/wt/eval_${P}_${T}_$$
git -C /repo worktree add -q --detach "$W" HEAD || exit 2
trap 'git -C /repo worktree remove --force "$W" >/dev/null 2>&1; git -C /repo worktree prune' EXIT
if grep -q '^+++ b/.*_test\.go' "$PATCH"; then echo "MUTANT NOT CONFIRMED: patch touches test files"; exit 3; fi
DEMOFILE="$W/$DIR/zz_demo_${T}_test.go"
cp "$DEMO" "$DEMOFILE" || exit 2
clean_demo=$(cd "$W/$DIR" && go test -vet=off -count=1 -run "TestDemo${T}\$" . 2>&1 | tail -1)
rm -f "$DEMOFILE"
git -C "$W" apply "$PATCH" || { echo "MUTANT NOT CONFIRMED: patch does not apply"; exit 3; }
suite=$(cd "$W" && go test -vet=off -count=1 ./... 2>&1 | grep -v "no test files" | grep -v "^ok" | head -5)
cp "$DEMO" "$DEMOFILE"
mut_demo=$(cd "$W/$DIR" && go test -vet=off -count=1 -run "TestDemo${T}\$" . 2>&1 | tail -1)
rm -f "$DEMOFILE"
echo "demo on clean tree : $clean_demo"
echo "suite with patch   : ${suite:-all packages ok}"
echo "demo with patch    : $mut_demo"
ok=1
case "$clean_demo" in ok*) ;; *) ok=0;; esac
[ -z "$suite" ] || ok=0
case "$mut_demo" in *FAIL*) ;; *) ok=0;; esac
if [ $ok = 0 ]; then echo "MUTANT NOT CONFIRMED"; exit 3; fi
D=/verif/seeded/${P}_${T}
mkdir -p "$D"
cp "$PATCH" "$D/patch.diff"; cp "$DEMO" "$D/demo_test.go"; cp "$NOTES" "$D/agent_notes.txt" 2>/dev/null
[ -n "$EXTRA" ] && echo "$EXTRA" > "$D/also_run"
python3 - "$D" "$P" "$T" "$DIR" "$clean_demo" "$mut_demo" <<'PY'
import json,sys
d,p,t,dir_,cd,md=sys.argv[1:7]
json.dump({"property":p,"tag":t,"id":f"{p}_{t}","demo_package_dir":dir_,
 "confirmed":{"demo_on_clean_tree":' '.join(cd.split()),"suite_with_patch":"all packages ok","demo_with_patch":' '.join(md.split())}},
 open(d+"/meta.json","w"),indent=1)
PY
/verif/tools/seeded_matrix.sh -j 1 ${P}_${T} 2>&1 | grep "^${P}_${T} "
