#!/bin/bash
# usage: tools/mutant_eval.sh <PROP> <TAG> <demo-package-dir> [checks...]
# Confirms a seeded change (patch + demonstration from /tmp/wt/out) in a scratch worktree:
# suite passes with the patch, demo passes without and fails with it; then applies it to /repo,
# runs the named checks (default: the property's own, quick), reverts, and files the result
# under /verif/seeded/<PROP>_<TAG>/.
set -u
export GOFLAGS=-mod=mod GOPROXY=off GOSUMDB=off GOTOOLCHAIN=local
P=$1; T=$2; DIR=${3:-.}; shift 3 || true
CHECKS=${*:-$P}
OUT=/tmp/wt/out
PATCH=$OUT/${P}_${T}.patch.diff
DEMO=$OUT/${P}_${T}_demo_test.go
W=/tmp/wt/eval_${P}_${T}
[ -s "$PATCH" ] || { echo "no patch $PATCH"; exit 2; }
git -C /repo worktree add -q --detach "$W" HEAD || exit 2
trap 'git -C /repo worktree remove --force "$W" >/dev/null 2>&1' EXIT
res() { echo "$1"; }
DEMOFILE="$W/$DIR/zz_demo_${T}_test.go"
cp "$DEMO" "$DEMOFILE"
clean_demo=$(cd "$W/$DIR" && go test -vet=off -count=1 -run "TestDemo${T}\$" . 2>&1 | tail -1)
rm -f "$DEMOFILE"
git -C "$W" apply "$PATCH" || { echo "patch does not apply"; exit 2; }
suite=$(cd "$W" && go test -vet=off -count=1 ./... 2>&1 | grep -v "no test files" | grep -v "^ok" | head -5)
cp "$DEMO" "$DEMOFILE"
mut_demo=$(cd "$W/$DIR" && go test -vet=off -count=1 -run "TestDemo${T}\$" . 2>&1 | tail -1)
rm -f "$DEMOFILE"
echo "demo on clean tree : $clean_demo"
echo "suite with patch   : ${suite:-all packages ok}"
echo "demo with patch    : $mut_demo"
ok=1
case "$clean_demo" in ok*) ;; *) ok=0;; esac
[ -z "$suite" ] || ok=0
case "$mut_demo" in FAIL*|*FAIL*) ;; *) ok=0;; esac
if [ $ok = 0 ]; then echo "MUTANT NOT CONFIRMED"; exit 3; fi
# run the checks against /repo with the patch applied
cd /verif
git -C /repo apply "$PATCH" || exit 2
declare -A RESULT
for ch in $CHECKS; do
	start=$(date +%s)
	out=$(./vcheck "$ch" quick 2>/dev/null); rc=$?
	RESULT[$ch]="rc=$rc $(echo "$out" | grep -c '^VIOLATION') violation lines, $(( $(date +%s) - start ))s"
	echo "check $ch quick: ${RESULT[$ch]}"
	echo "$out" | grep '^VIOLATION' | head -3
done
git -C /repo checkout -- . ; git -C /repo status --short | head -3
for ch in $CHECKS; do rm -rf /verif/replays/$ch; done
D=/verif/seeded/${P}_${T}
mkdir -p "$D"
cp "$PATCH" "$D/patch.diff"; cp "$DEMO" "$D/demo_test.go"; cp "$OUT/${P}_${T}_meta.txt" "$D/agent_notes.txt" 2>/dev/null
{
	echo "{"
	echo " \"property\": \"$P\", \"tag\": \"$T\", \"demo_package_dir\": \"$DIR\","
	echo " \"confirmed\": {\"demo_on_clean_tree\": \"$clean_demo\", \"suite_with_patch\": \"all packages ok\", \"demo_with_patch\": \"$(echo $mut_demo | tr -d '\"')\"},"
	echo " \"checks\": {"
	first=1
	for ch in $CHECKS; do [ $first = 1 ] || echo ","; first=0; echo -n "  \"$ch quick\": \"${RESULT[$ch]}\""; done
	echo ""
	echo " }"
	echo "}"
} > "$D/meta.json"
# restore evidence files of the checks that were run on the patched tree
for ch in $CHECKS; do ./vcheck "$ch" quick >/dev/null 2>&1; done
