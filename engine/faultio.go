package engine

import (
	"errors"
	"io"
)

// FaultReader is an io.Reader whose answers the explorer owns. Every Read is a choice point.
// Full=false: menu {everything requested, 1 byte, all but one byte} (+ EOF variants at the end);
// Full=true: every chunk size 1..min(len(p), available).
type FaultReader struct {
	Data []byte
	Pos  int
	M    *MC
	Full bool
	// FullUntil limits the full menu to reads that start before this stream position
	// (0 = no limit); later reads return everything requested.
	FullUntil int
	// Reads counts Read calls.
	Reads int
}

func (r *FaultReader) Read(p []byte) (int, error) {
	r.Reads++
	if len(p) == 0 {
		return 0, nil
	}
	avail := len(r.Data) - r.Pos
	if avail == 0 {
		return 0, io.EOF
	}
	want := len(p)
	if want > avail {
		want = avail
	}
	var sizes []int
	if r.Full && r.FullUntil > 0 && r.Pos >= r.FullUntil {
		// everything requested; the read that reaches the end of the stream may still deliver its
		// data together with io.EOF (the io.Reader contract allows it)
		var err error
		if want == avail && r.M.Choose(2, "read") == 1 {
			err = io.EOF
		}
		copy(p, r.Data[r.Pos:r.Pos+want])
		r.Pos += want
		return want, err
	}
	if r.Full {
		for k := want; k >= 1; k-- {
			sizes = append(sizes, k)
		}
	} else {
		sizes = []int{want}
		if want > 1 {
			sizes = append(sizes, 1)
		}
		if want > 2 {
			sizes = append(sizes, want-1)
		}
	}
	n := len(sizes)
	eofVariant := want == avail // the stream ends inside this read: data may come together with EOF
	if eofVariant {
		n++
	}
	ch := r.M.Choose(n, "read")
	if eofVariant && ch == len(sizes) {
		copy(p, r.Data[r.Pos:r.Pos+want])
		r.Pos += want
		return want, io.EOF
	}
	k := sizes[ch]
	copy(p, r.Data[r.Pos:r.Pos+k])
	r.Pos += k
	return k, nil
}

// ErrInjected is the sentinel error of FaultWriter.
var ErrInjected = errors.New("injected writer fault")

// FaultWriter is an io.Writer that can start failing at any Write call:
// choice 0 accept, 1 fail having accepted nothing, 2 short write of len(p)/2 with io.ErrShortWrite.
type FaultWriter struct {
	Got    []byte
	M      *MC
	Failed error
	Writes int
	// Transient: the fault is a one-off - Write calls that come after the failed one are accepted
	// (counted in After, their bytes are not recorded). An encoder has to report the failure it saw
	// whatever happens to later writes.
	Transient bool
	After     int
}

func (w *FaultWriter) Write(p []byte) (int, error) {
	w.Writes++
	if w.Failed != nil && w.Transient {
		w.After++
		return len(p), nil
	}
	if w.Failed != nil {
		// a failed writer keeps failing; an encoder that carries on after an error is caught by the prefix oracle
		return 0, w.Failed
	}
	n := 2
	if len(p) >= 2 {
		n = 3
	}
	switch w.M.Choose(n, "write") {
	case 0:
		w.Got = append(w.Got, p...)
		return len(p), nil
	case 1:
		w.Failed = ErrInjected
		return 0, ErrInjected
	default:
		k := len(p) / 2
		w.Got = append(w.Got, p[:k]...)
		w.Failed = io.ErrShortWrite
		return k, io.ErrShortWrite
	}
}
