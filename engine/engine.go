// Package engine is the shared runner for the bounded-exhaustive checks:
// counters, violation collection with replay cases, samples, worker pool,
// deadlines that never produce violations.
package engine

import (
	"encoding/json"
	"fmt"
	"hash/fnv"
	"os"
	"runtime"
	"runtime/debug"
	"sort"
	"strconv"
	"sync"
	"sync/atomic"
	"time"
)

// A Violation is one property violation together with the case that replays it.
type Violation struct {
	Key   string          `json:"key"`
	Desc  string          `json:"desc"`
	Kind  string          `json:"kind"` // replay executor name inside the check
	Case  json.RawMessage `json:"case"`
	Count int64           `json:"count"` // number of cases that mapped to this key
	// Alt holds a few further cases with the same key (and their descriptions): when the first
	// case does not reproduce from its replay file in a fresh process (it depended on state left
	// by earlier cases of the run), the supervisor tries these before giving the key up.
	Alt     []json.RawMessage `json:"alt,omitempty"`
	AltDesc []string          `json:"alt_desc,omitempty"`
}

// A Check is one property check.
type Check struct {
	ID    string
	Level string // evidence level: exploration | model_checking | fault_enumeration
	Rule  string
	// Run explores the bounded space; it must consult c.Expired() in long loops.
	Run func(c *Ctx)
	// Replay re-executes a single recorded case (plain function call, no explorer).
	Replay      func(c *Ctx, kind string, cs json.RawMessage)
	Assumptions []string
}

var registry = map[string]*Check{}

// Register adds a check to the registry.
func Register(ch *Check) { registry[ch.ID] = ch }

// Lookup returns a registered check.
func Lookup(id string) *Check { return registry[id] }

// IDs returns all registered ids, sorted.
func IDs() []string {
	var ids []string
	for id := range registry {
		ids = append(ids, id)
	}
	sort.Strings(ids)
	return ids
}

const maxKeys = 40

// Ctx carries the state of one run of one check.
type Ctx struct {
	ID       string
	Tier     string
	Seed     int64
	Start    time.Time
	Deadline time.Time
	Workers  int

	mu         sync.Mutex
	smu        sync.RWMutex
	cmap       sync.Map // name -> *int64 (lock-free fast path)
	counters   map[string]*int64
	viol       map[string]*Violation
	violOrder  []string
	violTotal  int64
	samples    map[string][]any
	warnings   []string
	notes      map[string]any
	capped     atomic.Bool
	distinctMu [64]sync.Mutex
	distinct   [64]map[uint64]struct{}
	curCase    atomic.Value // string: description of the case in flight (crash attribution)
}

// NewCtx makes a context.
func NewCtx(id, tier string, seed int64, budget time.Duration) *Ctx {
	c := &Ctx{
		ID: id, Tier: tier, Seed: seed, Start: time.Now(), Workers: runtime.NumCPU(),
		counters: map[string]*int64{}, viol: map[string]*Violation{}, samples: map[string][]any{},
		notes: map[string]any{},
	}
	if w, err := strconv.Atoi(os.Getenv("VERIF_WORKERS")); err == nil && w >= 1 {
		c.Workers = w // the supervisor's second, sequential pass (see cmd/vc: flaky-only runs)
	}
	c.Deadline = c.Start.Add(budget)
	for i := range c.distinct {
		c.distinct[i] = map[uint64]struct{}{}
	}
	return c
}

// Thorough reports whether the tier is thorough.
func (c *Ctx) Thorough() bool { return c.Tier == "thorough" }

// Expired reports whether the internal deadline passed; the run is then marked capped
// (exhaustive:false). A deadline never produces a violation.
func (c *Ctx) Expired() bool {
	if atomic.LoadInt64(&c.violTotal) > 5000 {
		// a storm of violations: what is recorded is enough; stop exploring (exhaustive:false)
		c.capped.Store(true)
		return true
	}
	if time.Now().After(c.Deadline) {
		c.capped.Store(true)
		return true
	}
	return false
}

// Capped reports whether a cap was hit.
func (c *Ctx) Capped() bool { return c.capped.Load() }

// SetCapped marks the run as not exhaustive, with a reason.
func (c *Ctx) SetCapped(reason string) {
	c.capped.Store(true)
	c.Warn("cap hit: " + reason)
}

func (c *Ctx) counter(name string) *int64 {
	if p, ok := c.cmap.Load(name); ok {
		return p.(*int64)
	}
	c.mu.Lock()
	p, ok := c.counters[name]
	if !ok {
		p = new(int64)
		c.counters[name] = p
		c.cmap.Store(name, p)
	}
	c.mu.Unlock()
	return p
}

// Counter returns a pointer usable with atomic.AddInt64 in hot loops.
func (c *Ctx) Counter(name string) *int64 { return c.counter(name) }

// Count adds n to a named counter.
func (c *Ctx) Count(name string, n int64) { atomic.AddInt64(c.counter(name), n) }

// Get reads a counter.
func (c *Ctx) Get(name string) int64 { return atomic.LoadInt64(c.counter(name)) }

// Distinct records a hash in the set of distinct non-trivial cases.
func (c *Ctx) Distinct(h uint64) {
	i := h & 63
	c.distinctMu[i].Lock()
	c.distinct[i][h] = struct{}{}
	c.distinctMu[i].Unlock()
}

// DistinctStr hashes s and records it.
func (c *Ctx) DistinctStr(s string) {
	h := fnv.New64a()
	h.Write([]byte(s))
	c.Distinct(h.Sum64())
}

// DistinctCount is the number of distinct hashes recorded.
func (c *Ctx) DistinctCount() int64 {
	var n int64
	for i := range c.distinct {
		c.distinctMu[i].Lock()
		n += int64(len(c.distinct[i]))
		c.distinctMu[i].Unlock()
	}
	return n
}

// Note stores an extra evidence key.
func (c *Ctx) Note(k string, v any) {
	c.mu.Lock()
	c.notes[k] = v
	c.mu.Unlock()
}

// Warn records a vacuity / coverage warning (never changes the exit code).
func (c *Ctx) Warn(s string) {
	c.mu.Lock()
	if len(c.warnings) < 50 {
		c.warnings = append(c.warnings, s)
	}
	c.mu.Unlock()
	fmt.Fprintf(os.Stderr, "[%s] warning: %s\n", c.ID, s)
}

// Sample keeps up to n samples per class.
func (c *Ctx) Sample(class string, n int, v any) {
	c.smu.RLock()
	full := len(c.samples[class]) >= n
	c.smu.RUnlock()
	if full {
		return
	}
	c.smu.Lock()
	if len(c.samples[class]) < n {
		c.samples[class] = append(c.samples[class], v)
	}
	c.smu.Unlock()
}

// Violate records a violation. key groups violations with one cause-and-shape; the
// first case for a key is kept as the replay artefact.
func (c *Ctx) Violate(key, desc, kind string, cs any) {
	atomic.AddInt64(&c.violTotal, 1)
	c.mu.Lock()
	defer c.mu.Unlock()
	if v, ok := c.viol[key]; ok {
		v.Count++
		if len(v.Alt) < 4 {
			if raw, err := json.Marshal(cs); err == nil && string(raw) != string(v.Case) {
				v.Alt = append(v.Alt, raw)
				v.AltDesc = append(v.AltDesc, desc)
			}
		}
		return
	}
	if len(c.viol) >= maxKeys {
		return
	}
	raw, err := json.Marshal(cs)
	if err != nil {
		raw, _ = json.Marshal(fmt.Sprintf("unserialisable case: %v", err))
	}
	c.viol[key] = &Violation{Key: key, Desc: desc, Kind: kind, Case: raw, Count: 1}
	c.violOrder = append(c.violOrder, key)
}

// Violations returns the recorded violations in first-seen order.
func (c *Ctx) Violations() []*Violation {
	c.mu.Lock()
	defer c.mu.Unlock()
	out := make([]*Violation, 0, len(c.violOrder))
	for _, k := range c.violOrder {
		out = append(out, c.viol[k])
	}
	return out
}

// ViolTotal is the raw number of violating cases.
func (c *Ctx) ViolTotal() int64 { return atomic.LoadInt64(&c.violTotal) }

// InFlight logs the case about to run so a fatal crash can be attributed to it.
func (c *Ctx) InFlight(s string) { c.curCase.Store(s) }

// Guard runs f and converts a panic into a (value, stack) pair.
func Guard(f func()) (p any, stack string) {
	defer func() {
		if r := recover(); r != nil {
			p = r
			stack = string(debug.Stack())
		}
	}()
	f()
	return nil, ""
}

// Parallel runs f(i) for i in [0,n) on the worker pool; stops early when expired.
func (c *Ctx) Parallel(n int, f func(i int)) {
	var next int64 = -1
	var wg sync.WaitGroup
	w := c.Workers
	if w > n {
		w = n
	}
	for k := 0; k < w; k++ {
		wg.Add(1)
		go func() {
			defer wg.Done()
			for {
				i := int(atomic.AddInt64(&next, 1))
				if i >= n || c.Expired() {
					return
				}
				f(i)
			}
		}()
	}
	wg.Wait()
}

// Result is what the child process hands to the supervisor.
type Result struct {
	ID         string           `json:"id"`
	Tier       string           `json:"tier"`
	Seed       int64            `json:"seed"`
	Level      string           `json:"level"`
	Rule       string           `json:"rule"`
	Counters   map[string]int64 `json:"counters"`
	Distinct   int64            `json:"distinct"`
	Samples    map[string][]any `json:"samples"`
	Warnings   []string         `json:"warnings"`
	Notes      map[string]any   `json:"notes"`
	Capped     bool             `json:"capped"`
	Violations []*Violation     `json:"violations"`
	ViolTotal  int64            `json:"viol_total"`
	WallS      float64          `json:"wall_s"`
	Assume     []string         `json:"assumptions"`
}

// Finish builds the Result.
func (c *Ctx) Finish(ch *Check) *Result {
	r := &Result{
		ID: c.ID, Tier: c.Tier, Seed: c.Seed, Level: ch.Level, Rule: ch.Rule,
		Counters: map[string]int64{}, Samples: c.samples, Warnings: c.warnings, Notes: c.notes,
		Capped: c.Capped(), Violations: c.Violations(), ViolTotal: c.ViolTotal(),
		WallS: time.Since(c.Start).Seconds(), Assume: ch.Assumptions, Distinct: c.DistinctCount(),
	}
	c.mu.Lock()
	for k, p := range c.counters {
		r.Counters[k] = atomic.LoadInt64(p)
	}
	c.mu.Unlock()
	return r
}
