package engine

import "fmt"

// MC is the stateless choice-sequence explorer: a harness body is a deterministic function
// of the choices it receives from Choose; Explore enumerates choice sequences depth-first by
// replaying a prefix and taking choice 0 afterwards. Non-zero choices are "deviations" and
// are charged to a budget (preemptions, non-default environment answers).
type MC struct {
	prefix []int
	Trace  []Point
}

// A Point is one choice point of one execution.
type Point struct {
	N      int
	Choice int
	Label  string
}

// Choose returns the choice for this point: the replayed prefix first, then 0.
func (m *MC) Choose(n int, label string) int {
	if n <= 0 {
		panic("mc: Choose with n <= 0")
	}
	i := len(m.Trace)
	ch := 0
	if i < len(m.prefix) {
		ch = m.prefix[i]
		if ch >= n {
			// Replaying a prefix must reproduce the same arities: divergence is a harness error.
			panic(fmt.Sprintf("mc: replay divergence at point %d (%s): choice %d out of %d", i, label, ch, n))
		}
	}
	m.Trace = append(m.Trace, Point{N: n, Choice: ch, Label: label})
	return ch
}

// Choices returns the choice sequence of the execution.
func (m *MC) Choices() []int {
	out := make([]int, len(m.Trace))
	for i, p := range m.Trace {
		out[i] = p.Choice
	}
	return out
}

// Deviations counts non-zero choices.
func (m *MC) Deviations() int {
	n := 0
	for _, p := range m.Trace {
		if p.Choice != 0 {
			n++
		}
	}
	return n
}

// ExploreStats reports what Explore covered.
type ExploreStats struct {
	Executions int64
	MaxPoints  int
	Capped     bool
}

// Explore runs body for every choice sequence with at most bound deviations (bound < 0:
// unlimited). body must be deterministic. stop() is polled between executions.
func Explore(bound int, maxExec int64, stop func() bool, body func(m *MC)) ExploreStats {
	return ExploreFrom(nil, 0, bound, maxExec, stop, body)
}

// ExploreFrom explores the subtree below a prefix that already contains devs deviations.
func ExploreFrom(start []int, startDevs int, bound int, maxExec int64, stop func() bool, body func(m *MC)) ExploreStats {
	var st ExploreStats
	var rec func(prefix []int, devs int)
	rec = func(prefix []int, devs int) {
		if st.Capped {
			return
		}
		if (maxExec > 0 && st.Executions >= maxExec) || (stop != nil && stop()) {
			st.Capped = true
			return
		}
		m := &MC{prefix: prefix}
		body(m)
		st.Executions++
		if len(m.Trace) > st.MaxPoints {
			st.MaxPoints = len(m.Trace)
		}
		if len(m.Trace) < len(prefix) {
			panic("mc: execution shorter than its prefix (non-deterministic harness)")
		}
		choices := m.Choices()
		d := devs
		for i := len(prefix); i < len(m.Trace); i++ {
			// choices[i] is 0 here (default after the prefix)
			if bound >= 0 && d+1 > bound {
				continue
			}
			for alt := 1; alt < m.Trace[i].N; alt++ {
				np := append(append([]int{}, choices[:i]...), alt)
				rec(np, d+1)
			}
		}
	}
	if start == nil {
		// determinism self-test: the default execution, run twice, must make the same choice points
		a, b := &MC{}, &MC{}
		body(a)
		body(b)
		st.Executions += 2
		if len(a.Trace) != len(b.Trace) {
			panic("mc: harness is not deterministic (the default execution has a different number of choice points when repeated)")
		}
		for i := range a.Trace {
			if a.Trace[i].N != b.Trace[i].N || a.Trace[i].Label != b.Trace[i].Label {
				panic("mc: harness is not deterministic (choice point " + a.Trace[i].Label + " differs when the default execution is repeated)")
			}
		}
	}
	rec(start, startDevs)
	return st
}

// ExploreParallel explores the same tree as Explore, dealing the level-1 subtrees (one per
// alternative of the default execution) to the context's worker pool. body must be safe to
// run concurrently (all state per execution).
func ExploreParallel(c *Ctx, bound int, body func(m *MC)) ExploreStats {
	var total ExploreStats
	root := &MC{}
	body(root)
	total.Executions = 1
	total.MaxPoints = len(root.Trace)
	if bound == 0 {
		return total
	}
	choices := root.Choices()
	var shards [][]int
	for i := range root.Trace {
		for alt := 1; alt < root.Trace[i].N; alt++ {
			shards = append(shards, append(append([]int{}, choices[:i]...), alt))
		}
	}
	stats := make([]ExploreStats, len(shards))
	c.Parallel(len(shards), func(i int) {
		stats[i] = ExploreFrom(shards[i], 1, bound, 0, c.Expired, body)
	})
	for _, s := range stats {
		total.Executions += s.Executions
		if s.MaxPoints > total.MaxPoints {
			total.MaxPoints = s.MaxPoints
		}
		if s.Capped {
			total.Capped = true
		}
	}
	if c.Expired() {
		total.Capped = true
	}
	return total
}

// ReplayChoices runs body once on a fixed choice sequence.
func ReplayChoices(choices []int, body func(m *MC)) *MC {
	m := &MC{prefix: choices}
	body(m)
	return m
}
