package checks

import (
	"bytes"
	"encoding/json"
	"errors"
	"fmt"
	"math"
	"strings"
	"sync"
	"time"

	"github.com/twpayne/go-geom"
	"github.com/twpayne/go-geom/encoding/igc"

	"verif/engine"
	"verif/ref"
)

// C19 — IGC decoding is total; encode-then-decode keeps a track to format resolution.

type c19Case struct {
	Mode    string    `json:"mode"` // lines | split | track
	Lines   []string  `json:"lines,omitempty"`
	CRLF    bool      `json:"crlf,omitempty"`
	Choices []int     `json:"choices,omitempty"`
	Track   [][]ref.F `json:"track,omitempty"` // lon lat alt unix per fix
	// Zone (track mode): the offset in seconds of the process's local time zone (time.Local) while
	// the track is written and read; the format's times are UTC whatever the zone of the machine.
	Zone int `json:"zone,omitempty"`
	// Prev (track mode): the Encoder is not fresh - it has written another track before (into a
	// buffer that was emptied since): 1 = one fix on the date of this track's first fix, 2 = one fix
	// on the day before. What an Encoder wrote earlier is no part of what it writes now.
	Prev int `json:"prev,omitempty"`
}

// JSON form of a case: lines that are not valid UTF-8 are stored as bytes (see splitText).
type c19Wire c19Case

func (cs c19Case) MarshalJSON() ([]byte, error) {
	w := struct {
		c19Wire
		LineBytes [][]byte `json:"line_bytes,omitempty"`
	}{c19Wire: c19Wire(cs)}
	raw := false
	for _, l := range cs.Lines {
		if _, b := splitText(l); b != nil {
			raw = true
		}
	}
	if raw {
		w.Lines = nil
		for _, l := range cs.Lines {
			w.LineBytes = append(w.LineBytes, []byte(l))
		}
	}
	return json.Marshal(w)
}

func (cs *c19Case) UnmarshalJSON(b []byte) error {
	var w struct {
		c19Wire
		LineBytes [][]byte `json:"line_bytes"`
	}
	if err := json.Unmarshal(b, &w); err != nil {
		return err
	}
	*cs = c19Case(w.c19Wire)
	if w.LineBytes != nil {
		cs.Lines = nil
		for _, l := range w.LineBytes {
			cs.Lines = append(cs.Lines, string(l))
		}
	}
	return nil
}

func init() {
	engine.Register(&engine.Check{
		ID: "C19", Level: "model_checking",
		Rule:   "decoder as a state machine: DFS over all line sequences of depth <=3 (quick; <=4 after the plain 'A record first' opening) / <=4 (thorough) after each of 6 file openings (no A record, A first, noise then A, XOFF/BOM before A, ...), alphabet generated RELATIVE TO THE CURRENT STATE of a Go reference model of the record rules: H DTE {valid, short, non-digit, DATE: form, day/month edges, invalid day/month} and other H records, I records {contiguous LAD/LOD/TDS/other extension of width 1-3, two extensions, non-contiguous, stop<start, count larger than supplied, negative count, truncated, non-digit}, B records {valid at the current length, earlier time of day, one short, over-long, 60000 milli-minutes, 90/180 degrees, bad hemisphere, negative altitude}, blank and other records; after every sequence igc.Read must have returned (no panic) a five-dimensional track of whole fixes and nil or a renderable igc.Errors; for streams of an A record, valid date headers and valid plain B records (what the encoder writes) the decoded fixes must equal the model's - what a decoder makes of malformed records, extension tables and other headers is not prescribed by the property and not compared; plus every truncation and every single-column substitution (6 characters) of the B record in each of 6 extension states; the reader-split sweep; encoder round trip for every combination of 7 longitudes x 5 latitudes x 6 altitudes, 1..3 fixes with time deltas {0,1,59,86399,86400,86401 s, 28,31,365,366,730 days} from 12 boundary instants, EVERY calendar day 1970-01-01..2069-12-31 with fixes at 00:00:00, 23:59:59 and across midnight, every leap day reached from five kinds of earlier days (previous year, 28 February, ...), 31st days reached from 30-day months. states = distinct model states reached Also: every whole degree of latitude/longitude approached from both sides at distances around 1/60000 and 1/120000 degree. Round 7: all tracks again with the process's local time zone at +5:45 and -9:30; every truncation, single-byte deletion, substitution and insertion (12-byte menu) of 8 header and extension-table lines. Round 8: tracks through an Encoder that has written before (same day / day before); lines of 65535, 65536, 70000 and 2^20 bytes at four positions. Round 9: extension tables of every width 1..85 for five codes, alone and behind another extension, each with three fixes. Round 12: every contiguous run of >=2 columns of a fix filled with one repeated byte, in six extension states.",
		Run:    c19Run,
		Replay: func(c *engine.Ctx, kind string, raw json.RawMessage) { c19Exec(c, decodeCase[c19Case](raw), nil) },
		Assumptions: []string{
			"ref.IGCModel restates the record rules (fixed columns, contiguous extensions, two-digit year window 1970..2069, day roll-over); times compared to 1 ms, coordinates to 1e-9 degrees",
		},
	})
}

func c19Text(lines []string, crlf bool) string {
	sep := "\n"
	if crlf {
		sep = "\r\n"
	}
	return strings.Join(lines, sep) + sep
}

// c19Compare checks a decode result. Always: a five-dimensional track of whole fixes and an error
// that is nil or an igc.Errors that renders. With strict (streams made of an A record, valid date
// headers and valid plain B records only - what the encoder writes - so that the round-trip clause
// fixes their meaning): the fixes the record rules give. What a decoder makes of malformed
// records, of I-record extension tables or of headers other than the date is NOT prescribed by the
// property and is not compared (a stricter comparison raised an alarm on a property-preserving
// change, DESIGN.md 7.22).
func c19Compare(t *igc.T, err error, m *ref.IGCModel, strict bool) string {
	if t == nil || t.LineString == nil {
		return "nil result"
	}
	ls := t.LineString
	if ls.Layout() != geom.Layout(5) || ls.Stride() != 5 {
		return fmt.Sprintf("track layout %v stride %d, want a five-dimensional track", ls.Layout(), ls.Stride())
	}
	fc := ls.FlatCoords()
	if len(fc)%5 != 0 {
		return "track does not hold whole fixes"
	}
	if err != nil {
		var es igc.Errors
		if !errors.As(err, &es) {
			return fmt.Sprintf("error of type %T, want igc.Errors", err)
		}
		if p, _ := engine.Guard(func() { _ = err.Error() }); p != nil {
			return fmt.Sprintf("Error() panicked: %v", p)
		}
	}
	if !strict {
		return ""
	}
	if len(fc)/5 != len(m.Fixes) {
		return fmt.Sprintf("%d fixes decoded, the record rules give %d", len(fc)/5, len(m.Fixes))
	}
	for i, f := range m.Fixes {
		got := fc[5*i : 5*i+5]
		want := []float64{f.Lng, f.Lat, f.EllipsoidAlt, f.Unix, f.PressureAlt}
		for k := range want {
			tol := 1e-9
			if k == 3 {
				tol = 1e-3
			}
			if math.IsNaN(got[k]) || math.Abs(got[k]-want[k]) > tol {
				return fmt.Sprintf("fix %d ordinate %d = %v, the record rules give %v", i, k, got[k], want[k])
			}
		}
	}
	return ""
}

// c19Plain: the stream consists of an A record first, date headers the rules accept and B records
// the rules accept, with no I record, no other header and no malformed record.
func c19Plain(lines []string, m *ref.IGCModel) bool {
	if !m.FoundA || m.LeadingNoise || m.RecordErrors != 0 {
		return false
	}
	for i, l := range lines {
		if len(l) > 200 {
			return false // no line the encoder writes is that long (a line scanner may give up on 64 KiB)
		}
		switch {
		case i == 0 && strings.HasPrefix(l, "A"):
		case strings.HasPrefix(l, "HFDTE"), strings.HasPrefix(l, "B"):
		default:
			return false
		}
	}
	return true
}

func c19Exec(c *engine.Ctx, cs c19Case, onState func(key string)) {
	switch cs.Mode {
	case "lines":
		c.Count("evaluations", 1)
		text := c19Text(cs.Lines, cs.CRLF)
		m := ref.NewIGCModel()
		for _, l := range cs.Lines {
			m.Line(l)
		}
		var t *igc.T
		var err error
		fail := func(what, desc string) {
			c.Violate("decode/"+what, fmt.Sprintf("%s; file %q", desc, clipStr(text, 1500)), "c19", cs)
		}
		if p, stack := engine.Guard(func() { t, err = igc.Read(strings.NewReader(text)) }); p != nil {
			last := ""
			if len(cs.Lines) > 0 {
				last = cs.Lines[len(cs.Lines)-1]
			}
			fail("panic/"+recKind(last), fmt.Sprintf("igc.Read panicked: %v\n%s", p, firstLines(stack, 12)))
			return
		}
		if d := c19Compare(t, err, m, c19Plain(cs.Lines, m)); d != "" {
			last := ""
			if len(cs.Lines) > 0 {
				last = cs.Lines[len(cs.Lines)-1]
			}
			fail("nonconforming/"+recKind(last)+"/"+classify(d), d)
			return
		}
		if c19Plain(cs.Lines, m) {
			c.Count("plain_streams_compared", 1)
		}
		if onState != nil {
			onState(m.StateKey())
		}
		if len(m.Fixes) > 0 {
			c.Count("sequences_with_fixes", 1)
		}
		if m.RecordErrors > 0 {
			c.Count("sequences_with_record_errors", 1)
		}
	case "split":
		text := c19Text(cs.Lines, cs.CRLF)
		m := ref.NewIGCModel()
		for _, l := range cs.Lines {
			m.Line(l)
		}
		body := func(mc *engine.MC) {
			c.Count("evaluations", 1)
			r := &engine.FaultReader{Data: []byte(text), M: mc}
			var t *igc.T
			var err error
			if p, _ := engine.Guard(func() { t, err = igc.Read(r) }); p != nil {
				cc := cs
				cc.Choices = mc.Choices()
				c.Violate("split/panic", fmt.Sprintf("panic %v with reader answers %v", p, mc.Choices()), "c19", cc)
				return
			}
			d := c19Compare(t, err, m, false)
			if d == "" {
				// the scanner must not depend on how the reader splits the bytes: same fixes as
				// the decode of the whole text
				whole, _ := igc.Read(strings.NewReader(text))
				if whole == nil || whole.LineString == nil || !eqBits(whole.LineString.FlatCoords(), t.LineString.FlatCoords()) || len(whole.Headers) != len(t.Headers) {
					d = "result differs from the decode of the same bytes in one piece"
				}
			}
			if d != "" {
				cc := cs
				cc.Choices = mc.Choices()
				c.Violate("split/nonconforming", fmt.Sprintf("%s with reader answers %v", d, mc.Choices()), "c19", cc)
				return
			}
			c.Count("split_schedules", 1)
		}
		if cs.Choices != nil {
			engine.ReplayChoices(cs.Choices, body)
			return
		}
		engine.Explore(2, 0, c.Expired, body)
	case "track":
		c.Count("evaluations", 1)
		c19Track(c, cs)
	}
}

func recKind(line string) string {
	if line == "" {
		return "blank"
	}
	c := line[0]
	if c >= 'A' && c <= 'Z' {
		return string(c)
	}
	return "other"
}

// bLine renders a B record for the model state: hhmmss, lat/lng fields, altitudes, and digit
// padding up to the announced record length.
func bLine(m *ref.IGCModel, hhmmss, lat, lng, palt, galt string) string {
	s := "B" + hhmmss + lat + lng + "A" + palt + galt
	for i := len(s); i < m.BLen; i++ {
		s += string(rune('1' + i%7))
	}
	return s
}

// c19Alphabet generates the lines offered in a model state.
func c19Alphabet(m *ref.IGCModel) []string {
	if !m.FoundA {
		return []string{"AXXX001flight", "XYZ noise", "\x13AFLY01", "\ufeffAXXX", " x AXXX", "abc", "  A", "", "B1101015206343N00006198WA0058700558"}
	}
	L := m.BLen
	ext := func(start, stop int, code string) string { return fmt.Sprintf("%02d%02d%s", start, stop, code) }
	out := []string{
		// H records
		"HFDTE150785", "HFDTE010170", "HFDTE311269", "HFDTE1507", "HFDTEaa0785", "HFDTEDATE:290224,01", "HFDTE320185", "HFDTE011385", "HFDTE",
		"HFPLTPILOTINCHARGE:Jane Doe  ", "HFGIDGLIDERID:", "H", "HX", "Hf-- HSFRS:x",
		// I records
		"I01" + ext(L+1, L+2, "LAD"), "I01" + ext(L+1, L+2, "LOD"), "I01" + ext(L+1, L+1, "TDS"), "I01" + ext(L+1, L+3, "FXA"),
		"I02" + ext(L+1, L+2, "LAD") + ext(L+3, L+4, "LOD"), "I02" + ext(L+1, L+1, "TDS") + ext(L+4, L+5, "LAD"),
		"I01" + ext(L+2, L+3, "LAD"), "I01" + ext(L+1, L, "LAD"), "I02" + ext(L+1, L+2, "LAD"), "I-1", "I0", "I", "Ixx", "I01" + ext(L+1, L+2, "LA"), "I00",
		// B records
		bLine(m, "110101", "5206343N", "00006198W", "00587", "00558"),
		bLine(m, "100000", "0000001S", "17959999E", "-0012", "09999"),
		bLine(m, "235959", "4530000N", "00730000E", "01000", "01010"),
		bLine(m, "110102", "5260000N", "00060000W", "00587", "00558"),
		bLine(m, "110103", "9000000N", "18000000E", "00000", "10000"),
		bLine(m, "110104", "9100000N", "00006198W", "00587", "00558"),
		bLine(m, "110105", "5206343X", "00006198W", "00587", "00558"),
		bLine(m, "240000", "5206343N", "00006198W", "00587", "00558"),
		bLine(m, "110106", "5206343N", "00006198W", "00587", "00558")[:max(L-1, 1)],
		bLine(m, "110107", "5206343N", "00006198W", "00587", "00558") + "XYZ",
		// other records
		"", "C150785110101", "b110101", "GABCDEF", "LXXXcomment", "\x80\xff",
	}
	return out
}

func c19Openings() [][]string {
	return [][]string{
		{},
		{"AXXX001flight"},
		{"XYZ noise", "AXXX001"},
		{"\x13AFLY01"},
		{"\ufeffAXXX", "HFDTE150785"},
		{"AXXX001", "HFDTE311299", "I02" + "3637LAD" + "3839LOD"},
	}
}

func c19Run(c *engine.Ctx) {
	depth := 3
	if c.Thorough() {
		depth = 4
	}
	c.Note("max_depth_after_opening", depth)
	// (A) conformance DFS
	type node struct {
		lines []string
		depth int
	}
	var roots []node
	for oi, op := range c19Openings() {
		rootDepth := depth
		if oi == 1 && !c.Thorough() {
			rootDepth = depth + 1 // quick: one level deeper after the plain "A record first" opening
		}
		m := ref.NewIGCModel()
		for _, l := range op {
			m.Line(l)
		}
		c19Exec(c, c19Case{Mode: "lines", Lines: op}, nil)
		for _, l := range c19Alphabet(m) {
			roots = append(roots, node{append(append([]string{}, op...), l), rootDepth})
		}
	}
	seen := map[string]struct{}{}
	var mu sync.Mutex
	note := func(k string) {
		mu.Lock()
		seen[k] = struct{}{}
		mu.Unlock()
	}
	c.Parallel(len(roots), func(i int) {
		var rec func(lines []string, d int)
		rec = func(lines []string, d int) {
			if c.Expired() {
				return
			}
			c.Count("transitions", 1)
			c19Exec(c, c19Case{Mode: "lines", Lines: lines, CRLF: len(lines)%2 == 0}, note)
			if d == roots[i].depth {
				return
			}
			m := ref.NewIGCModel()
			for _, l := range lines {
				m.Line(l)
			}
			for _, l := range c19Alphabet(m) {
				rec(append(append([]string{}, lines...), l), d+1)
			}
		}
		rec(roots[i].lines, 1)
	})
	// (B) truncations and single-column substitutions of B records in each extension state
	extStates := [][]string{
		{}, {"I013637LAD"}, {"I023637LAD3839LOD"}, {"I013636TDS"}, {"I033637LAD3839LOD4040TDS"}, {"I013638FXA"},
	}
	subs := []byte{'-', 'x', ' ', 0x80, '0', '9'}
	c.Parallel(len(extStates), func(i int) {
		pre := append([]string{"AXXX001", "HFDTE150785"}, extStates[i]...)
		m := ref.NewIGCModel()
		for _, l := range pre {
			m.Line(l)
		}
		valid := bLine(m, "110101", "5206343N", "00006198W", "00587", "00558")
		after := bLine(m, "110102", "5206344N", "00006199W", "00588", "00559")
		for n := 0; n <= len(valid); n++ {
			c19Exec(c, c19Case{Mode: "lines", Lines: append(append([]string{}, pre...), valid[:n], after)}, note)
			c.Count("b_mutations", 1)
		}
		for col := 0; col < len(valid); col++ {
			for _, ch := range subs {
				if valid[col] == ch {
					continue
				}
				b := []byte(valid)
				b[col] = ch
				c19Exec(c, c19Case{Mode: "lines", Lines: append(append([]string{}, pre...), string(b), after)}, note)
				c.Count("b_mutations", 1)
			}
		}
		// every contiguous run of columns filled with one repeated byte (a blank, padded or dashed
		// field, two neighbouring fields at once), the record at its exact length
		for a := 1; a < len(valid); a++ {
			for e := a + 2; e <= len(valid); e++ {
				for _, ch := range []byte{' ', '-', 'x', '0', '9'} {
					b := []byte(valid)
					for k := a; k < e; k++ {
						b[k] = ch
					}
					c19Exec(c, c19Case{Mode: "lines", Lines: append(append([]string{}, pre...), string(b), after)}, note)
					c.Count("b_run_mutations", 1)
				}
			}
		}
	})
	// (B2) the other record types that carry fields: every truncation, every single-byte deletion,
	// every single-byte substitution and every single-byte insertion (over a 12-byte menu of digits,
	// letters, the separators ',' ':' ' ' '-', and bytes outside ASCII) of date headers in both
	// spellings, other headers and extension tables, followed by a fix
	hMenu := []byte{'0', '9', 'A', 'x', ',', ':', ' ', '-', '.', 0x00, 0x80, 0xff}
	hLines := []string{"HFDTE150785", "HFDTEDATE:150785,01", "HFDTEDATE:290224", "HFPLTPILOTINCHARGE:Jane Doe", "HFFXA035", "I013637LAD", "I023637LAD3839LOD", "I033638FXA3940SIU4143ENL"}
	c.Parallel(len(hLines), func(i int) {
		valid := hLines[i]
		pre := []string{"AXXX001"}
		if valid[0] == 'I' {
			pre = append(pre, "HFDTE150785")
		}
		after := []string{"B1101015206343N00006198WA0058700558123456789", "B1101025206344N00006199WA0058800559123456789"}
		try := func(line string) {
			c.Count("header_mutations", 1)
			c19Exec(c, c19Case{Mode: "lines", Lines: append(append(append([]string{}, pre...), line), after...)}, note)
		}
		for n := 0; n <= len(valid); n++ {
			try(valid[:n])
		}
		for col := 0; col < len(valid); col++ {
			try(valid[:col] + valid[col+1:])
			for _, ch := range hMenu {
				if valid[col] != ch {
					b := []byte(valid)
					b[col] = ch
					try(string(b))
				}
				try(valid[:col] + string([]byte{ch}) + valid[col:])
			}
		}
	})
	// (B2b) extension tables of every width: one extension (each of five codes, TDS and LAD/LOD among
	// them - they refine the time and the position) that starts in column 36 and ends in every
	// column 36..120, and the same behind a two-column extension; followed by a fix that is long
	// enough for it (digits up to column 125), one that is one column short, and a plain one
	for _, code := range []string{"TDS", "LAD", "LOD", "FXA", "ENL"} {
		for stop := 36; stop <= 120; stop++ {
			for _, first := range []string{"", "3637SIU"} {
				start := 36
				n := 1
				if first != "" {
					start, n = 38, 2
					if stop < start {
						continue
					}
				}
				irec := fmt.Sprintf("I%02d%s%02d%02d%s", n, first, start, stop%100, code)
				if stop >= 100 {
					irec = fmt.Sprintf("I%02d%s%02d%d%s", n, first, start, stop, code) // not a valid table: three-digit column
				}
				base := "B1101015206343N00006198WA0058700558"
				long := base + strings.Repeat("7", 125-len(base))
				for _, b := range []string{long, long[:max(stop-1, len(base))], base} {
					c.Count("extension_width_cases", 1)
					c19Exec(c, c19Case{Mode: "lines", Lines: []string{"AXXX001", "HFDTE150785", irec, b, "B1101025206344N00006199WA0058800559" + strings.Repeat("1", 90)}}, note)
				}
			}
		}
	}
	// (B3) over-long records: one line of 65535, 65536, 70000 and 2^20 bytes (a fix with trailing
	// bytes, a comment, bytes that are no record at all) first after the opening, between two fixes
	// and as the last line with and without a final newline - beyond the 64 KiB token limit of a
	// default line scanner. The result is still a track of whole fixes and record errors.
	for _, n := range []int{65535, 65536, 70000, 1 << 20} {
		for _, head := range []string{"B1101035206345N00006200WA0058900560", "LXXX", "\x80"} {
			long := head + strings.Repeat("9", n-len(head))
			fix1, fix2 := "B1101015206343N00006198WA0058700558", "B1101025206344N00006199WA0058800559"
			for _, lines := range [][]string{
				{"AXXX001", "HFDTE150785", long, fix1, fix2},
				{"AXXX001", "HFDTE150785", fix1, long, fix2},
				{"AXXX001", "HFDTE150785", fix1, fix2, long},
				{long},
			} {
				c.Count("over_long_records", 1)
				c19Exec(c, c19Case{Mode: "lines", Lines: lines, CRLF: n%2 == 0}, note)
			}
		}
	}
	c.Count("states", int64(len(seen)))
	// (C) the scanner must not depend on how the reader splits the bytes
	c19Exec(c, c19Case{Mode: "split", Lines: []string{"AXXX001", "HFDTE150785", "I013637LAD", "B1101015206343N00006198WA005870055812", "B1101025206344N00006199WA005880055934", "LXXX"}, CRLF: true}, nil)
	// (D) encoder round trip
	lons := []float64{-180, -179.99999, -0.00001, 0, 0.5, 123.456789, 180}
	lats := []float64{-90, -89.99999, 0, 45.5, 90}
	alts := []float64{-5, 0, 1, 9999, 10000, 20000}
	deltas := []float64{0, 1, 59, 86399, 86400, 86401, 365 * 86400, 366 * 86400, 730 * 86400, 31 * 86400, 28 * 86400}
	starts := []time.Time{
		time.Date(1970, 1, 1, 0, 0, 0, 0, time.UTC), time.Date(1970, 1, 1, 23, 59, 59, 0, time.UTC), time.Date(1985, 7, 15, 11, 1, 1, 0, time.UTC),
		time.Date(1999, 12, 31, 23, 59, 59, 0, time.UTC), time.Date(2000, 1, 1, 0, 0, 0, 0, time.UTC), time.Date(2000, 2, 28, 23, 59, 59, 0, time.UTC),
		time.Date(2024, 2, 29, 12, 0, 0, 0, time.UTC), time.Date(2038, 1, 19, 3, 14, 7, 0, time.UTC), time.Date(2069, 12, 30, 23, 59, 59, 0, time.UTC),
		time.Date(2069, 12, 31, 23, 59, 57, 0, time.UTC), time.Date(1972, 2, 29, 0, 0, 0, 0, time.UTC), time.Date(2001, 9, 9, 1, 46, 40, 0, time.UTC),
	}
	windowEnd := float64(time.Date(2070, 1, 1, 0, 0, 0, 0, time.UTC).Unix())
	var tracks [][][]ref.F
	for _, lon := range lons {
		for _, lat := range lats {
			for ai, alt := range alts {
				st := starts[(ai+int(lon+lat+360))%len(starts)]
				tracks = append(tracks, [][]ref.F{{ref.F(lon), ref.F(lat), ref.F(alt), ref.F(st.Unix())}})
			}
		}
	}
	for si, st := range starts {
		for _, d1 := range deltas {
			t1 := float64(st.Unix())
			if t1+d1 >= windowEnd {
				continue // would leave the two-digit year window
			}
			tracks = append(tracks, [][]ref.F{{ref.F(lons[si%7]), ref.F(lats[si%5]), 100, ref.F(t1)}, {ref.F(lons[(si+1)%7]), ref.F(lats[(si+2)%5]), 200, ref.F(t1 + d1)}})
			for _, d2 := range deltas {
				if t1+d1+d2 >= windowEnd {
					continue
				}
				tracks = append(tracks, [][]ref.F{{1, 2, 100, ref.F(t1)}, {1.5, -2, 200, ref.F(t1 + d1)}, {-3, 4, 300, ref.F(t1 + d1 + d2)}})
			}
		}
	}
	step := 1
	day0 := time.Date(1970, 1, 1, 0, 0, 0, 0, time.UTC)
	last := time.Date(2069, 12, 31, 0, 0, 0, 0, time.UTC)
	ndays := 0
	for d := day0; !d.After(last); d = d.AddDate(0, 0, 1) {
		boundary := d.Day() == 1 || d.AddDate(0, 0, 1).Day() == 1 || (d.Month() == 2 && d.Day() >= 28)
		if ndays%step != 0 && !boundary {
			ndays++
			continue
		}
		ndays++
		u := float64(d.Unix())
		tr := [][]ref.F{{7.5, 46.25, 1000, ref.F(u)}, {7.5001, 46.2501, 1001, ref.F(u + 86399)}}
		if d.Before(last) {
			tr = append(tr, []ref.F{7.5002, 46.2502, 1002, ref.F(u + 86400)}) // across midnight
		}
		if u+366*86400 < windowEnd {
			// the same calendar day (and the same day of the year) one year later
			tr = append(tr, []ref.F{7.5003, 46.2503, 1003, ref.F(float64(d.AddDate(1, 0, 0).Unix()) + 3600)})
			tr = append(tr, []ref.F{7.5004, 46.2504, 1004, ref.F(float64(time.Date(d.Year()+2, 1, 1, 0, 0, 0, 0, time.UTC).AddDate(0, 0, d.YearDay()-1).Unix()) + 7200)})
		}
		// keep only fixes inside the two-digit year window
		var kept [][]ref.F
		for _, f := range tr {
			if float64(f[3]) < windowEnd {
				kept = append(kept, f)
			}
		}
		tracks = append(tracks, kept)
	}
	// a date header is read in the light of the one before it: every leap day of the window reached
	// directly from a day of the preceding (non-leap) year, from the following year's side via a
	// day of the year before the previous leap year, and from 28 February of the same year; and
	// every 31st reached from a 30-day month
	for y := 1972; y <= 2068; y += 4 {
		leap := time.Date(y, 2, 29, 12, 30, 15, 0, time.UTC)
		for _, from := range []time.Time{
			time.Date(y-1, 12, 31, 12, 30, 15, 0, time.UTC), time.Date(y-1, 2, 28, 0, 0, 1, 0, time.UTC),
			time.Date(y-3, 7, 1, 6, 0, 0, 0, time.UTC), time.Date(y, 2, 28, 23, 59, 59, 0, time.UTC), time.Date(y, 1, 1, 0, 0, 0, 0, time.UTC),
		} {
			if from.Year() < 1970 {
				continue
			}
			tracks = append(tracks, [][]ref.F{{7.5, 46.25, 1000, ref.F(from.Unix())}, {7.5001, 46.2501, 1001, ref.F(leap.Unix())}, {7.5002, 46.2502, 1002, ref.F(leap.Unix() + 86400)}})
		}
	}
	for y := 1970; y <= 2069; y += 9 {
		for _, mo := range []time.Month{1, 3, 5, 7, 8, 10, 12} {
			to := time.Date(y, mo, 31, 8, 0, 0, 0, time.UTC)
			from := time.Date(y, mo, 30, 8, 0, 0, 0, time.UTC).AddDate(0, -1, 0)
			if from.Year() < 1970 {
				continue
			}
			tracks = append(tracks, [][]ref.F{{7.5, 46.25, 1000, ref.F(from.Unix())}, {7.5001, 46.2501, 1001, ref.F(to.Unix())}})
		}
	}
	// coordinate lattice: every whole degree of latitude and longitude, each approached from both
	// sides at distances around the resolution 1/60000 degree and its half (where truncation,
	// rounding and carries between the degree and minute fields differ), both hemispheres
	epss := []float64{0, 1.0 / 120001, 1.0 / 119999, 1.0 / 60001, 1.0 / 59999, 1e-7, 1e-9, 3.0 / 120000, 0.5, 59.9995 / 60, 59.99949 / 60}
	u0 := float64(time.Date(2001, 9, 9, 1, 46, 40, 0, time.UTC).Unix())
	for deg := 0; deg <= 180; deg++ {
		var tr [][]ref.F
		for _, e := range epss {
			for _, sgn := range []float64{1, -1} {
				for _, side := range []float64{1, -1} {
					lon := sgn * (float64(deg) + side*e)
					lat := lon
					if math.Abs(lon) > 180 {
						continue
					}
					if math.Abs(lat) > 90 {
						lat = sgn * (float64(deg%91) + side*e)
						if math.Abs(lat) > 90 {
							lat = sgn * 45
						}
					}
					tr = append(tr, []ref.F{ref.F(lon), ref.F(lat), 500, ref.F(u0 + float64(len(tr)))})
				}
			}
		}
		tracks = append(tracks, tr)
	}
	c.Note("tracks", len(tracks))
	c.Parallel(len(tracks), func(i int) {
		c19Exec(c, c19Case{Mode: "track", Track: tracks[i]}, nil)
		// every third track also through an Encoder that has written before (same day / day before)
		if i%3 != 2 {
			c.Count("tracks_through_a_used_encoder", 1)
			c19Exec(c, c19Case{Mode: "track", Track: tracks[i], Prev: 1 + i%3}, nil)
		}
	})
	// the same tracks on a machine whose local time zone is not UTC (+5:45 and -9:30: a zone with
	// minutes shifts the date for some fixes and the minute for all of them)
	savedLocal := time.Local
	for _, zone := range []int{20700, -34200} {
		zone := zone
		time.Local = time.FixedZone("verif", zone)
		c.Parallel(len(tracks), func(i int) {
			c.Count("tracks_in_another_zone", 1)
			c19Exec(c, c19Case{Mode: "track", Track: tracks[i], Zone: zone, Prev: ((i+zone/100)%3 + 3) % 3}, nil)
		})
	}
	time.Local = savedLocal
	c.Count("traces_validated_against_impl", c.Get("evaluations"))
	for _, k := range []string{"sequences_with_fixes", "sequences_with_record_errors", "b_mutations", "split_schedules", "tracks_ok"} {
		if c.Get(k) == 0 {
			c.Warn("vacuous: counter " + k + " is zero")
		}
	}
}

func c19Track(c *engine.Ctx, cs c19Case) {
	// (the run sets time.Local before its parallel phase; a replay sets it here)
	if _, off := time.Unix(0, 0).In(time.Local).Zone(); off != cs.Zone {
		saved := time.Local
		time.Local = time.FixedZone("verif", cs.Zone)
		defer func() { time.Local = saved }()
	}
	n := len(cs.Track)
	flat := make([]float64, 0, 5*n)
	for _, f := range cs.Track {
		flat = append(flat, float64(f[0]), float64(f[1]), float64(f[2]), float64(f[3]), 0)
	}
	t0 := time.Unix(int64(cs.Track[0][3]), 0).UTC()
	fail := func(what, desc string) {
		if cs.Prev != 0 {
			what += "/used-encoder"
		}
		zone := ""
		if cs.Zone != 0 {
			zone = fmt.Sprintf(" with the local time zone %+d s from UTC", cs.Zone)
			what += "/local-zone"
		}
		c.Violate("roundtrip/"+what, fmt.Sprintf("%s; track %v (first fix at %s)%s", desc, cs.Track, t0.Format(time.RFC3339), zone), "c19", cs)
	}
	var buf bytes.Buffer
	var err error
	var back *igc.T
	if p, _ := engine.Guard(func() {
		enc := igc.NewEncoder(&buf, igc.A("XXX001"))
		if cs.Prev != 0 {
			first := append([]float64{}, flat[:5]...)
			if cs.Prev == 2 {
				first[3] -= 86400
			}
			_ = enc.Encode(geom.NewLineStringFlat(geom.Layout(5), first))
			buf.Reset()
		}
		err = enc.Encode(geom.NewLineStringFlat(geom.Layout(5), flat))
	}); p != nil {
		fail("encode-panic", fmt.Sprintf("panic %v", p))
		return
	}
	if err != nil {
		fail("encode-error", err.Error())
		return
	}
	text := buf.String()
	if p, _ := engine.Guard(func() { back, err = igc.Read(strings.NewReader(text)) }); p != nil {
		fail("decode-panic", fmt.Sprintf("panic %v on %q", p, text))
		return
	}
	fc := back.LineString.FlatCoords()
	if len(fc)/5 != n {
		what := "fix-count"
		for _, f := range cs.Track {
			if math.Abs(float64(f[1])) == 90 {
				what = "fix-count/latitude-90"
			}
			if math.Abs(float64(f[0])) == 180 {
				what = "fix-count/longitude-180"
			}
		}
		fail(what, fmt.Sprintf("%d fixes written, %d read back (errors: %v); file %q", n, len(fc)/5, err, text))
		return
	}
	res := 1.0/60000 + 1e-12
	for i, f := range cs.Track {
		got := fc[5*i : 5*i+5]
		if math.Abs(got[0]-float64(f[0])) > res || math.Abs(got[1]-float64(f[1])) > res {
			fail("position", fmt.Sprintf("fix %d read back at (%v,%v), written (%v,%v)", i, got[0], got[1], f[0], f[1]))
			return
		}
		if math.Abs(got[3]-float64(f[3])) > 1e-3 {
			wt := time.Unix(int64(f[3]), 0).UTC()
			gt := time.Unix(int64(got[3]), 0).UTC()
			what := "time"
			if wt.Year() < 2000 && gt.Year()-wt.Year() == 70 {
				what = "time/year-window"
			}
			fail(what, fmt.Sprintf("fix %d read back at %s, written %s", i, gt.Format(time.RFC3339), wt.Format(time.RFC3339)))
			return
		}
		alt := math.Max(0, math.Min(10000, math.Trunc(float64(f[2]))))
		if got[2] != alt || got[4] != alt {
			fail("altitude", fmt.Sprintf("fix %d altitudes %v/%v, want %v", i, got[2], got[4], alt))
			return
		}
	}
	c.Count("tracks_ok", 1)
	c.DistinctStr(text)
	c.Sample("track", 2, map[string]any{"track": cs.Track, "file": text})
}
