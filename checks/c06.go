package checks

import (
	"encoding/json"
	"errors"
	"fmt"
	"os"
	"regexp"
	"strconv"
	"strings"
	"time"
	"unicode/utf8"

	"github.com/twpayne/go-geom"
	"github.com/twpayne/go-geom/encoding/wkt"

	"verif/engine"
	"verif/ref"
)

// C06 — WKT parser is total and accepts only consistent geometries.
// Stateless tree search over token sequences with sound prefix pruning.

type c06Case struct {
	Text string `json:"text"`
	Diff bool   `json:"differential"` // compare accept/reject and result with the reference reader
}

// MarshalJSON / UnmarshalJSON: a text that is not valid UTF-8 cannot travel through a JSON string
// (encoding/json replaces the offending bytes); it is stored as bytes instead.
func (cs c06Case) MarshalJSON() ([]byte, error) {
	type wire struct {
		Text  string `json:"text,omitempty"`
		Bytes []byte `json:"text_bytes,omitempty"`
		Diff  bool   `json:"differential"`
	}
	if utf8.ValidString(cs.Text) {
		return json.Marshal(wire{Text: cs.Text, Diff: cs.Diff})
	}
	return json.Marshal(wire{Bytes: []byte(cs.Text), Diff: cs.Diff})
}

func (cs *c06Case) UnmarshalJSON(b []byte) error {
	var w struct {
		Text  string `json:"text"`
		Bytes []byte `json:"text_bytes"`
		Diff  bool   `json:"differential"`
	}
	if err := json.Unmarshal(b, &w); err != nil {
		return err
	}
	cs.Text, cs.Diff = w.Text, w.Diff
	if w.Bytes != nil {
		cs.Text = string(w.Bytes)
	}
	return nil
}

func init() {
	engine.Register(&engine.Check{
		ID: "C06", Level: "model_checking",
		Rule:   "tree of ALL token sequences, complete to the stated depth in three tiers: (i) full alphabet (28 type keywords, EMPTY, '(' ')' ',', coordinate tokens of arity 1..5) to depth 9 (quick) / 10 (thorough); (ii) reduced alphabet {POINT,MULTIPOINT,MULTIPOLYGON,GEOMETRYCOLLECTION} x {base,Z,M,ZM} + EMPTY ( ) , + 8 coordinate tokens (two values per arity 2..4 so that unclosed rings and Z/M-only differences occur) to depth 11 / 13; (iii) tiny alphabet {GC, GC M, GC Z, POINT, POINT M, POINT Z, EMPTY ( ) , arity 2, 3} to depth 16 / 19; (iv) ring alphabet {POLYGON} x {base,Z,M,ZM} + EMPTY ( ) , + 11 coordinate tokens (arity 2..4, values differing in X/Y, in Z only, in M only, by one ulp in X and in Z) to depth 14 / 16 (rings of up to 5 / 6 positions in every layout). A prefix is extended unless the parse failed strictly before its last token (or at the last token and no continuation can re-lex it) - sound for an LALR(1) parser; every explored sequence is parsed by wkt.Unmarshal (no panic; error renders with a position inside the input; accepted => well-formed, one layout, lines >=2, rings closed >=4, re-encode round trip) and compared with the independent reference reader (same geometry when both accept; a text the reference accepts must be accepted; a text the reference rejects for a reason the property names - dimensionality, arity, line and ring rules - must be rejected). Plus a numeric-literal lattice (3 signs x 17 mantissas x 16 exponent forms in three positions), every tier-(iii) sequence of <=5 (thorough 6) tokens re-rendered with four whitespace styles (verdict must not change; errors on later lines / far into a line must render), every single-token deletion/substitution/transposition of every valid corpus text, every byte string of length <=4 (quick) / <=5 (thorough) over a 20-byte alphabet, and ~150000 strings made of two runs (lengths 0..64 around the renderer's 30-column window) of blanks, letters, UTF-8 continuation bytes, bytes the lexer treats as blanks, and 2-, 3- and 4-byte characters, on a first or second line, before five tails. states = explored sequences (viable prefixes + leaves) Also: digit strings of 1..25 digits, the int64/uint64 limits and their neighbours as numeric literals. Round 7: whitespace re-renderings with CRLF and a lone CR before far columns, long-run strings after a CRLF line. Round 10: every corpus text also unmutated; separators with blank lines before far columns. Round 12: every error rendered twice (same text).",
		Run:    c06Run,
		Replay: func(c *engine.Ctx, kind string, raw json.RawMessage) { c06Exec(c, decodeCase[c06Case](raw)) },
		Assumptions: []string{
			"Error positions are read from the rendered message of *wkt.SyntaxError (line/pos); an error that is not a SyntaxError is treated as not locatable and its prefix is extended",
			"The differential reference (ref.ParseWKT) implements the documented dimensionality conventions",
		},
	})
}

var posRe = regexp.MustCompile(` at line (\d+), pos (\d+)$`)

type c06Outcome struct {
	accepted bool
	errPos   int // byte offset of the token at which parsing failed; -1 unknown
	located  bool
}

// c06Exec parses one text and applies every oracle. Returns the outcome for the explorer.
func c06Exec(c *engine.Ctx, cs c06Case) c06Outcome {
	text := cs.Text
	fail := func(what, desc string) { c.Violate("wkt/"+what, fmt.Sprintf("%s; input %q", desc, text), "c06", cs) }
	var g geom.T
	var err error
	if p, stack := engine.Guard(func() { g, err = wkt.Unmarshal(text) }); p != nil {
		fail("panic/"+classify(fmt.Sprint(p)), fmt.Sprintf("Unmarshal panicked: %v\n%s", p, firstLines(stack, 16)))
		return c06Outcome{errPos: -1}
	}
	out := c06Outcome{errPos: -1}
	if err != nil {
		var msg string
		if p, _ := engine.Guard(func() { msg = err.Error() }); p != nil {
			fail("error-render-panic", fmt.Sprintf("Error() panicked: %v", p))
			return out
		}
		// an error value is rendered as often as its holder likes (logged, wrapped, compared):
		// the second rendering is the first one again
		var msg2 string
		if p, _ := engine.Guard(func() { msg2 = err.Error() }); p != nil || msg2 != msg {
			fail("error-render-twice", fmt.Sprintf("Error() called a second time on the same error: panic=%v, message %q, the first time %q", p, clipStr(msg2, 300), clipStr(msg, 300)))
			return out
		}
		var se *wkt.SyntaxError
		if errors.As(err, &se) {
			first := msg
			if i := strings.IndexByte(msg, '\n'); i >= 0 {
				first = msg[:i]
			}
			m := posRe.FindStringSubmatch(first)
			if m == nil {
				fail("error-no-position", "syntax error message carries no position: "+first)
				return out
			}
			line, _ := strconv.Atoi(m[1])
			pos, _ := strconv.Atoi(m[2])
			lines := strings.Split(text, "\n")
			if line < 1 || line > len(lines) || pos < 0 || pos > len(lines[line-1]) {
				fail("error-position-outside", fmt.Sprintf("position line %d pos %d is outside the input", line, pos))
				return out
			}
			if line == 1 {
				out.errPos, out.located = pos, true
			}
		}
		c.Count("rejected", 1)
	} else {
		out.accepted = true
		if g == nil {
			fail("nil-result", "nil geometry without error")
			return out
		}
		if werr := ref.WellFormed(g); werr != nil {
			fail("ill-formed", werr.Error())
			return out
		}
		m, oerr := ref.Observe(g)
		if oerr != nil {
			fail("unobservable", oerr.Error())
			return out
		}
		if d := c06Consistent(m, m.Layout); d != "" {
			fail("inconsistent/"+classify(d), d+" result="+m.String())
			return out
		}
		// re-encode and parse again
		var s2 string
		var g2 geom.T
		var err2 error
		if p, _ := engine.Guard(func() {
			s2, err2 = wkt.Marshal(g)
			if err2 == nil {
				g2, err2 = wkt.Unmarshal(s2)
			}
		}); p != nil {
			fail("reencode-panic", fmt.Sprintf("re-encode panicked: %v", p))
			return out
		}
		if err2 != nil {
			fail("reencode-error", fmt.Sprintf("re-encoding %q failed: %v", s2, err2))
			return out
		}
		if d := observeEq(g2, m, ref.EqualOpt{}); d != "" {
			fail("reencode-unequal", fmt.Sprintf("re-encoded as %q: %s", s2, d))
			return out
		}
		c.Count("accepted", 1)
		c.DistinctStr(text)
		c.Sample("accepted", 4, text)
	}
	if cs.Diff {
		rg, rerr := ref.ParseWKT(text)
		switch {
		case rerr != nil && err == nil:
			// The property names what must be REJECTED: inconsistent dimensionality, one-point lines,
			// short or unclosed rings, points of a wrong arity. A text the reference turns down for
			// one of those reasons and the library accepts is a violation. A text the reference
			// turns down for its syntax alone (an extra token, a spelling outside the standard
			// grammar) may be accepted by a more liberal parser: the property does not forbid that,
			// and the accepted geometry has passed the consistency and re-encoding checks above.
			if c06SemanticReason(rerr.Error()) {
				fail("accepts-what-reference-rejects", fmt.Sprintf("library: accepted; reference: %v", rerr))
			} else {
				c.Count("accepted_beyond_reference_grammar", 1)
			}
		case rerr == nil && err != nil:
			fail("rejects-what-reference-accepts", fmt.Sprintf("library: %v; reference: accepted", firstLine(err)))
		case err == nil:
			if d := observeEq(g, rg, ref.EqualOpt{}); d != "" {
				fail("differs-from-reference", d)
			}
		}
	}
	return out
}

// c06SemanticReason: the reference reader's reasons that restate the property's rejection rules
// (as opposed to plain syntax errors).
func c06SemanticReason(msg string) bool {
	for _, k := range []string{"point with", "mixed dimensionality", "linestring with one point", "ring with fewer", "ring not closed", "EMPTY is XY", "collection without a layout", "member layout differs", "M variant required", "base type in an M collection"} {
		if strings.Contains(msg, k) {
			return true
		}
	}
	return false
}

func firstLine(err error) string {
	if err == nil {
		return "accepted"
	}
	s := err.Error()
	if i := strings.IndexByte(s, '\n'); i >= 0 {
		s = s[:i]
	}
	return s
}

// c06Consistent checks: one layout throughout, lines >= 2 points, rings closed with >= 4 points.
func c06Consistent(m *ref.G, layout geom.Layout) string {
	if m.Layout != layout {
		return fmt.Sprintf("mixed dimensionality: member layout %v inside %v", m.Layout, layout)
	}
	if layout < geom.XY || layout > geom.XYZM {
		return fmt.Sprintf("layout %v", layout)
	}
	ring := func(r []ref.C) string {
		if len(r) < 4 {
			return "ring with fewer than 4 points"
		}
		dims := 2
		if layout.ZIndex() >= 0 {
			dims = 3
		}
		for i := 0; i < dims; i++ {
			if float64(r[0][i]) != float64(r[len(r)-1][i]) {
				return "unclosed ring"
			}
		}
		return ""
	}
	switch m.Kind {
	case ref.LineString:
		if len(m.C1) == 1 {
			return "one-point linestring"
		}
	case ref.Polygon:
		for _, r := range m.C2 {
			if d := ring(r); d != "" {
				return d
			}
		}
	case ref.MultiLineString:
		for _, l := range m.C2 {
			if len(l) == 1 {
				return "one-point linestring"
			}
		}
	case ref.MultiPolygon:
		for _, p := range m.C3 {
			for _, r := range p {
				if d := ring(r); d != "" {
					return d
				}
			}
		}
	case ref.Collection:
		for _, k := range m.Kids {
			if d := c06Consistent(k, layout); d != "" {
				return d
			}
		}
	}
	return ""
}

type c06Tok struct {
	text    string
	keyword bool // non-EMPTY type keyword (the lexer may glue a following Z/M onto it)
	coord   bool
}

func c06Alphabet(tier int) []c06Tok {
	var out []c06Tok
	kw := func(names []string, suffixes []string) {
		for _, n := range names {
			for _, s := range suffixes {
				out = append(out, c06Tok{text: n + s, keyword: true})
			}
		}
	}
	punct := func() {
		out = append(out, c06Tok{text: "EMPTY"}, c06Tok{text: "("}, c06Tok{text: ")"}, c06Tok{text: ","})
	}
	switch tier {
	case 1:
		kw([]string{"POINT", "LINESTRING", "POLYGON", "MULTIPOINT", "MULTILINESTRING", "MULTIPOLYGON", "GEOMETRYCOLLECTION"}, []string{"", "Z", "M", "ZM"})
		punct()
		for _, t := range []string{"1", "1 2", "1 2 3", "1 2 3 4", "1 2 3 4 5"} {
			out = append(out, c06Tok{text: t, coord: true})
		}
	case 2:
		kw([]string{"POINT", "MULTIPOINT", "MULTIPOLYGON", "GEOMETRYCOLLECTION"}, []string{"", "Z", "M", "ZM"})
		punct()
		for _, t := range []string{"1", "1 2", "3 4", "1 2 3", "1 2 9", "1 2 3 4", "1 2 3 9", "1 2 3 4 5"} {
			out = append(out, c06Tok{text: t, coord: true})
		}
	case 4:
		// rings: closure and minimum length depend on the layout (which ordinates take part in
		// the closure test, how many numbers four points are)
		kw([]string{"POLYGON"}, []string{"", "Z", "M", "ZM"})
		punct()
		// "1.0000000000000002 2" and "1 2 3.0000000000000004" are one ulp away from "1 2" / "1 2 3":
		// a ring that returns to within an ulp of its start is not closed
		for _, t := range []string{"1 2", "3 4", "1.0000000000000002 2", "1 2 3", "1 2 9", "3 4 3", "1 2 3.0000000000000004", "1 2 3 4", "1 2 3 9", "1 2 9 4", "3 4 3 4"} {
			out = append(out, c06Tok{text: t, coord: true})
		}
	case 3:
		kw([]string{"GEOMETRYCOLLECTION", "POINT"}, []string{"", "M", "Z"})
		punct()
		for _, t := range []string{"1 2", "1 2 3"} {
			out = append(out, c06Tok{text: t, coord: true})
		}
	}
	return out
}

type c06Node struct {
	seq    []int
	text   string
	starts []int
}

type c06Search struct {
	c        *engine.Ctx
	alpha    []c06Tok
	maxDepth int
	// collectAt > 0: children at this depth are handed to collect instead of being explored
	collectAt int
	collect   func(n c06Node)
	states    *int64
	trans     *int64
	viable    *int64
}

// explore visits the node seq (already rendered as text with token start offsets).
func (s *c06Search) explore(seq []int, text string, starts []int) {
	if s.c.Expired() {
		return
	}
	inc(s.states)
	out := c06Exec(s.c, c06Case{Text: text, Diff: true})
	s.c.Count("evaluations", 1)
	if len(seq) >= s.maxDepth || out.accepted {
		return
	}
	// Which children can behave differently from this node?
	restrictToGlue := false
	if out.located {
		// index of the token containing the error position
		idx := len(seq) // EOF
		for i := range starts {
			end := len(text)
			if i+1 < len(starts) {
				end = starts[i+1]
			}
			if out.errPos >= starts[i] && out.errPos < end {
				idx = i
				break
			}
		}
		if out.errPos >= len(text) {
			idx = len(seq)
		}
		switch {
		case idx < len(seq)-1:
			return // failed strictly before the last token: every extension fails identically
		case idx == len(seq)-1:
			if len(seq) > 0 && s.alpha[seq[len(seq)-1]].keyword {
				restrictToGlue = true // only a following Z…/M… token can re-lex the last keyword
			} else {
				return
			}
		}
	}
	inc(s.viable)
	lastCoord := len(seq) > 0 && s.alpha[seq[len(seq)-1]].coord
	for ti, t := range s.alpha {
		if lastCoord && t.coord {
			continue // adjacent coordinate tokens are the same string as one longer coordinate token
		}
		if restrictToGlue && !(strings.HasPrefix(t.text, "M") || strings.HasPrefix(t.text, "Z")) {
			continue
		}
		inc(s.trans)
		nt := text
		st := len(text)
		if len(seq) > 0 {
			nt += " "
			st++
		}
		nt += t.text
		if s.collectAt > 0 && len(seq)+1 == s.collectAt {
			s.collect(c06Node{append(append([]int{}, seq...), ti), nt, append(append([]int{}, starts...), st)})
			continue
		}
		s.explore(append(seq, ti), nt, append(starts, st))
	}
}

func c06Run(c *engine.Ctx) {
	depths := map[int]int{1: 9, 2: 11, 3: 16, 4: 14}
	if c.Thorough() {
		depths = map[int]int{1: 10, 2: 13, 3: 19, 4: 16}
	}
	c.Note("tier_depths", depths)
	for tier := 1; tier <= 4; tier++ {
		alpha := c06Alphabet(tier)
		s := &c06Search{c: c, alpha: alpha, maxDepth: depths[tier],
			states: c.Counter("states"), trans: c.Counter("transitions"), viable: c.Counter("viable_prefixes")}
		// explore depths 1..4 sequentially, collecting the depth-5 children of viable prefixes,
		// then deal those subtrees to the worker pool
		var nodes []c06Node
		s.collectAt = map[int]int{1: 5, 2: 7, 3: 10, 4: 7}[tier]
		s.collect = func(n c06Node) { nodes = append(nodes, n) }
		for i, a := range alpha {
			s.explore([]int{i}, a.text, []int{0})
		}
		s.collectAt = 0
		t0 := time.Now()
		c.Parallel(len(nodes), func(i int) { s.explore(nodes[i].seq, nodes[i].text, nodes[i].starts) })
		fmt.Fprintf(os.Stderr, "[C06] tier %d: %d subtrees, parallel phase %.1fs\n", tier, len(nodes), time.Since(t0).Seconds())
		c.Note(fmt.Sprintf("tier%d_alphabet", tier), len(alpha))
		c.Note(fmt.Sprintf("tier%d_states_cumulative", tier), c.Get("states"))
		if c.Expired() {
			c.SetCapped(fmt.Sprintf("tier %d interrupted by the deadline", tier))
			break
		}
	}
	// mutations of valid texts
	corpus := wktCorpus(0)
	alpha := c06Alphabet(1)
	c.Parallel(len(corpus), func(i int) {
		g := corpus[i]
		toks := wktWords(ref.WriteWKT(g, ref.WKTStyle{}))
		render := func(ts []string) string { return strings.Join(ts, " ") }
		try := func(ts []string) {
			c06Exec(c, c06Case{Text: render(ts), Diff: true})
			c.Count("evaluations", 1)
			c.Count("mutations", 1)
		}
		try(toks) // every corpus text as it is (accepted: well formed, same geometry as the reference reader)
		if len(g.Kids) > 1 || (g.Kind == ref.MultiPolygon && len(g.C3) > 2) {
			return // the larger ones are not mutated
		}
		for p := range toks {
			del := append(append([]string{}, toks[:p]...), toks[p+1:]...)
			try(del)
			for _, a := range alpha {
				sub := append([]string{}, toks...)
				sub[p] = a.text
				try(sub)
			}
			if p+1 < len(toks) {
				sw := append([]string{}, toks...)
				sw[p], sw[p+1] = sw[p+1], sw[p]
				try(sw)
			}
		}
	})
	// long runs of one byte followed by a run of another, far into a first or second line, before
	// various tails: the error renderer cuts a window of the line around the error position and
	// must cope with whatever the window starts and ends in (continuation bytes, bytes that the
	// lexer treats as blanks, multi-byte characters)
	runBytes := []string{" ", "x", "\x80", "\x85", "\xa0", "\xbf", "\xc3", "\xc3\xa9", "\xe2\x82\xac", "\xf0\x9f\x98\x80", "\xff"}
	runLens := []int{0, 1, 29, 30, 31, 41, 42, 43, 64}
	tails := []string{"", "x", "POINT (", ")", "POINT (1 2)"}
	type runJob struct{ b1, b2 string }
	var runJobs []runJob
	for _, b1 := range runBytes {
		for _, b2 := range runBytes {
			runJobs = append(runJobs, runJob{b1, b2})
		}
	}
	c.Parallel(len(runJobs), func(i int) {
		for _, n1 := range runLens {
			for _, n2 := range runLens {
				for _, tail := range tails {
					for _, pre := range []string{"", "POINT (1 2)\n", "POINT (1 2) ", "POINT (1 2)\r\n"} {
						c06Exec(c, c06Case{Text: pre + strings.Repeat(runJobs[i].b1, n1) + strings.Repeat(runJobs[i].b2, n2) + tail})
						c.Count("evaluations", 1)
						c.Count("long_run_strings", 1)
					}
				}
			}
		}
	})
	// byte strings
	bytesAlpha := []string{"0", "1", ".", "-", "+", "e", "E", "(", ")", ",", " ", "\n", "\t", "P", "Z", "M", "\xc3\xa9", "\x80", "\xff", "\x00"}
	maxLen := 4
	if c.Thorough() {
		maxLen = 5
	}
	c.Note("byte_string_max_len", maxLen)
	var first []string
	for _, a := range bytesAlpha {
		for _, b := range bytesAlpha {
			first = append(first, a+b)
		}
	}
	for _, a := range bytesAlpha {
		c06Exec(c, c06Case{Text: a})
		c.Count("evaluations", 1)
	}
	c.Parallel(len(first), func(i int) {
		var rec func(s string, n int)
		rec = func(s string, n int) {
			c06Exec(c, c06Case{Text: s})
			c.Count("evaluations", 1)
			c.Count("byte_strings", 1)
			if n == maxLen {
				return
			}
			for _, a := range bytesAlpha {
				rec(s+a, n+1)
			}
		}
		rec(first[i], 2)
	})
	// numeric literals: every combination of sign x mantissa x exponent forms, in two positions
	var lits []string
	for _, sign := range []string{"", "-", "+"} {
		for _, mant := range []string{"0", "1", "1.", ".5", "1.5", "00", "01", "1.797693134862315", "1.7976931348623159", "4", "9.999", "1e", "1_0", "0x1", "", ".", "1.2.3"} {
			for _, exp := range []string{"", "e0", "E5", "e+5", "e-5", "e308", "e309", "e999", "E+400", "e-323", "e-324", "e-400", "e", "e+", "e1e1", "e1.5"} {
				lits = append(lits, sign+mant+exp)
			}
		}
	}
	lits = append(lits, "Inf", "inf", "NaN", "nan", "Infinity", "+Inf", "-Inf", "1e1000000000000000000000", "123456789012345678901234567890", "0.000000000000000000000000000000000000000000001")
	// plain digit strings of 1..25 digits (all nines, a one followed by zeros, 95..., 12345...),
	// the int64/uint64 limits and their neighbours, and decimal fractions of 1..25 digits: a fast
	// path for "simple" literals ends somewhere in this range
	for n := 1; n <= 25; n++ {
		lits = append(lits, strings.Repeat("9", n), "1"+strings.Repeat("0", n-1), "95"+strings.Repeat("0", n-1), ("1234567890123456789012345")[:n],
			"0."+strings.Repeat("0", n-1)+"1", "0."+strings.Repeat("9", n), "1."+("2345678901234567890123456")[:n], "-"+strings.Repeat("9", n), "-95"+strings.Repeat("0", n-1))
	}
	lits = append(lits, "9223372036854775806", "9223372036854775807", "9223372036854775808", "9223372036854775809", "-9223372036854775808", "-9223372036854775809",
		"18446744073709551615", "18446744073709551616", "9007199254740992", "9007199254740993", "9500000000000000000", "4611686018427387904")
	c.Note("numeric_literals", len(lits))
	c.Parallel(len(lits), func(i int) {
		for _, tpl := range []string{"POINT(%s 2)", "LINESTRING(1 2,3 %s)", "POINT Z(1 2 %s)"} {
			c06Exec(c, c06Case{Text: fmt.Sprintf(tpl, lits[i]), Diff: true})
			c.Count("evaluations", 1)
			c.Count("numeric_literal_cases", 1)
		}
	})
	// every accepted or rejected tier-3 sequence up to depth 7 rendered with other whitespace: the
	// verdict must not change, and error messages must render for errors on later lines and far
	// into a line
	{
		alpha3 := c06Alphabet(3)
		seps := []string{"\n", strings.Repeat(" ", 37), "\n" + strings.Repeat(" ", 45), "\t\r\n", "\r\n" + strings.Repeat(" ", 45), "\r" + strings.Repeat(" ", 33), "\n\n" + strings.Repeat(" ", 45), "\n \t\n\n" + strings.Repeat(" ", 33)}
		var rec func(seq []string, d int)
		rec = func(seq []string, d int) {
			if len(seq) > 0 {
				canon := strings.Join(seq, " ")
				_, cerr := wkt.Unmarshal(canon)
				for si, sep := range seps {
					text := strings.Repeat("\n", si) + strings.Repeat(" ", 40*(si%2)) + strings.Join(seq, sep)
					out := c06Exec(c, c06Case{Text: text})
					c.Count("evaluations", 1)
					c.Count("whitespace_renderings", 1)
					if out.accepted != (cerr == nil) {
						c.Violate("wkt/whitespace-changes-verdict", fmt.Sprintf("%q accepted=%v but %q accepted=%v", canon, cerr == nil, text, out.accepted), "c06", c06Case{Text: text})
					}
				}
			}
			if d == 0 {
				return
			}
			lastCoord := len(seq) > 0 && strings.ContainsAny(seq[len(seq)-1][:1], "0123456789")
			for _, t := range alpha3 {
				if lastCoord && t.coord {
					continue
				}
				rec(append(append([]string{}, seq...), t.text), d-1)
			}
		}
		var firsts []string
		for _, t := range alpha3 {
			firsts = append(firsts, t.text)
		}
		depthWS := 4
		if c.Thorough() {
			depthWS = 5
		}
		c.Parallel(len(firsts), func(i int) { rec([]string{firsts[i]}, depthWS) })
	}
	// valid keywords embedded in hostile bytes: position arithmetic of the error renderer
	for _, pre := range []string{"", "\n", "\n\n  ", strings.Repeat(" ", 40), strings.Repeat("\t", 35), "\xff\n"} {
		for _, body := range []string{"POINT(1 2", "POINT(1 2)x", "POINT(1 2))", "POINT (1 2 3 4 5)", "LINESTRING(1 2)", "POLYGON((1 2,3 4,5 6,7 8))", "GEOMETRYCOLLECTION M (POINT (1 2 3))"} {
			for _, post := range []string{"", "\n", strings.Repeat("x", 70), "\n" + strings.Repeat(" ", 70)} {
				c06Exec(c, c06Case{Text: pre + body + post})
				c.Count("evaluations", 1)
			}
		}
	}
	c.Count("traces_validated_against_impl", c.Get("evaluations"))
	if c.Get("accepted") == 0 || c.Get("rejected") == 0 {
		c.Warn("vacuous: accepted or rejected count is zero")
	}
}

// wktWords splits a canonical WKT text into the explorer's token texts (coordinates stay
// separate numbers here; substitution works token by token).
func wktWords(s string) []string {
	var out []string
	cur := ""
	flush := func() {
		if cur != "" {
			out = append(out, cur)
			cur = ""
		}
	}
	for i := 0; i < len(s); i++ {
		ch := s[i]
		switch ch {
		case ' ':
			flush()
		case '(', ')', ',':
			flush()
			out = append(out, string(ch))
		default:
			cur += string(ch)
		}
	}
	flush()
	return out
}
