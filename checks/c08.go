package checks

import (
	"encoding/json"
	"fmt"
	"math"
	"math/big"
	"sort"
	"strconv"
	"strings"
	"sync"

	"github.com/twpayne/go-geom"
	"github.com/twpayne/go-geom/encoding/geojson"

	"verif/engine"
	"verif/ref"
)

// C08 — bounds are the tight per-dimension box for every geometry and layout mix.

type c08Case struct {
	Mode  string      `json:"mode"` // geom | extend | overlaps | overlaps-narrow | written-bbox
	G     *ref.G      `json:"g,omitempty"`
	Start geom.Layout `json:"start,omitempty"`
	Ops   []int       `json:"ops,omitempty"`
	// extend: how the start box is made: 0 NewBounds(l); 1 NewBounds(l).SetCoords(min,max);
	// 2 NewBounds(l).Set(min..., max...) - both with an interval [-500-i, 500+i] in dimension i
	Init   int         `json:"init,omitempty"`
	Beyond int         `json:"set_beyond_layout,omitempty"` // overlaps: see c08Exec
	Alpha  string      `json:"alpha,omitempty"`             // extend: "" = the layout-mix alphabet, "inf" = one-point geometries with infinite ordinates
	BoxA   []ref.F     `json:"box_a,omitempty"`
	BoxB   []ref.F     `json:"box_b,omitempty"`
	Layout geom.Layout `json:"layout,omitempty"`
	// overlaps-narrow: the boxes have layouts LA / LB (wider than the query layout Layout)
	LA geom.Layout `json:"layout_a,omitempty"`
	LB geom.Layout `json:"layout_b,omitempty"`
}

// c08LiveQuery: Bounds() of the live object against the fold over the model as it is now. The
// returned box belongs to the caller: it is extended here, which must not show in a later answer.
func c08LiveQuery(t geom.T, m *ref.G, final bool) string {
	b := t.Bounds()
	if !final {
		if b.Layout() != geom.NoLayout {
			far := make([]float64, b.Layout().Stride())
			for i := range far {
				far[i] = 1e9 + float64(i)
			}
			b.Extend(geom.NewPointFlat(b.Layout(), far))
		}
		return ""
	}
	acc := dimAcc{}
	foldModel(m, acc)
	if d := compareBounds(b, acc); d != "" {
		return "Bounds() does not match the current coordinates: " + d
	}
	return isEmptyOracle(b, acc)
}

func init() {
	engine.Register(&engine.Check{
		ID: "C08", Level: "model_checking",
		Rule: "(a) every geometry of U (6 layouts, non-monotonic values; plus every {finite,+Inf,-Inf} assignment to one dimension of 3-coordinate lines and multipoints) and every collection of 0..3 members over an 8-member menu (mixed layouts, empty members, nested and empty nested collections; collections with a SetLayout-fixed layout over nested collections that mix lower layouts): Bounds() per semantic dimension vs reference fold, IsEmpty, Bounds.Polygon, GeoJSON bbox; (b) BFS over Extend histories (depth <=4 quick, <=5 thorough) from NewBounds(l), l in {NoLayout,XY,XYZ,XYM,XYZM}, as is or filled through SetCoords / Set, alphabet = 1-point, 2-point and empty geometry per layout, and a second alphabet of one-point geometries with +Inf/-Inf ordinates: state = (layout, min bits, max bits); every state compared per semantic dimension with the fold over the multiset and with every other history reaching the same multiset; (c) Overlaps/OverlapsPoint on all pairs of boxes with interval endpoints in {0..3} (2D) / {0..2} (3D) incl. empty intervals vs closed-interval arithmetic Also: overlap queries in a narrower layout than the boxes (extra dimensions holding an interval or nothing), and every query / in-place change / query history of length <=3 (thorough 4) on live geometries and collections (members edited or pushed into after the collection was asked for its bounds; the returned box extended by the caller). Round 7: collection members without coordinates that bring a dimension of their own (GeoJSON bbox compared whenever every dimension it carries has data); rings, lines and polygon rings closed in X,Y only whose closing coordinate holds the extreme of an extra dimension. Round 8: Extend histories over a third alphabet of Point-typed geometries with interleaved Z and M values; Bounds() unchanged by SetSRID. Round 9: every pair of 3-D boxes again with one or both boxes created for XY / no layout and Set beyond it. Round 10: intervals with infinite ends in the overlap families. Round 11: bbox together with a digits limit - for d in 0..6 and m in [-130,130] the decimal tie (m+1/2)*10^-d and its +-1,+-2 ulp neighbours as extreme ordinates: the box as written equals the min/max of the coordinates as written.",
		Run:  c08Run,
		Replay: func(c *engine.Ctx, kind string, raw json.RawMessage) {
			if kind == "c08-history" {
				replayLive(c, kind, "history", decodeCase[liveCase](raw), c08LiveQuery)
				return
			}
			c08Exec(c, decodeCase[c08Case](raw), nil)
		},
		Assumptions: []string{
			"No NaN ordinates (per the quantifier); Layout(n>4) only for single geometries, not in Extend mixes",
			"The result layout of Extend is not prescribed; only that every dimension that received data is present, located through ZIndex/MIndex",
		},
	})
}

// dims is the semantic-dimension accumulator: key "x","y","z","m","e4","e5",…
type dimAcc map[string][2]float64

func (d dimAcc) add(k string, v float64) {
	cur, ok := d[k]
	if !ok {
		cur = [2]float64{math.Inf(1), math.Inf(-1)}
	}
	cur[0] = math.Min(cur[0], v)
	cur[1] = math.Max(cur[1], v)
	d[k] = cur
}

func dimName(l geom.Layout, i int) string {
	switch {
	case i == 0:
		return "x"
	case i == 1:
		return "y"
	case i == l.ZIndex():
		return "z"
	case i == l.MIndex():
		return "m"
	}
	return fmt.Sprintf("e%d", i)
}

func foldModel(g *ref.G, acc dimAcc) {
	if g.Kind == ref.Collection {
		for _, k := range g.Kids {
			foldModel(k, acc)
		}
		return
	}
	addC := func(c ref.C) {
		for i, v := range c {
			acc.add(dimName(g.Layout, i), float64(v))
		}
	}
	addC(g.C0)
	for _, c := range g.C1 {
		addC(c)
	}
	for _, p := range g.C2 {
		for _, c := range p {
			addC(c)
		}
	}
	for _, pp := range g.C3 {
		for _, p := range pp {
			for _, c := range p {
				addC(c)
			}
		}
	}
}

// compareBounds checks b against the accumulator per semantic dimension.
func compareBounds(b *geom.Bounds, acc dimAcc) string {
	l := b.Layout()
	seen := map[string]bool{}
	for i := 0; i < l.Stride(); i++ {
		name := dimName(l, i)
		seen[name] = true
		want, ok := acc[name]
		if !ok {
			want = [2]float64{math.Inf(1), math.Inf(-1)}
		}
		if math.Float64bits(b.Min(i)) != math.Float64bits(want[0]) || math.Float64bits(b.Max(i)) != math.Float64bits(want[1]) {
			// -0 vs +0 cannot arise: values are never zero-signed in the alphabets
			return fmt.Sprintf("dimension %s (index %d of %v): got [%v,%v] want [%v,%v]", name, i, l, b.Min(i), b.Max(i), want[0], want[1])
		}
	}
	for name := range acc {
		if !seen[name] {
			return fmt.Sprintf("dimension %s received data but is absent from result layout %v", name, l)
		}
	}
	return ""
}

func wobble() ref.Filler {
	k := 0
	return func() ref.F {
		k++
		return ref.F(float64((k*7)%11-5) + float64(k)/128)
	}
}

func c08Members() []*ref.G {
	return []*ref.G{
		ref.NewPoint(geom.XY, true, wobble()),
		ref.NewLine(ref.LineString, geom.XYZ, 2, ref.CounterFrom(20)),
		ref.NewParts(ref.Polygon, geom.XYM, []int{2, 0, 1}, ref.CounterFrom(-40)),
		ref.NewMultiPoint(geom.XYZM, []int{0, 1, 1}, ref.CounterFrom(60)),
		ref.NewLine(ref.LineString, geom.XY, 0, ref.Counter()),
		ref.NewPoint(geom.XYZ, false, ref.Counter()),
		{Kind: ref.Collection, Kids: []*ref.G{ref.NewPoint(geom.XYZ, true, ref.CounterFrom(-90)), ref.NewLine(ref.LineString, geom.XYM, 2, ref.CounterFrom(120))}},
		{Kind: ref.Collection},
		// members without coordinates that bring a dimension of their own
		ref.NewLine(ref.LineString, geom.XYM, 0, ref.Counter()),
		ref.NewMultiPoint(geom.XYZM, []int{}, ref.Counter()),
		ref.NewParts(ref.Polygon, geom.XYZ, []int{0}, ref.Counter()),
	}
}

func extendAlphabet() []*ref.G {
	var out []*ref.G
	for i, l := range ref.Layouts4 {
		base := float64(100 * (i + 1))
		out = append(out,
			ref.NewLine(ref.LineString, l, 1, ref.CounterFrom(base)),
			ref.NewLine(ref.LineString, l, 2, ref.CounterFrom(-base)),
			ref.NewLine(ref.LineString, l, 0, ref.Counter()))
	}
	return out
}

// extendAlphabetInf: one-point geometries whose ordinates include +Inf and -Inf (the quantifier
// excludes NaN only). An infinite ordinate that arrives first in its dimension must still be there
// after finite ones follow, and the other way round.
func extendAlphabetInf() []*ref.G {
	inf := math.Inf(1)
	pt := func(l geom.Layout, v ...float64) *ref.G {
		return &ref.G{Kind: ref.LineString, Layout: l, C1: []ref.C{ref.FromFloats(v)}}
	}
	return []*ref.G{
		pt(geom.XY, 5, 1), pt(geom.XY, inf, 2), pt(geom.XY, -inf, 3), pt(geom.XY, 7, inf), pt(geom.XY, 6, -inf),
		pt(geom.XYZ, 2, 2, 4), pt(geom.XYZ, 1, 1, inf), pt(geom.XYM, 3, 3, inf), pt(geom.XYM, 1, 1, -inf),
		pt(geom.XYZM, 0, 0, 1, 2), pt(geom.XYZM, 0, 0, -inf, inf),
	}
}

// extendAlphabetPoints: geometries of type Point (and one MultiPoint, one collection holding a
// point) whose Z and M values interleave - an M that lies inside the Z interval reached so far
// but outside the M interval, a Z inside the M interval - with X and Y inside the box from the
// second step on.
func extendAlphabetPoints() []*ref.G {
	pt := func(l geom.Layout, v ...float64) *ref.G {
		return &ref.G{Kind: ref.Point, Layout: l, C0: ref.FromFloats(v)}
	}
	return []*ref.G{
		pt(geom.XY, 5, 5), pt(geom.XYZ, 5, 5, 1), pt(geom.XYZ, 4, 6, 9), pt(geom.XYM, 5, 5, 5), pt(geom.XYM, 5, 5, 50), pt(geom.XYM, 4, 6, -3),
		pt(geom.XYZM, 5, 5, 2, 6), pt(geom.XYZM, 4, 6, 40, 7), ref.NewPoint(geom.XYM, false, ref.Counter()),
		{Kind: ref.MultiPoint, Layout: geom.XYM, C1: []ref.C{ref.FromFloats([]float64{5, 5, 8})}},
		{Kind: ref.Collection, Kids: []*ref.G{pt(geom.XYM, 5, 5, 3), pt(geom.XYZ, 5, 5, 30)}},
	}
}

func extendAlphabetFor(name string) []*ref.G {
	if name == "inf" {
		return extendAlphabetInf()
	}
	if name == "pts" {
		return extendAlphabetPoints()
	}
	return extendAlphabet()
}

func bStateKey(b *geom.Bounds) string { return bKey(b) }

func c08Exec(c *engine.Ctx, cs c08Case, onState func(multiset, key string)) {
	c.Count("evaluations", 1)
	switch cs.Mode {
	case "geom":
		g := cs.G
		keyBase := fmt.Sprintf("geom/%s/%s", g.Kind, g.Layout)
		fail := func(what, desc string) { c.Violate(keyBase+"/"+what, desc+" model="+g.String(), "c08", cs) }
		t := g.MustBuild()
		var b *geom.Bounds
		if p, stack := engine.Guard(func() { b = t.Bounds() }); p != nil {
			fail("panic", fmt.Sprintf("Bounds() panicked: %v\n%s", p, firstLines(stack, 12)))
			return
		}
		acc := dimAcc{}
		foldModel(g, acc)
		if d := compareBounds(b, acc); d != "" {
			fail("not-tight", d)
			return
		}
		if d := isEmptyOracle(b, acc); d != "" {
			fail("isempty", d)
			return
		}
		// an SRID on the geometry (longitude/latitude, web mercator) changes nothing
		if _, isGC := t.(*geom.GeometryCollection); !isGC {
			for _, srid := range []int{4326, 3857} {
				var b2 *geom.Bounds
				if p, _ := engine.Guard(func() {
					if _, err := geom.SetSRID(t, srid); err != nil {
						panic(err)
					}
					b2 = t.Bounds()
				}); p != nil || bKey(b2) != bKey(b) {
					fail("srid-dependent", fmt.Sprintf("Bounds() after SetSRID(%d): %s (panic %v), before: %s", srid, bKey(b2), p, bKey(b)))
					return
				}
			}
		}
		// Bounds.Polygon
		poly := b.Polygon()
		if len(acc) == 0 {
			if !poly.Empty() {
				fail("polygon-nonempty", "Polygon() of empty bounds is not empty")
				return
			}
		} else if !b.IsEmpty() {
			x, y := acc["x"], acc["y"]
			want := []float64{x[0], y[0], x[0], y[1], x[1], y[1], x[1], y[0], x[0], y[0]}
			if poly.Layout() != geom.XY || !eqBits(poly.FlatCoords(), want) || len(poly.Ends()) != 1 || poly.Ends()[0] != 10 {
				fail("polygon", fmt.Sprintf("Polygon() = %v %v, want %v", poly.FlatCoords(), poly.Ends(), want))
				return
			}
		}
		// GeoJSON bbox for non-empty geometries in layouts the bbox encoder supports
		// (every dimension the bbox carries must have data: X and Y, and Z when the layout has it; a
		// member without coordinates may add an M or Z dimension that stays without data)
		_, zData := acc["z"]
		if len(acc) > 0 && (zData || b.Layout().ZIndex() < 0) && b.Layout() != geom.NoLayout && b.Layout() <= geom.XYZM && jsonable(g) && g.Kind != ref.LinearRing {
			data, err := geojson.Marshal(t, geojson.EncodeGeometryWithBBox())
			if err != nil {
				fail("bbox-error", "geojson.Marshal with bbox: "+err.Error())
				return
			}
			var doc struct {
				BBox []float64 `json:"bbox"`
			}
			if err := json.Unmarshal(data, &doc); err != nil {
				fail("bbox-json", err.Error())
				return
			}
			x, y := acc["x"], acc["y"]
			want := []float64{x[0], y[0], x[1], y[1]}
			if z, ok := acc["z"]; ok || b.Layout().ZIndex() >= 0 {
				if !ok {
					z = [2]float64{math.Inf(1), math.Inf(-1)}
				}
				want = []float64{x[0], y[0], z[0], x[1], y[1], z[1]}
			}
			if !eqBits(doc.BBox, want) {
				fail("bbox", fmt.Sprintf("bbox %v want %v", doc.BBox, want))
				return
			}
			c.Count("bbox_compared", 1)
		}
		if len(acc) > 0 {
			c.DistinctStr(g.String())
		}
		c.Sample("geom/"+g.Kind.String(), 1, cs)
	case "written-bbox":
		// the GeoJSON bbox written together with a decimal-digits limit: whatever the rounding, it is
		// monotone, so the box as written is the min/max of the coordinates as written
		d, order := cs.Ops[0], cs.Init
		t, err := cs.G.Build()
		if err != nil {
			panic("harness error: " + err.Error())
		}
		fail := func(what, desc string) {
			c.Violate(fmt.Sprintf("written-bbox/%s/%s/%s", cs.G.Kind, cs.G.Layout, what), clipStr(desc+" geometry="+cs.G.String()+fmt.Sprintf(" digits=%d option order=%d", d, order), 1500), "c08", cs)
		}
		opts := []geojson.EncodeGeometryOption{geojson.EncodeGeometryWithMaxDecimalDigits(d), geojson.EncodeGeometryWithBBox()}
		if order == 2 {
			opts[0], opts[1] = opts[1], opts[0]
		}
		var data []byte
		if pn, _ := engine.Guard(func() { data, err = geojson.Marshal(t, opts...) }); pn != nil || err != nil {
			fail("error", fmt.Sprintf("geojson.Marshal with bbox and digits: panic=%v err=%v", pn, err))
			return
		}
		dec := json.NewDecoder(strings.NewReader(string(data)))
		dec.UseNumber()
		var doc map[string]any
		if err := dec.Decode(&doc); err != nil {
			fail("json", err.Error()+" in "+string(data))
			return
		}
		var nums, bb []string
		jsonNumbers(doc["coordinates"], &nums)
		jsonNumbers(doc["bbox"], &bb)
		st := cs.G.Layout.Stride()
		if len(nums) == 0 || len(nums)%st != 0 || len(bb) != 2*st {
			fail("shape", fmt.Sprintf("%d coordinate numbers, %d bbox numbers for stride %d in %s", len(nums), len(bb), st, data))
			return
		}
		for k := 0; k < st; k++ {
			var lo, hi *big.Rat
			for i := k; i < len(nums); i += st {
				v, ok := new(big.Rat).SetString(nums[i])
				if !ok {
					fail("number", "not a number: "+nums[i])
					return
				}
				if lo == nil || v.Cmp(lo) < 0 {
					lo = v
				}
				if hi == nil || v.Cmp(hi) > 0 {
					hi = v
				}
			}
			blo, ok1 := new(big.Rat).SetString(bb[k])
			bhi, ok2 := new(big.Rat).SetString(bb[st+k])
			if !ok1 || !ok2 || blo.Cmp(lo) != 0 || bhi.Cmp(hi) != 0 {
				fail("differs", fmt.Sprintf("dimension %d: bbox [%s, %s] but the coordinates as written span [%s, %s] in %s", k, bb[k], bb[st+k], lo.FloatString(d+2), hi.FloatString(d+2), data))
				return
			}
		}
		c.Count("written_bbox_compared", 1)
	case "extend":
		alpha := extendAlphabetFor(cs.Alpha)
		fail := func(what, desc string) {
			names := []string{}
			for _, o := range cs.Ops {
				if cs.Alpha != "" {
					if cs.Alpha == "pts" {
						names = append(names, alpha[o].String())
						continue
					}
					names = append(names, fmt.Sprintf("%s%v", alpha[o].Layout, alpha[o].C1))
					continue
				}
				names = append(names, fmt.Sprintf("%s/%d", alpha[o].Layout, len(alpha[o].C1)))
			}
			c.Violate(fmt.Sprintf("extend%s/start=%s/init%d/%s", cs.Alpha, cs.Start, cs.Init, what), fmt.Sprintf("%s; NewBounds(%s) (init %d: 0 as is, 1 SetCoords, 2 Set) then Extend %v", desc, cs.Start, cs.Init, names), "c08", cs)
		}
		var b *geom.Bounds
		acc := dimAcc{}
		if p, _ := engine.Guard(func() {
			b = geom.NewBounds(cs.Start)
			if cs.Init != 0 {
				st := cs.Start.Stride()
				lo, hi := make(geom.Coord, st), make(geom.Coord, st)
				for i := 0; i < st; i++ {
					lo[i], hi[i] = float64(-500-i), float64(500+i)
					acc.add(dimName(cs.Start, i), lo[i])
					acc.add(dimName(cs.Start, i), hi[i])
				}
				if cs.Init == 1 {
					b.SetCoords(lo, hi)
				} else {
					b.Set(append(append([]float64{}, lo...), hi...)...)
				}
			}
			for _, o := range cs.Ops {
				b.Extend(alpha[o].MustBuild())
				foldModel(alpha[o], acc)
			}
		}); p != nil {
			fail("panic", fmt.Sprintf("panic %v", p))
			return
		}
		if d := compareBounds(b, acc); d != "" {
			fail(classify(d), d)
			return
		}
		if d := isEmptyOracle(b, acc); d != "" {
			fail("isempty", d)
			return
		}
		if onState != nil {
			ms := append([]int{}, cs.Ops...)
			sort.Ints(ms)
			onState(fmt.Sprint(cs.Start, cs.Init, ms), bStateKey(b))
		}
	case "overlaps-narrow":
		// boxes of (possibly) wider layouts than the query layout: only the dimensions of the
		// query layout take part, whatever the extra dimensions hold (data, or nothing at all)
		q := cs.Layout
		n := q.Stride()
		mk := func(l geom.Layout, v []ref.F) *geom.Bounds {
			args := make([]float64, len(v))
			for i, x := range v {
				args[i] = float64(x)
			}
			return geom.NewBounds(l).Set(args...)
		}
		sa, sb := cs.LA.Stride(), cs.LB.Stride()
		a, b := mk(cs.LA, cs.BoxA), mk(cs.LB, cs.BoxB)
		want := true
		for i := 0; i < n; i++ {
			alo, ahi, blo, bhi := float64(cs.BoxA[i]), float64(cs.BoxA[i+sa]), float64(cs.BoxB[i]), float64(cs.BoxB[i+sb])
			if alo > ahi || blo > bhi || math.Max(alo, blo) > math.Min(ahi, bhi) {
				want = false
			}
			// a dimension without data (+Inf,-Inf) against an interval with an infinite end: comparing
			// end points says "meet", the empty set says "do not" - the property does not decide, skip
			if (alo > ahi && (math.IsInf(blo, 0) || math.IsInf(bhi, 0))) || (blo > bhi && (math.IsInf(alo, 0) || math.IsInf(ahi, 0))) {
				return
			}
		}
		var got bool
		if p, _ := engine.Guard(func() { got = a.Overlaps(q, b) }); p != nil {
			c.Violate(fmt.Sprintf("overlaps-narrow/%s/panic", q), fmt.Sprintf("Overlaps(%s) of a %s box %v and a %s box %v panicked: %v", q, cs.LA, cs.BoxA, cs.LB, cs.BoxB, p), "c08", cs)
			return
		}
		if got != want {
			c.Violate(fmt.Sprintf("overlaps-narrow/%s", q), fmt.Sprintf("Overlaps(%s) of a %s box %v and a %s box %v = %v, closed-interval arithmetic on the %d query dimensions says %v", q, cs.LA, cs.BoxA, cs.LB, cs.BoxB, got, n, want), "c08", cs)
			return
		}
		pt := make(geom.Coord, n)
		ptOK := true
		for i := 0; i < n; i++ {
			pt[i] = float64(cs.BoxB[i])
			if math.IsInf(pt[i], 0) {
				ptOK = false
			}
		}
		if ptOK {
			wantP := true
			for i := 0; i < n; i++ {
				if !(float64(cs.BoxA[i]) <= pt[i] && pt[i] <= float64(cs.BoxA[i+sa])) {
					wantP = false
				}
			}
			if got := a.OverlapsPoint(q, pt); got != wantP {
				c.Violate(fmt.Sprintf("overlapspoint-narrow/%s", q), fmt.Sprintf("OverlapsPoint(%s, %v) on a %s box %v = %v want %v", q, pt, cs.LA, cs.BoxA, got, wantP), "c08", cs)
				return
			}
		}
		c.Count("overlap_pairs", 1)
		c.Count("overlap_pairs_narrow_query", 1)
	case "overlaps":
		l := cs.Layout
		n := l.Stride()
		mk := func(v []ref.F, decl geom.Layout) *geom.Bounds {
			args := make([]float64, len(v))
			for i, x := range v {
				args[i] = float64(x)
			}
			return geom.NewBounds(decl).Set(args...)
		}
		// Beyond: a box was created for a narrower layout (XY, or none) and then Set with all the
		// dimensions of the query layout - Set stores every dimension it is given
		la, lb := l, l
		switch cs.Beyond {
		case 1:
			la = geom.XY
		case 2:
			lb = geom.XY
		case 3:
			la, lb = geom.XY, geom.XY
		case 4:
			la, lb = geom.NoLayout, geom.NoLayout
		}
		a, b := mk(cs.BoxA, la), mk(cs.BoxB, lb)
		want := true
		for i := 0; i < n; i++ {
			lo := math.Max(float64(cs.BoxA[i]), float64(cs.BoxB[i]))
			hi := math.Min(float64(cs.BoxA[i+n]), float64(cs.BoxB[i+n]))
			if !(lo <= hi) || cs.BoxA[i] > cs.BoxA[i+n] || cs.BoxB[i] > cs.BoxB[i+n] {
				want = false
			}
		}
		if got := a.Overlaps(l, b); got != want {
			c.Violate(fmt.Sprintf("overlaps/%s", l), fmt.Sprintf("Overlaps(%v,%v)=%v want %v", cs.BoxA, cs.BoxB, got, want), "c08", cs)
			return
		}
		// point test: the low corner of box B as a point (only when B is not empty)
		pt := make(geom.Coord, n)
		ptOK := true
		for i := 0; i < n; i++ {
			pt[i] = float64(cs.BoxB[i])
			if math.IsInf(pt[i], 0) {
				ptOK = false
			}
		}
		if ptOK {
			wantP := true
			for i := 0; i < n; i++ {
				if !(float64(cs.BoxA[i]) <= pt[i] && pt[i] <= float64(cs.BoxA[i+n])) {
					wantP = false
				}
			}
			if got := a.OverlapsPoint(l, pt); got != wantP {
				c.Violate(fmt.Sprintf("overlapspoint/%s", l), fmt.Sprintf("OverlapsPoint(%v,%v)=%v want %v", cs.BoxA, pt, got, wantP), "c08", cs)
				return
			}
		}
		c.Count("overlap_pairs", 1)
	}
}

// isEmptyOracle: no coordinates => IsEmpty(); data in every dimension of the result layout =>
// not IsEmpty(). (A box with data in X,Y but none in a promoted Z is reported empty by the
// library; the property does not decide that case, so it is not demanded either way.)
func isEmptyOracle(b *geom.Bounds, acc dimAcc) string {
	if len(acc) == 0 && !b.IsEmpty() {
		return "no coordinates but IsEmpty() is false"
	}
	if len(acc) > 0 && len(acc) == b.Layout().Stride() && b.IsEmpty() {
		return "data in every dimension but IsEmpty() is true"
	}
	return ""
}

func jsonable(g *ref.G) bool {
	ok := true
	g.Ordinates(func(p *ref.F) {
		if math.IsNaN(float64(*p)) || math.IsInf(float64(*p), 0) {
			ok = false
		}
	})
	return ok
}

// c08WrittenBBox: bbox and decimal digits together. For every d in 0..6 and every m in [-130,130]
// the decimal tie (m+1/2)*10^-d as a float64 and its +-1, +-2 ulp neighbours are made the extreme
// ordinate of every dimension of a two-position line and a two-point multipoint (XY, XYZ), the
// options given in both orders.
func c08WrittenBBox(c *engine.Ctx) {
	type job struct{ d, m int }
	var jobs []job
	for d := 0; d <= 6; d++ {
		for m := -130; m <= 130; m++ {
			jobs = append(jobs, job{d, m})
		}
	}
	c.Parallel(len(jobs), func(i int) {
		d, m := jobs[i].d, jobs[i].m
		tie, err := strconv.ParseFloat(fmt.Sprintf("%d.5e-%d", absI(m), d), 64)
		if err != nil {
			panic(err)
		}
		if m < 0 {
			tie = -tie
		}
		vals := []float64{tie}
		up, dn := tie, tie
		for k := 0; k < 2; k++ {
			up, dn = math.Nextafter(up, math.Inf(1)), math.Nextafter(dn, math.Inf(-1))
			vals = append(vals, up, dn)
		}
		for _, v := range vals {
			for _, l := range []geom.Layout{geom.XY, geom.XYZ} {
				a, b := make([]ref.F, l.Stride()), make([]ref.F, l.Stride())
				for k := range a {
					a[k] = ref.F(v)
					if k%2 == 1 {
						a[k] = ref.F(-v)
					}
				}
				for _, g := range []*ref.G{
					{Kind: ref.LineString, Layout: l, C1: []ref.C{a, b}},
					{Kind: ref.MultiPoint, Layout: l, C1: []ref.C{b, a}},
				} {
					for order := 1; order <= 2; order++ {
						c08Exec(c, c08Case{Mode: "written-bbox", G: g, Ops: []int{d}, Init: order}, nil)
					}
				}
			}
		}
	})
}

func absI(x int) int {
	if x < 0 {
		return -x
	}
	return x
}

func c08Run(c *engine.Ctx) {
	c08WrittenBBox(c)
	// (a) per geometry
	var geoms []*ref.G
	for _, l := range ref.LayoutsAll {
		ref.ForEachBase(l, 2, func(g *ref.G) {
			// replace counter values by a non-monotonic pattern
			f := wobble()
			g.Ordinates(func(p *ref.F) { *p = f() })
			geoms = append(geoms, g)
		})
	}
	members := c08Members()
	idx := make([]int, len(members))
	for i := range idx {
		idx[i] = i
	}
	for _, seq := range ref.Seqs(idx, 3) {
		g := &ref.G{Kind: ref.Collection}
		for _, i := range seq {
			g.Kids = append(g.Kids, members[i])
		}
		geoms = append(geoms, g)
		// one more level of nesting around every collection (thorough: two)
		geoms = append(geoms, &ref.G{Kind: ref.Collection, Kids: []*ref.G{g, members[1]}})
		if c.Thorough() {
			geoms = append(geoms, &ref.G{Kind: ref.Collection, Kids: []*ref.G{{Kind: ref.Collection, Kids: []*ref.G{g}}, members[3]}})
		}
	}
	// collections with a layout fixed by SetLayout whose nested (layout-less) collections mix
	// lower layouts that only TOGETHER cover the fixed one (XYZ + XYM under XYZM, XY + XYZ under XYZ)
	for _, fx := range []struct {
		fixed geom.Layout
		in    []geom.Layout
		own   geom.Layout
	}{
		{geom.XYZM, []geom.Layout{geom.XYZ, geom.XYM}, geom.XYZM},
		{geom.XYZM, []geom.Layout{geom.XYM, geom.XYZM}, geom.XYZM},
		{geom.XYZM, []geom.Layout{geom.XYM, geom.XYZ, geom.XY}, geom.XYZM},
		{geom.XYZ, []geom.Layout{geom.XY, geom.XYZ}, geom.XYZ},
		{geom.XYM, []geom.Layout{geom.XYM, geom.XY}, geom.XYM},
	} {
		var inner []*ref.G
		for i, l := range fx.in {
			inner = append(inner, ref.NewLine(ref.LineString, l, 2, ref.CounterFrom(float64(30*(i+1)))))
		}
		nested := ref.NewCollection(geom.NoLayout, inner...)
		geoms = append(geoms,
			ref.NewCollection(fx.fixed, nested),
			ref.NewCollection(fx.fixed, nested, ref.NewMultiPoint(fx.own, []int{1, 1}, ref.CounterFrom(-70))),
			ref.NewCollection(fx.fixed, ref.NewPoint(fx.own, true, ref.CounterFrom(200)), ref.NewCollection(geom.NoLayout, nested)),
		)
	}
	// large geometries: the extreme values sit in the middle of long coordinate arrays
	for _, l := range ref.LayoutsAll {
		for _, n := range []int{50, 500, 5000} {
			f := wobble()
			g := ref.NewLine(ref.LineString, l, n, f)
			for d := 0; d < l.Stride(); d++ {
				g.C1[n/2+d][d] = ref.F(1e6 + float64(d))
				g.C1[n/3+d][d] = ref.F(-1e6 - float64(d))
			}
			geoms = append(geoms, g)
			sizes := make([]int, n/10)
			for i := range sizes {
				sizes[i] = (i * 7) % 4
			}
			mp := ref.NewParts(ref.MultiLineString, l, sizes, wobble())
			geoms = append(geoms, mp)
		}
	}
	for _, l := range []geom.Layout{geom.XY, geom.XYZ, geom.XYM} {
		geoms = append(geoms, deepCollections(l, 9)...)
	}
	// every coordinate count 1..70 and around powers of two, with the strict extremes in the
	// first and the last coordinate (unrolled or vectorised folds lose heads and tails)
	counts := []int{}
	for n := 1; n <= 70; n++ {
		counts = append(counts, n)
	}
	counts = append(counts, 127, 128, 129, 255, 256, 257, 1023, 1024, 1025, 4097, 16385, 40000)
	for _, l := range ref.LayoutsAll {
		for _, n := range counts {
			for variant := 0; variant < 2; variant++ {
				g := ref.NewLine(ref.LineString, l, n, wobble())
				if variant == 1 {
					pat := make([]int, n)
					for i := range pat {
						pat[i] = 1
					}
					g = ref.NewMultiPoint(l, pat, wobble())
				}
				for d := 0; d < l.Stride(); d++ {
					g.C1[n-1][d] = ref.F(1e6 + float64(d))
					if n > 1 {
						g.C1[0][d] = ref.F(-1e6 - float64(d))
					}
				}
				geoms = append(geoms, g)
			}
		}
	}
	// infinite ordinates (only NaN is excluded): in one dimension at a time, every assignment of
	// {finite, +Inf, -Inf} to the three coordinates of a line and to the members of a multipoint
	infMenu := []float64{0, math.Inf(1), math.Inf(-1)}
	for _, l := range ref.LayoutsAll {
		for d := 0; d < l.Stride(); d++ {
			for pat := 0; pat < 27; pat++ {
				for variant := 0; variant < 2; variant++ {
					g := ref.NewLine(ref.LineString, l, 3, wobble())
					if variant == 1 {
						g = ref.NewMultiPoint(l, []int{1, 1, 1}, wobble())
					}
					p := pat
					for k := 0; k < 3; k++ {
						if v := infMenu[p%3]; v != 0 {
							g.C1[k][d] = ref.F(v)
						}
						p /= 3
					}
					geoms = append(geoms, g)
				}
			}
		}
	}
	// rings and lines that return to their first position in X and Y while the closing coordinate
	// holds the strict maximum / minimum of one further dimension (a ramp, a timed lap), as a
	// LinearRing, LineString, polygon shell, polygon hole, multi-line member, multi-polygon member
	for _, l := range ref.LayoutsAll {
		for d := 2; d < l.Stride(); d++ {
			for _, ext := range []float64{1e6, -1e6} {
				for _, n := range []int{4, 5} {
					mk := func() []ref.C {
						ln := ref.NewLine(ref.LineString, l, n, wobble())
						ln.C1[n-1][0], ln.C1[n-1][1] = ln.C1[0][0], ln.C1[0][1]
						ln.C1[n-1][d] = ref.F(ext)
						return ln.C1
					}
					plain := ref.NewLine(ref.LineString, l, 4, ref.CounterFrom(3)).C1
					geoms = append(geoms,
						&ref.G{Kind: ref.LinearRing, Layout: l, C1: mk()},
						&ref.G{Kind: ref.LineString, Layout: l, C1: mk()},
						&ref.G{Kind: ref.Polygon, Layout: l, C2: [][]ref.C{mk()}},
						&ref.G{Kind: ref.Polygon, Layout: l, C2: [][]ref.C{plain, mk()}},
						&ref.G{Kind: ref.Polygon, Layout: l, C2: [][]ref.C{mk(), plain}},
						&ref.G{Kind: ref.MultiLineString, Layout: l, C2: [][]ref.C{plain, mk()}},
						&ref.G{Kind: ref.MultiPolygon, Layout: l, C3: [][][]ref.C{{plain}, {plain, mk()}}},
					)
				}
			}
		}
	}
	c.Note("geometries", len(geoms))
	c.Parallel(len(geoms), func(i int) { c08Exec(c, c08Case{Mode: "geom", G: geoms[i]}, nil) })

	// (b) Extend histories, BFS with state = (layout, min, max)
	depth := 4
	if c.Thorough() {
		depth = 5
	}
	c.Note("extend_depth", depth)
	for _, alphaName := range []string{"", "inf", "pts"} {
		alpha := extendAlphabetFor(alphaName)
		for _, start := range []geom.Layout{geom.NoLayout, geom.XY, geom.XYZ, geom.XYM, geom.XYZM} {
			for init := 0; init < 3; init++ {
				if init > 0 && (start == geom.NoLayout || alphaName != "") {
					continue
				}
				seen := map[string]struct{}{}
				byMultiset := map[string]string{}
				var mu sync.Mutex
				frontier := [][]int{{}}
				for d := 1; d <= depth; d++ {
					var next [][]int
					c.Parallel(len(frontier), func(i int) {
						for o := range alpha {
							h := append(append([]int{}, frontier[i]...), o)
							c.Count("transitions", 1)
							cs := c08Case{Mode: "extend", Start: start, Ops: h, Alpha: alphaName, Init: init}
							c08Exec(c, cs, func(ms, key string) {
								mu.Lock()
								defer mu.Unlock()
								if prev, ok := byMultiset[ms]; ok && prev != key {
									c.Violate(fmt.Sprintf("extend%s/start=%s/order-dependent", alphaName, start), fmt.Sprintf("multiset %s reaches %s by one order and %s by another (history %v)", ms, prev, key, h), "c08", cs)
								} else if !ok {
									byMultiset[ms] = key
								}
								if _, ok := seen[key]; !ok {
									seen[key] = struct{}{}
								}
								// all histories are expanded (the multiset, not the state, determines the reference)
								next = append(next, h)
							})
						}
					})
					frontier = next
				}
				c.Count("states", int64(len(seen)))
				c.Count("multisets", int64(len(byMultiset)))
			}
		}
	}
	// (c) overlap tests
	type iv [2]float64
	intervals := func(max int) []iv {
		out := []iv{{math.Inf(1), math.Inf(-1)}}
		for a := 0; a <= max; a++ {
			for b := a; b <= max; b++ {
				out = append(out, iv{float64(a), float64(b)})
			}
		}
		return out
	}
	var boxes2, boxes3 [][]ref.F
	for _, x := range intervals(3) {
		for _, y := range intervals(3) {
			boxes2 = append(boxes2, []ref.F{ref.F(x[0]), ref.F(y[0]), ref.F(x[1]), ref.F(y[1])})
		}
	}
	for _, x := range intervals(2) {
		for _, y := range intervals(2) {
			for _, z := range intervals(2) {
				boxes3 = append(boxes3, []ref.F{ref.F(x[0]), ref.F(y[0]), ref.F(z[0]), ref.F(x[1]), ref.F(y[1]), ref.F(z[1])})
			}
		}
	}
	c.Parallel(len(boxes2), func(i int) {
		for _, b := range boxes2 {
			c08Exec(c, c08Case{Mode: "overlaps", Layout: geom.XY, BoxA: boxes2[i], BoxB: b}, nil)
		}
	})
	c.Parallel(len(boxes3), func(i int) {
		for _, b := range boxes3 {
			c08Exec(c, c08Case{Mode: "overlaps", Layout: geom.XYZ, BoxA: boxes3[i], BoxB: b}, nil)
			c08Exec(c, c08Case{Mode: "overlaps", Layout: geom.XYM, BoxA: boxes3[i], BoxB: b}, nil)
			c08Exec(c, c08Case{Mode: "overlaps", Layout: geom.XYZ, BoxA: boxes3[i], BoxB: b, Beyond: 1 + (i+len(b))%4}, nil)
			c08Exec(c, c08Case{Mode: "overlaps", Layout: geom.XYZ, BoxA: boxes3[i], BoxB: b, Beyond: 1 + (i+len(b)+int(b[0])+int(b[2]))%4}, nil)
		}
	})
	// (c2) queries in a narrower layout than the boxes: XY queries on XY/XYZ/XYM/XYZM boxes whose
	// extra dimensions hold an interval or nothing (+Inf,-Inf: a promoted dimension that never
	// received an ordinate); XYZ queries on XYZ/XYZM boxes
	// (intervals with infinite ends included: [0,+Inf], the single value +Inf, [-Inf,0], -Inf, everything)
	ivs := []iv{{math.Inf(1), math.Inf(-1)}, {0, 1}, {1, 3}, {2, 2}, {0, math.Inf(1)}, {math.Inf(1), math.Inf(1)}, {math.Inf(-1), 0}, {math.Inf(-1), math.Inf(-1)}, {math.Inf(-1), math.Inf(1)}}
	extras := []iv{{math.Inf(1), math.Inf(-1)}, {5, 6}}
	type nbox struct {
		l geom.Layout
		v []ref.F
	}
	mkBoxes := func(q geom.Layout, layouts []geom.Layout) []nbox {
		var out []nbox
		nq := q.Stride()
		var rec func(l geom.Layout, lo, hi []ref.F, d int)
		rec = func(l geom.Layout, lo, hi []ref.F, d int) {
			if d == l.Stride() {
				out = append(out, nbox{l, append(append([]ref.F{}, lo...), hi...)})
				return
			}
			menu := ivs
			if d >= nq {
				menu = extras
			}
			for _, x := range menu {
				rec(l, append(lo, ref.F(x[0])), append(hi, ref.F(x[1])), d+1)
			}
		}
		for _, l := range layouts {
			rec(l, nil, nil, 0)
		}
		return out
	}
	for _, fam := range []struct {
		q  geom.Layout
		ls []geom.Layout
	}{{geom.XY, []geom.Layout{geom.XY, geom.XYZ, geom.XYM, geom.XYZM}}, {geom.XYZ, []geom.Layout{geom.XYZ, geom.XYZM}}} {
		bs := mkBoxes(fam.q, fam.ls)
		c.Parallel(len(bs), func(i int) {
			for _, b := range bs {
				c08Exec(c, c08Case{Mode: "overlaps-narrow", Layout: fam.q, LA: bs[i].l, BoxA: bs[i].v, LB: b.l, BoxB: b.v}, nil)
			}
		})
	}
	// (d) query / in-place change / query histories on live objects (incl. collections whose
	// members are edited or pushed into after the collection was asked for its bounds)
	hdepth := 3
	if c.Thorough() {
		hdepth = 4
	}
	c.Note("history_depth", hdepth)
	exploreLive(c, "c08-history", "history", liveStarts(), hdepth, c08LiveQuery)
	c.Count("traces_validated_against_impl", c.Get("evaluations"))
	c.Count("distinct_nontrivial", c.Get("states")+c.Get("overlap_pairs")+c.Get("histories_ok"))
	if c.Get("bbox_compared") == 0 {
		c.Warn("vacuous: no GeoJSON bbox compared")
	}
}

var _ = strings.Join
