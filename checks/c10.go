package checks

import (
	"encoding/json"
	"fmt"
	"math"

	"github.com/twpayne/go-geom"
	"github.com/twpayne/go-geom/bigxy"
	"github.com/twpayne/go-geom/xy"
	"github.com/twpayne/go-geom/xy/orientation"

	"verif/engine"
	"verif/ref"
)

// C10 — the orientation predicate returns the exact sign.

type c10Case struct {
	A, B, P [2]ref.F `json:"-"`
	Pts     []ref.F  `json:"pts"` // ax ay bx by px py
	Extra   bool     `json:"extra_ordinates,omitempty"`
}

func init() {
	engine.Register(&engine.Check{
		ID: "C10", Level: "exploration",
		Rule:        "(a) every ordered triple of points of the 7x7 (quick) / 9x9 (thorough) integer grid, also scaled by 2^330 and 2^-330 and translated by 2^40; (b) for each of 24 exactly collinear base triples with non-trivial mantissas (slopes 1, 1/3, 7/5, -2/9, magnitudes 1e-100..1e100) every perturbation of the six ordinates by {-2..2} (quick) / {-3..3} (thorough) ulps; (c) every triple over the 27-bit coordinate set {0,1,2^26,2^27-1,2^27-3}^2; extra ordinates NaN/Inf; oracle = sign of the exact rational cross product for bigxy.OrientationIndex and xy.OrientationIndex, plus antisymmetry and cyclic invariance. distinct_nontrivial = distinct triples whose exact determinant is non-zero or whose points are pairwise distinct Also: Fibonacci/Pell lattice points up to 2^51 around three origins (cross product +-1 with exact integer ordinates), and points of magnitudes 2^-330..2^330 on one line through the origin with single ordinates 1 or 3 ulps off; every triple over {0,1e-100,3e-50,1,2,3,1e100}^2 (one axis spanning 660 binary orders, the other narrow) and its mirror image; lean sweeps in all six argument orders: the floats nearest to the line through every ordered pair of 16 full-mantissa points at parameters k/64 (thorough k/256), k=-m..2m, with their 8 one-ulp neighbours; ~10^4 (thorough 4*10^4) exactly collinear mixed-magnitude triples (40-bit fractions against integers up to 10^7) and their one- and two-ulp perturbations; 90 segments passing close to the coordinate origin with 2049 (thorough 16385) query points each of much smaller magnitude near the line (all four differences inexact) and their one-ulp neighbours; few-bit ordinates at very different binary exponents (A=-a, B=s*b, P=j*s*b with cross(a,b)=+-1, 20..26-bit a,b, s=2^10,2^23,2^30); every triple over {-2^31,-2^31+1,-2^30,-1,0,1,2^30,2^31-1}^2; integer triples of magnitude 2^24..2^53 in opposite quadrants with cross product +-1,+-2,+-3 (extended Euclid). Round 9: determinants that are a difference of second-order terms (A = P+(s,r), B = P-(r,s) about a diagonal through C: det = r^2-s^2), ~490000 cases.",
		Run:         c10Run,
		Replay:      func(c *engine.Ctx, kind string, raw json.RawMessage) { c10Exec(c, decodeCase[c10Case](raw)) },
		Assumptions: []string{"math/big rationals are exact; ordinates are zero or of magnitude within [1e-100,1e100]"},
	})
}

func c10Exec(c *engine.Ctx, cs c10Case) {
	c.Count("evaluations", 1)
	v := cs.Pts
	a, b, p := ref.P2{X: float64(v[0]), Y: float64(v[1])}, ref.P2{X: float64(v[2]), Y: float64(v[3])}, ref.P2{X: float64(v[4]), Y: float64(v[5])}
	want := orientation.Type(ref.Orient(a, b, p))
	mk := func(q ref.P2) geom.Coord {
		if cs.Extra {
			return geom.Coord{q.X, q.Y, math.NaN(), math.Inf(-1)}
		}
		return geom.Coord{q.X, q.Y}
	}
	ca, cb, cp := mk(a), mk(b), mk(p)
	fail := func(what, desc string) {
		c.Violate("orientation/"+what, fmt.Sprintf("%s; a=(%v,%v) b=(%v,%v) p=(%v,%v) bits=%x", desc, a.X, a.Y, b.X, b.Y, p.X, p.Y, bitsOf(v)), "c10", cs)
	}
	var g1, g2, gSwap, gRot orientation.Type
	if pn, _ := engine.Guard(func() {
		g1 = bigxy.OrientationIndex(ca, cb, cp)
		g2 = xy.OrientationIndex(ca, cb, cp)
		gSwap = bigxy.OrientationIndex(cb, ca, cp)
		gRot = bigxy.OrientationIndex(cb, cp, ca)
	}); pn != nil {
		fail("panic", fmt.Sprintf("panic %v", pn))
		return
	}
	if g1 != want {
		fail("wrong-sign", fmt.Sprintf("bigxy.OrientationIndex=%v exact=%v", g1, want))
		return
	}
	if g2 != want {
		fail("xy-wrong-sign", fmt.Sprintf("xy.OrientationIndex=%v exact=%v", g2, want))
		return
	}
	if gSwap != -want {
		fail("not-antisymmetric", fmt.Sprintf("swapping the vector ends gives %v, expected %v", gSwap, -want))
		return
	}
	if gRot != want {
		fail("not-cyclic", fmt.Sprintf("rotating the arguments gives %v, expected %v", gRot, want))
		return
	}
	if want != 0 {
		c.Count("non_collinear", 1)
	} else {
		c.Count("exactly_collinear", 1)
	}
	if want != 0 || (a != b && b != p && a != p) {
		c.DistinctStr(fmt.Sprint(bitsOf(v)))
	}
	c.Sample(fmt.Sprint("sign", want), 2, cs)
}

func bitsOf(v []ref.F) []uint64 {
	out := make([]uint64, len(v))
	for i, x := range v {
		out[i] = math.Float64bits(float64(x))
	}
	return out
}

func ulps(x float64, n int) float64 {
	for ; n > 0; n-- {
		x = math.Nextafter(x, math.Inf(1))
	}
	for ; n < 0; n++ {
		x = math.Nextafter(x, math.Inf(-1))
	}
	return x
}

// collinearBases returns exactly collinear triples with non-trivial mantissas.
func collinearBases() [][6]float64 {
	var out [][6]float64
	type dir struct{ dx, dy float64 }
	dirs := []dir{{1, 1}, {3, 1}, {5, 7}, {9, -2}}
	origins := [][2]float64{{0.5, 0.5}, {12, 12}, {-7.25, 3.125}}
	scales := []float64{1, 1e-100, 1e100, 1 << 20}
	for _, d := range dirs {
		for _, o := range origins {
			for _, s := range scales {
				if len(out) >= 24 && s != 1 {
					continue
				}
				// points o + k*d for k = 0, 23, 47, scaled; kept only if every operation is exact
				p := func(k float64) (float64, float64) { return (o[0] + k*d.dx) * s, (o[1] + k*d.dy) * s }
				ax, ay := p(0)
				bx, by := p(23)
				cx, cy := p(47)
				t := [6]float64{ax, ay, bx, by, cx, cy}
				if ref.Orient(ref.P2{X: ax, Y: ay}, ref.P2{X: bx, Y: by}, ref.P2{X: cx, Y: cy}) == 0 {
					out = append(out, t)
				}
			}
		}
	}
	if len(out) > 24 {
		out = out[:24]
	}
	return out
}

// cfSequences: Fibonacci and Pell numbers below 2^51 (ratios of neighbours are the slowest
// converging continued fractions; beyond 2^26 the products of the cross product no longer fit
// in a float64, although every ordinate and every difference is an exact integer).
func cfSequences() [][]float64 {
	fib := []float64{1, 1}
	for fib[len(fib)-1] < 1<<51 {
		fib = append(fib, fib[len(fib)-1]+fib[len(fib)-2])
	}
	pell := []float64{1, 2}
	for pell[len(pell)-1] < 1<<51 {
		pell = append(pell, 2*pell[len(pell)-1]+pell[len(pell)-2])
	}
	return [][]float64{fib[:len(fib)-1], pell[:len(pell)-1]}
}

func c10Run(c *engine.Ctx) {
	n := 7
	pert := []int{-2, -1, 0, 1, 2}
	if c.Thorough() {
		n = 9
		pert = []int{-3, -2, -1, 0, 1, 2, 3}
	}
	var grid [][2]float64
	for x := 0; x < n; x++ {
		for y := 0; y < n; y++ {
			grid = append(grid, [2]float64{float64(x), float64(y)})
		}
	}
	big27 := []float64{0, 1, 1 << 26, 1<<27 - 1, 1<<27 - 3}
	var grid27 [][2]float64
	for _, x := range big27 {
		for _, y := range big27 {
			grid27 = append(grid27, [2]float64{x, y})
		}
	}
	tr := math.Ldexp(1, 40)
	run := func(g [][2]float64, variants bool) {
		c.Parallel(len(g), func(i int) {
			a := g[i]
			for _, b := range g {
				for _, p := range g {
					base := []float64{a[0], a[1], b[0], b[1], p[0], p[1]}
					emit := func(f func(float64) float64, extra bool) {
						v := make([]ref.F, 6)
						for k, x := range base {
							v[k] = ref.F(f(x))
						}
						c10Exec(c, c10Case{Pts: v, Extra: extra})
					}
					emit(func(x float64) float64 { return x }, false)
					if variants {
						emit(func(x float64) float64 { return math.Ldexp(x, 330) }, false)
						emit(func(x float64) float64 { return math.Ldexp(x, -330) }, true)
						emit(func(x float64) float64 { return x + tr }, false)
						emit(func(x float64) float64 { return -x*3 - 1 }, true)
					}
				}
			}
		})
	}
	run(grid, true)
	run(grid27, false)
	bases := collinearBases()
	c.Note("collinear_bases", len(bases))
	type job struct {
		base [6]float64
		d0   int
	}
	var jobs []job
	for _, b := range bases {
		for _, d := range pert {
			jobs = append(jobs, job{b, d})
		}
	}
	c.Parallel(len(jobs), func(i int) {
		b := jobs[i].base
		var rec func(k int, v []ref.F)
		rec = func(k int, v []ref.F) {
			if k == 6 {
				c10Exec(c, c10Case{Pts: append([]ref.F{}, v...)})
				return
			}
			for _, d := range pert {
				v[k] = ref.F(ulps(b[k], d))
				rec(k+1, v)
			}
		}
		v := make([]ref.F, 6)
		v[0] = ref.F(ulps(b[0], jobs[i].d0))
		rec(1, v)
	})
	// exactly collinear triples of mixed magnitude (non-representable differences), all orders,
	// and the same with each ordinate one ulp off
	mc := mixedCollinear()
	c.Note("mixed_magnitude_collinear_triples", len(mc))
	c.Parallel(len(mc), func(i int) {
		t := mc[i]
		perms := [][3]int{{0, 1, 2}, {0, 2, 1}, {1, 0, 2}, {1, 2, 0}, {2, 0, 1}, {2, 1, 0}}
		for _, pm := range perms {
			v := []ref.F{ref.F(t[2*pm[0]]), ref.F(t[2*pm[0]+1]), ref.F(t[2*pm[1]]), ref.F(t[2*pm[1]+1]), ref.F(t[2*pm[2]]), ref.F(t[2*pm[2]+1])}
			c10Exec(c, c10Case{Pts: v})
			for k := 0; k < 6; k++ {
				for _, d := range []int{-1, 1} {
					w := append([]ref.F{}, v...)
					w[k] = ref.F(ulps(float64(w[k]), d))
					c10Exec(c, c10Case{Pts: w})
				}
			}
		}
	})
	// lattice points nearest to a line whose direction has a long continued fraction: consecutive
	// Fibonacci and Pell numbers up to 2^26 (cross product exactly +-1 or +-2)
	for _, seq := range cfSequences() {
		for k := 2; k+1 < len(seq); k++ {
			a, b, d := seq[k-1], seq[k], seq[k+1]
			for _, v := range [][]float64{{0, 0, b, d, a, b}, {0, 0, a, b, b, d}, {a, b, 0, 0, b, d}, {0, 0, 2 * a, 2 * b, a, b}, {1, 0, b + 1, d, a + 1, b},
				{1000, -2000, 1000 + a, -2000 + b, 1000 + b, -2000 + d}, {1000 + a, -2000 + b, 1000, -2000, 1000 + b, -2000 + d}, {1000 + a, -2000 + b, 1000 + b, -2000 + d, 1000, -2000},
				{-a, -b, 0, 0, b, d}, {-a, -b, a, b, b, d}, {d, b, 0, 0, b, a}} {
				w := make([]ref.F, 6)
				for i := range v {
					w[i] = ref.F(v[i])
				}
				c10Exec(c, c10Case{Pts: w})
				c10Exec(c, c10Case{Pts: w, Extra: true})
			}
		}
	}
	// points of very different magnitude on one line through the origin (exponents from -330 to
	// 330, every ordinate inside [1e-100,1e100]): exactly collinear, and with one ordinate one or
	// three ulps off - the deviation is hundreds of binary orders below the leading terms, so any
	// evaluation that rounds before the final sign (at whatever fixed precision) loses it
	exps := []int{-330, -300, -200, -100, -53, 0, 53, 100, 200, 250, 300, 330}
	slopes := []float64{1, 2, 3, 0.5, -1.5}
	type wjob struct {
		s      float64
		e1, e2 int
	}
	var wjobs []wjob
	for _, sl := range slopes {
		for _, e1 := range exps {
			for _, e2 := range exps {
				wjobs = append(wjobs, wjob{sl, e1, e2})
			}
		}
	}
	c.Parallel(len(wjobs), func(i int) {
		j := wjobs[i]
		for _, e3 := range exps {
			if j.e1 == j.e2 || j.e2 == e3 || j.e1 == e3 {
				continue
			}
			base := []float64{math.Ldexp(1, j.e1), j.s * math.Ldexp(1, j.e1), math.Ldexp(1, j.e2), j.s * math.Ldexp(1, j.e2), math.Ldexp(1, e3), j.s * math.Ldexp(1, e3)}
			v := make([]ref.F, 6)
			for k, x := range base {
				v[k] = ref.F(x)
			}
			c10Exec(c, c10Case{Pts: v})
			c.Count("wide_exponent_triples", 1)
			for k := 0; k < 6; k++ {
				for _, d := range []int{-3, -1, 1, 3} {
					w := append([]ref.F{}, v...)
					w[k] = ref.F(ulps(float64(w[k]), d))
					c10Exec(c, c10Case{Pts: w})
				}
			}
		}
	})
	// per-axis magnitude product: every triple of points of V x V, V = {0, 1e-100, 3e-50, 1, 2, 3,
	// 1e100} and its negation - one axis can span 660 binary orders while the other is narrow, and
	// a single tiny ordinate can be the whole determinant ((1,1),(2,2),(1e-100,0))
	vals := []float64{0, 1e-100, 3e-50, 1, 2, 3, 1e100}
	var prod [][2]float64
	for _, x := range vals {
		for _, y := range vals {
			prod = append(prod, [2]float64{x, y})
		}
	}
	c.Parallel(len(prod), func(i int) {
		a := prod[i]
		for _, b := range prod {
			for _, p := range prod {
				v := []ref.F{ref.F(a[0]), ref.F(a[1]), ref.F(b[0]), ref.F(b[1]), ref.F(p[0]), ref.F(p[1])}
				c10Exec(c, c10Case{Pts: v})
				w := []ref.F{ref.F(-a[0]), ref.F(a[1]), ref.F(-b[0]), ref.F(b[1]), ref.F(-p[0]), ref.F(p[1])}
				c10Exec(c, c10Case{Pts: w, Extra: true})
				c.Count("axis_magnitude_triples", 2)
			}
		}
	})
	// lean sweeps (c10sweep.go): float-line lattice, many mixed-magnitude collinear triples, big
	// integers with unit cross products across quadrants
	if c.Thorough() {
		c10FloatLines(c, 256)
		c10MixedSweep(c, 20, 200)
		c10ThroughOrigin(c, 8192)
	} else {
		c10FloatLines(c, 64)
		c10MixedSweep(c, 20, 60)
		c10ThroughOrigin(c, 1024)
	}
	c10BigIntegers(c)
	c10MixedScale(c)
	c10IntRange(c)
	c10SecondOrder(c)
	if c.Get("exactly_collinear") == 0 || c.Get("non_collinear") == 0 {
		c.Warn("vacuous: one of the sign classes is empty")
	}
}
