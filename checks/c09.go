package checks

import (
	"encoding/json"
	"fmt"
	"math"
	"math/big"

	"github.com/twpayne/go-geom"

	"verif/engine"
	"verif/ref"
)

// C09 — length and area exact up to rounding, additive, total.

type c09Case struct {
	G *ref.G `json:"g,omitempty"`
	// Gen names a deterministically generated large model ("big/<kind>/<layout>/<n>") instead of
	// spelling out tens of thousands of coordinates in the replay file.
	Gen string `json:"gen,omitempty"`
}

// c09Lat is the deterministic lattice of the large instances.
func c09Lat(i int) pt2 { return pt2{float64((i * 7919) % 1009), float64((i * 104729) % 997)} }

// c09Gen builds the model a Gen string names: one part of n lattice vertices (closed for the
// area-bearing kinds), surrounded by small parts for the multi-part kinds.
func c09Gen(gen string) *ref.G {
	var kind, n int
	var l int
	if _, err := fmt.Sscanf(gen, "big/%d/%d/%d", &kind, &l, &n); err != nil {
		panic("c09: bad generator " + gen)
	}
	lay := geom.Layout(l)
	pts := make([]pt2, 0, n+1)
	for i := 0; i < n; i++ {
		pts = append(pts, c09Lat(i+n))
	}
	small := closed(c09Lat(1), c09Lat(2), c09Lat(3))
	f := ref.Counter()
	switch ref.Kind(kind) {
	case ref.LineString:
		return &ref.G{Kind: ref.LineString, Layout: lay, C1: ringC(pts, lay, f)}
	case ref.LinearRing:
		return &ref.G{Kind: ref.LinearRing, Layout: lay, C1: ringC(closed(pts...), lay, f)}
	case ref.Polygon:
		return &ref.G{Kind: ref.Polygon, Layout: lay, C2: [][]ref.C{ringC(small, lay, f), ringC(closed(pts...), lay, f), {}, ringC(small, lay, f)}}
	case ref.MultiLineString:
		return &ref.G{Kind: ref.MultiLineString, Layout: lay, C2: [][]ref.C{{}, ringC(pts, lay, f), ringC(small, lay, f)}}
	case ref.MultiPolygon:
		return &ref.G{Kind: ref.MultiPolygon, Layout: lay, C3: [][][]ref.C{{ringC(small, lay, f)}, {}, {ringC(closed(pts...), lay, f), ringC(small, lay, f)}}}
	}
	panic("c09: bad generator kind " + gen)
}

func init() {
	engine.Register(&engine.Check{
		ID: "C09", Level: "exploration",
		Rule: "every closed ring of 3 (and 4) free vertices on the 4x4 (3x3 quick for 4) integer grid as LinearRing, single-ring Polygon and single-polygon MultiPolygon; every polyline of 0..3 grid points; every sequence of 0..3 rings over a 6-ring menu (empty, ccw, cw, quad, 1-point, 2-point) as Polygon; every sequence of 0..3 polygons over an 8-polygon menu (incl. no-ring and empty-ring polygons) as MultiPolygon; every sequence of 0..3 lines over a 4-line menu as MultiLineString; plus large instances (rings and lines of 10/100/1000 lattice vertices, polygons of up to 200 rings, multipolygons of up to 260 polygons incl. empty ones) x layouts (extra ordinates are distractors) x exact scalings 2^k; plus the empty NoLayout geometry of every type; a slope lattice (segments and slivers whose ordinate differences have ratio 2^-j, j=0..60, and 10^-j, j=1..18, both axis orders, three lengths); every triangle and axis-parallel rectangle over {-(2^31-1),-1.5e9,-1,1,1.6e9,2^31-1}^2; mixed magnitudes (every closed quadrilateral on {-2,-1,1,2}^2 with one ordinate of the first or third vertex scaled by 2^40 or 2^80); Area/Length vs rational shoelace and 256-bit sqrt sums with a forward error bound; additivity against part accessors; totality (no panic). distinct_nontrivial = distinct geometries with at least one segment Also: one very long part per kind with 2^k-1, 2^k, 2^k+1 coordinates up to 2^15 (thorough 2^17), and every query / in-place change / query history of length <=3 (thorough 4) on live geometries (writes through FlatCoords, Coord(i) and part accessors, TransformInPlace, Reverse, SetCoords, Push). Round 7: every geometry with zero-length components also rebuilt by New*Flat from non-nil empty slices, and a clone of that (same Area/Length, no panic). Round 8: Area/Length bit-identical after SetSRID(4326), (3857), (0). Round 11: segments whose dx lies hundreds of binades below dy (and the other way round), six geometry shapes.",
		Run:  c09Run,
		Replay: func(c *engine.Ctx, kind string, raw json.RawMessage) {
			if kind == "c09-history" {
				replayLive(c, kind, "history", decodeCase[liveCase](raw), c09LiveQuery)
				return
			}
			c09Exec(c, decodeCase[c09Case](raw))
		},
		Assumptions: []string{
			"Area is compared on closed rings only (for an unclosed ring the trapezoid form and the shoelace form differ by a boundary term the property does not fix)",
			"math/big is exact; tolerance (n+4)*2^-52*sum|terms| bounds one summation pass",
		},
	})
}

type pt2 = [2]float64

func ringC(pts []pt2, l geom.Layout, f ref.Filler) []ref.C {
	out := make([]ref.C, len(pts))
	for i, p := range pts {
		c := make(ref.C, l.Stride())
		c[0], c[1] = ref.F(p[0]), ref.F(p[1])
		for k := 2; k < len(c); k++ {
			c[k] = f() * 1e6
		}
		out[i] = c
	}
	return out
}

func closed(pts ...pt2) []pt2 { return append(append([]pt2{}, pts...), pts[0]) }

func c09Run(c *engine.Ctx) {
	// one segment whose two coordinate differences are 2^500 and more apart in magnitude (the
	// ordinates themselves stay within 2^-400 .. 2^200), either way round, alone and inside longer
	// lines, rings and multi-part geometries: squaring or scaling by one of the two must not overflow
	{
		tiny := []float64{math.Ldexp(1, -320), math.Ldexp(1, -400), 5e-324, -math.Ldexp(3, -330)}
		huge := []float64{math.Ldexp(1, 200), -math.Ldexp(1, 150), math.Ldexp(3, 190)}
		for _, a := range tiny {
			for _, b := range huge {
				for _, swap := range []bool{false, true} {
					dx, dy := a, b
					if swap {
						dx, dy = b, a
					}
					for _, l := range []geom.Layout{geom.XY, geom.XYZM} {
						co := func(x, y float64) ref.C {
							c := make(ref.C, l.Stride())
							c[0], c[1] = ref.F(x), ref.F(y)
							for k := 2; k < len(c); k++ {
								c[k] = 7
							}
							return c
						}
						seg := []ref.C{co(0, 0), co(dx, dy)}
						long := []ref.C{co(1, 1), co(0, 0), co(dx, dy), co(dx, dy)}
						ring := []ref.C{co(0, 0), co(dx, dy), co(dx, 0), co(0, 0)}
						for _, g := range []*ref.G{
							{Kind: ref.LineString, Layout: l, C1: seg},
							{Kind: ref.LineString, Layout: l, C1: long},
							{Kind: ref.LinearRing, Layout: l, C1: ring},
							{Kind: ref.Polygon, Layout: l, C2: [][]ref.C{ring}},
							{Kind: ref.MultiLineString, Layout: l, C2: [][]ref.C{seg, {}, long}},
							{Kind: ref.MultiPolygon, Layout: l, C3: [][][]ref.C{{}, {ring}}},
						} {
							c.Count("extreme_ratio_segments", 1)
							c09Exec(c, c09Case{G: g})
						}
					}
				}
			}
		}
	}

	var cases []*ref.G
	add := func(g *ref.G) { cases = append(cases, g) }
	grid := func(n int) []pt2 {
		var g []pt2
		for x := 0; x < n; x++ {
			for y := 0; y < n; y++ {
				g = append(g, pt2{float64(x), float64(y)})
			}
		}
		return g
	}
	g4 := grid(4)
	g3 := grid(3)
	exhaustLayouts := []geom.Layout{geom.XY, geom.XYZM}
	addRing := func(pts []pt2) {
		for _, l := range exhaustLayouts {
			r := ringC(pts, l, ref.Counter())
			add(&ref.G{Kind: ref.LinearRing, Layout: l, C1: r})
			add(&ref.G{Kind: ref.Polygon, Layout: l, C2: [][]ref.C{r}})
			add(&ref.G{Kind: ref.MultiPolygon, Layout: l, C3: [][][]ref.C{{r}}})
		}
	}
	for _, a := range g4 {
		for _, b := range g4 {
			for _, d := range g4 {
				addRing(closed(a, b, d))
				for _, l := range exhaustLayouts {
					add(&ref.G{Kind: ref.LineString, Layout: l, C1: ringC([]pt2{a, b, d}, l, ref.Counter())})
				}
			}
			for _, l := range exhaustLayouts {
				add(&ref.G{Kind: ref.LineString, Layout: l, C1: ringC([]pt2{a, b}, l, ref.Counter())})
			}
		}
	}
	quadGrid := g3
	if c.Thorough() {
		quadGrid = g4
	}
	for _, a := range quadGrid {
		for _, b := range quadGrid {
			for _, d := range quadGrid {
				for _, e := range quadGrid {
					addRing(closed(a, b, d, e))
				}
			}
		}
	}
	// mixed magnitudes: every closed quadrilateral on the grid {-2,-1,1,2}^2 (symmetric about both
	// axes, so trapezoid terms x[i]+x[i-1] cancel exactly on many edges) with the X of the first
	// or of the third vertex, or the Y of the first, scaled by 2^40 / 2^80: the forward bound of the
	// trapezoid sum is taken over its own terms, so a far vertex between two level edges
	// contributes nothing to it
	sym := []float64{-2, -1, 1, 2}
	var symPts []pt2
	for _, x := range sym {
		for _, y := range sym {
			symPts = append(symPts, pt2{x, y})
		}
	}
	mixedStep := 1
	if !c.Thorough() {
		mixedStep = 2 // quick: first vertex from every second grid point
	}
	for ai := 0; ai < len(symPts); ai += mixedStep {
		a := symPts[ai]
		for _, b := range symPts {
			for _, d := range symPts {
				for _, e := range symPts {
					for v := 0; v < 4; v++ {
						q := []pt2{a, b, d, e}
						switch v {
						case 0:
							q[0][0] *= math.Ldexp(1, 40)
						case 1:
							q[0][0] *= math.Ldexp(1, 80)
						case 2:
							q[2][0] *= math.Ldexp(1, 40)
						case 3:
							q[0][1] *= math.Ldexp(1, 40)
						}
						r := ringC(closed(q...), geom.XY, ref.Counter())
						add(&ref.G{Kind: ref.LinearRing, Layout: geom.XY, C1: r})
						if v == 0 {
							add(&ref.G{Kind: ref.MultiPolygon, Layout: geom.XY, C3: [][][]ref.C{{r}}})
						}
					}
				}
			}
		}
	}
	// NoLayout: the only well-formed geometries of that layout are the empty ones; their measures
	// are zero and asking for them must not panic (stride 0 is a divisor waiting to happen)
	for _, k := range []ref.Kind{ref.Point, ref.LineString, ref.LinearRing, ref.Polygon, ref.MultiPoint, ref.MultiLineString, ref.MultiPolygon} {
		add(&ref.G{Kind: k, Layout: geom.NoLayout})
	}
	// slope lattice: one segment (and a closed sliver) whose ordinate differences have the ratio
	// 2^-j, j = 0..60, and 10^-j, j = 0..18, in both axis orders and at three lengths: the term
	// dy^2 stops contributing only below 2^-27, every ratio above that must show in the length
	for j := 0; j <= 78; j++ {
		r := math.Ldexp(1, -j)
		if j > 60 {
			r = math.Pow(10, -float64(j-60))
		}
		for _, L := range []float64{1, 3, 1 << 20} {
			for _, sw := range []bool{false, true} {
				a, b, d := pt2{0, 0}, pt2{L, L * r}, pt2{L, 0}
				if sw {
					b, d = pt2{L * r, L}, pt2{0, L}
				}
				add(&ref.G{Kind: ref.LineString, Layout: geom.XY, C1: ringC([]pt2{a, b}, geom.XY, ref.Counter())})
				add(&ref.G{Kind: ref.LinearRing, Layout: geom.XYZ, C1: ringC(closed(a, b, d), geom.XYZ, ref.Counter())})
				add(&ref.G{Kind: ref.MultiLineString, Layout: geom.XYM, C2: [][]ref.C{ringC([]pt2{b, a, d}, geom.XYM, ref.Counter())}})
			}
		}
	}
	// integer ordinates at the ends of the 32-bit range: every triangle and every axis-parallel
	// rectangle over {-(2^31-1), -1.5e9, -1, 1, 1.6e9, 2^31-1}^2 (doubled areas beyond 2^63: a sum
	// kept in 64-bit integers wraps around)
	i32 := []float64{-2147483647, -1.5e9, -1, 1, 1.6e9, 2147483647}
	var i32pts []pt2
	for _, x := range i32 {
		for _, y := range i32 {
			i32pts = append(i32pts, pt2{x, y})
		}
	}
	for _, a := range i32pts {
		for _, b := range i32pts {
			for _, d := range i32pts {
				add(&ref.G{Kind: ref.LinearRing, Layout: geom.XY, C1: ringC(closed(a, b, d), geom.XY, ref.Counter())})
			}
		}
	}
	for i, x0 := range i32 {
		for _, x1 := range i32[i+1:] {
			for j, y0 := range i32 {
				for _, y1 := range i32[j+1:] {
					r := ringC(closed(pt2{x0, y0}, pt2{x1, y0}, pt2{x1, y1}, pt2{x0, y1}), geom.XYZ, ref.Counter())
					add(&ref.G{Kind: ref.Polygon, Layout: geom.XYZ, C2: [][]ref.C{r}})
					add(&ref.G{Kind: ref.MultiPolygon, Layout: geom.XYZ, C3: [][][]ref.C{{r}, {}}})
				}
			}
		}
	}
	// structure menus
	ringMenu := [][]pt2{
		{},
		closed(pt2{0, 0}, pt2{3, 0}, pt2{0, 2}),
		closed(pt2{1, 1}, pt2{1, 2}, pt2{2, 1}),
		closed(pt2{0, 0}, pt2{2, 1}, pt2{3, 3}, pt2{1, 2}),
		{{1, 2}},
		{{2, 3}, {2, 3}},
	}
	lineMenu := [][]pt2{{}, {{1, 1}}, {{0, 0}, {3, 1}}, {{1, 0}, {2, 3}, {0, 1}}}
	polyMenu := [][]int{{}, {0}, {1}, {3, 2}, {0, 1}, {1, 0}, {4}, {5, 1}}
	idx6 := []int{0, 1, 2, 3, 4, 5}
	idx8 := []int{0, 1, 2, 3, 4, 5, 6, 7}
	idx4 := []int{0, 1, 2, 3}
	for _, l := range ref.LayoutsAll {
		for _, seq := range ref.Seqs(idx6, 3) {
			f := ref.Counter()
			g := &ref.G{Kind: ref.Polygon, Layout: l}
			g.C2 = [][]ref.C{}
			for _, ri := range seq {
				g.C2 = append(g.C2, ringC(ringMenu[ri], l, f))
			}
			add(g)
		}
		for _, seq := range ref.Seqs(idx8, 3) {
			f := ref.Counter()
			g := &ref.G{Kind: ref.MultiPolygon, Layout: l, C3: [][][]ref.C{}}
			for _, pi := range seq {
				poly := [][]ref.C{}
				for _, ri := range polyMenu[pi] {
					poly = append(poly, ringC(ringMenu[ri], l, f))
				}
				g.C3 = append(g.C3, poly)
			}
			add(g)
		}
		for _, seq := range ref.Seqs(idx4, 3) {
			f := ref.Counter()
			g := &ref.G{Kind: ref.MultiLineString, Layout: l, C2: [][]ref.C{}}
			for _, li := range seq {
				g.C2 = append(g.C2, ringC(lineMenu[li], l, f))
			}
			add(g)
		}
		// points and multipoints: zero measures
		add(ref.NewPoint(l, true, ref.Counter()))
		add(ref.NewPoint(l, false, ref.Counter()))
		for _, p := range ref.Seqs([]int{0, 1}, 3) {
			add(ref.NewMultiPoint(l, p, ref.Counter()))
		}
	}
	// large instances: many vertices, many rings, many polygons (deterministic lattice points)
	lat := func(i int) pt2 { return pt2{float64((i * 7919) % 1009), float64((i * 104729) % 997)} }
	for _, l := range []geom.Layout{geom.XY, geom.XYZM} {
		for _, n := range []int{10, 100, 1000} {
			var pts []pt2
			for i := 0; i < n; i++ {
				pts = append(pts, lat(i+n))
			}
			ring := closed(pts...)
			add(&ref.G{Kind: ref.LinearRing, Layout: l, C1: ringC(ring, l, ref.Counter())})
			add(&ref.G{Kind: ref.LineString, Layout: l, C1: ringC(pts, l, ref.Counter())})
			poly := [][]ref.C{}
			mp := [][][]ref.C{}
			for r := 0; r < n/5; r++ {
				rr := closed(lat(3*r), lat(3*r+1), lat(3*r+2), lat(3*r+7))
				poly = append(poly, ringC(rr, l, ref.Counter()))
				if r%3 == 1 {
					mp = append(mp, [][]ref.C{})
				}
				mp = append(mp, [][]ref.C{ringC(rr, l, ref.Counter()), ringC(closed(lat(r), lat(r+5), lat(r+9)), l, ref.Counter())})
			}
			add(&ref.G{Kind: ref.Polygon, Layout: l, C2: poly})
			add(&ref.G{Kind: ref.MultiLineString, Layout: l, C2: poly})
			add(&ref.G{Kind: ref.MultiPolygon, Layout: l, C3: mp})
		}
	}
	// one very long part per kind: sizes around every power of two up to 2^17 (a summation that is
	// blocked, split or unrolled beyond some length shows there), generated on demand
	var gens []string
	maxK := 15
	if c.Thorough() {
		maxK = 17
	}
	for k := 11; k <= maxK; k++ {
		for _, d := range []int{-1, 0, 1} {
			n := 1<<k + d
			for _, kind := range []ref.Kind{ref.LineString, ref.LinearRing, ref.Polygon, ref.MultiLineString, ref.MultiPolygon} {
				for _, l := range []geom.Layout{geom.XY, geom.XYZ} {
					if l == geom.XYZ && d != 1 {
						continue
					}
					gens = append(gens, fmt.Sprintf("big/%d/%d/%d", int(kind), int(l), n))
				}
			}
		}
	}
	c.Note("big_generated_models", len(gens))
	c.Parallel(len(gens), func(i int) { c09Exec(c, c09Case{Gen: gens[i]}) })
	// query / in-place change / query histories on live objects
	hdepth := 3
	if c.Thorough() {
		hdepth = 4
	}
	c.Note("history_depth", hdepth)
	exploreLive(c, "c09-history", "history", c09LiveStarts(), hdepth, c09LiveQuery)
	scales := []int{0, 200}
	if c.Thorough() {
		scales = []int{-100, 0, 100, 200}
	}
	c.Note("base_geometries", len(cases))
	c.Note("scalings_pow2", scales)
	c.Parallel(len(cases), func(i int) {
		for _, k := range scales {
			g := cases[i]
			if k != 0 {
				g = scaleXY(g, math.Ldexp(1, k))
			}
			c09Exec(c, c09Case{G: g})
		}
	})
	for _, k := range []string{"area_compared", "length_compared", "additivity_compared", "empty_polygon_member"} {
		if c.Get(k) == 0 {
			c.Warn("vacuous: counter " + k + " is zero")
		}
	}
}

func scaleXY(g *ref.G, s float64) *ref.G {
	h := g.Clone()
	sc := func(c ref.C) {
		if len(c) >= 2 {
			c[0] *= ref.F(s)
			c[1] *= ref.F(s)
		}
	}
	sc(h.C0)
	for _, x := range h.C1 {
		sc(x)
	}
	for _, x := range h.C2 {
		for _, y := range x {
			sc(y)
		}
	}
	for _, x := range h.C3 {
		for _, y := range x {
			for _, z := range y {
				sc(z)
			}
		}
	}
	return h
}

type measured interface {
	Area() float64
	Length() float64
}

// exactMeasures returns twice the exact signed area (nil when some ring is not closed),
// the exact length, the number of vertices and sum of |terms| for both bounds.
func exactMeasures(g *ref.G) (area2 *big.Rat, length *big.Float, n int, absArea2, absLen float64) {
	area2 = new(big.Rat)
	length = new(big.Float).SetPrec(ref.Prec)
	closedAll := true
	ring := func(cs []ref.C, isArea, isLen bool) {
		pts := ref.XY(cs)
		n += len(pts)
		if isArea {
			if len(pts) >= 2 && pts[0] != pts[len(pts)-1] {
				closedAll = false
			}
			area2.Add(area2, ref.Shoelace2(pts))
			for i := 1; i < len(pts); i++ {
				absArea2 += math.Abs(pts[i].Y-pts[i-1].Y) * (math.Abs(pts[i].X) + math.Abs(pts[i-1].X))
			}
		}
		if isLen {
			l := ref.PolylineLength(pts)
			length.Add(length, l)
			absLen += ref.F64(l)
		}
	}
	switch g.Kind {
	case ref.LineString:
		ring(g.C1, false, true)
	case ref.LinearRing:
		ring(g.C1, true, true)
	case ref.Polygon:
		for _, r := range g.C2 {
			ring(r, true, true)
		}
	case ref.MultiLineString:
		for _, r := range g.C2 {
			ring(r, false, true)
		}
	case ref.MultiPolygon:
		for _, p := range g.C3 {
			for _, r := range p {
				ring(r, true, true)
			}
		}
	}
	if !closedAll {
		area2 = nil
	}
	return
}

func c09Exec(c *engine.Ctx, cs c09Case) {
	c.Count("evaluations", 1)
	g := cs.G
	if g == nil {
		g = c09Gen(cs.Gen)
	}
	keyBase := fmt.Sprintf("%s/%s", g.Kind, layoutName(g.Layout))
	fail := func(what, desc string) {
		c.Violate(keyBase+"/"+what, desc+" model="+clipStr(cs.Gen+g.String(), 1500), "c09", cs)
	}
	t := g.MustBuild()
	m, ok := t.(measured)
	if !ok {
		panic("geometry without Area/Length")
	}
	if g.Kind == ref.MultiPolygon {
		for _, p := range g.C3 {
			if len(p) == 0 {
				c.Count("empty_polygon_member", 1)
				break
			}
		}
	}
	var area, length float64
	if p, _ := engine.Guard(func() { area = m.Area() }); p != nil {
		fail("area-panic", fmt.Sprintf("Area() panicked: %v", p))
		return
	}
	if p, _ := engine.Guard(func() { length = m.Length() }); p != nil {
		fail("length-panic", fmt.Sprintf("Length() panicked: %v", p))
		return
	}
	// measures are those of the coordinates as plain numbers: an SRID set on the geometry (4326 is
	// longitude/latitude, 3857 web mercator) changes nothing
	for _, srid := range []int{4326, 3857, 0} {
		var a2, l2 float64
		if p, _ := engine.Guard(func() {
			if _, err := geom.SetSRID(t, srid); err != nil {
				panic(err)
			}
			a2, l2 = m.Area(), m.Length()
		}); p != nil {
			fail("srid-panic", fmt.Sprintf("Area()/Length() after SetSRID(%d) panicked: %v", srid, p))
			return
		}
		if math.Float64bits(a2) != math.Float64bits(area) || math.Float64bits(l2) != math.Float64bits(length) {
			fail("srid-dependent", fmt.Sprintf("area %v length %v, but %v and %v after SetSRID(%d)", area, length, a2, l2, srid))
			return
		}
	}
	// the same geometry in its other representations: zero-length parts recorded as non-nil empty
	// slices (what a caller of the New*Flat constructors may pass) instead of nil, and a clone of that
	for _, v := range emptySliceVariants(t) {
		var a2, l2 float64
		if p, _ := engine.Guard(func() { a2, l2 = v.(measured).Area(), v.(measured).Length() }); p != nil {
			fail("variant-panic", fmt.Sprintf("Area()/Length() panicked on the same geometry built with New*Flat from non-nil empty slices: %v", p))
			return
		}
		if a2 != area || l2 != length {
			fail("variant-differs", fmt.Sprintf("area %v length %v, but %v and %v when empty parts are non-nil empty slices", area, length, a2, l2))
			return
		}
		c.Count("empty_slice_variants", 1)
	}
	area2, exLen, n, absA2, absL := exactMeasures(g)
	u := math.Ldexp(1, -52)
	switch g.Kind {
	case ref.Point, ref.MultiPoint:
		if area != 0 || length != 0 {
			fail("nonzero", fmt.Sprintf("area=%v length=%v for a point geometry", area, length))
		}
		return
	case ref.LineString, ref.MultiLineString:
		if area != 0 {
			fail("line-area", fmt.Sprintf("area=%v for a line geometry", area))
			return
		}
	}
	if area2 != nil && g.Kind != ref.LineString && g.Kind != ref.MultiLineString {
		want := ref.RatToFloat(area2)
		want.Quo(want, big.NewFloat(2))
		tol := float64(n+4) * u * absA2 / 2
		if !ref.AbsDiffLE(area, want, tol) {
			fail("area", fmt.Sprintf("Area()=%v exact=%v tol=%g", area, want.Text('g', 20), tol))
			return
		}
		c.Count("area_compared", 1)
	}
	tolL := float64(n+4) * u * absL
	if !ref.AbsDiffLE(length, exLen, tolL) {
		fail("length", fmt.Sprintf("Length()=%v exact=%v tol=%g", length, exLen.Text('g', 20), tolL))
		return
	}
	c.Count("length_compared", 1)
	// additivity against the part accessors
	var sumA, sumL float64
	parts := 0
	switch tt := t.(type) {
	case *geom.Polygon:
		for i := 0; i < tt.NumLinearRings(); i++ {
			sumA += tt.LinearRing(i).Area()
			sumL += tt.LinearRing(i).Length()
			parts++
		}
	case *geom.MultiLineString:
		for i := 0; i < tt.NumLineStrings(); i++ {
			sumL += tt.LineString(i).Length()
			parts++
		}
	case *geom.MultiPolygon:
		for i := 0; i < tt.NumPolygons(); i++ {
			sumA += tt.Polygon(i).Area()
			sumL += tt.Polygon(i).Length()
			parts++
		}
	default:
		parts = -1
	}
	if parts >= 0 {
		if math.Abs(sumA-area) > float64(n+4)*u*absA2 || math.Abs(sumL-length) > 2*tolL {
			fail("additivity", fmt.Sprintf("whole area=%v parts=%v; whole length=%v parts=%v", area, sumA, length, sumL))
			return
		}
		c.Count("additivity_compared", 1)
	}
	if n >= 2 {
		if cs.Gen != "" {
			c.DistinctStr(cs.Gen)
			c.Count("big_generated", 1)
			return
		}
		c.DistinctStr(g.String())
	}
	c.Sample(g.Kind.String(), 1, cs)
}

// c09LiveQuery is the query of the history exploration: Area and Length of the live object
// against the exact measures of the model as it is now.
func c09LiveQuery(t geom.T, m *ref.G, final bool) string {
	mm, ok := t.(measured)
	if !ok {
		return ""
	}
	area, length := mm.Area(), mm.Length()
	if !final {
		return ""
	}
	area2, exLen, n, absA2, absL := exactMeasures(m)
	u := math.Ldexp(1, -52)
	switch m.Kind {
	case ref.Point, ref.MultiPoint:
		if area != 0 || length != 0 {
			return fmt.Sprintf("area=%v length=%v for a point geometry", area, length)
		}
		return ""
	case ref.LineString, ref.MultiLineString:
		if area != 0 {
			return fmt.Sprintf("area=%v for a line geometry", area)
		}
		area2 = nil
	}
	if area2 != nil {
		want := ref.RatToFloat(area2)
		want.Quo(want, big.NewFloat(2))
		if tol := float64(n+4) * u * absA2 / 2; !ref.AbsDiffLE(area, want, tol) {
			return fmt.Sprintf("Area()=%v but the exact area of its current coordinates is %v", area, want.Text('g', 20))
		}
	}
	if tolL := float64(n+4) * u * absL; !ref.AbsDiffLE(length, exLen, tolL) {
		return fmt.Sprintf("Length()=%v but the exact length of its current coordinates is %v", length, exLen.Text('g', 20))
	}
	return ""
}

// c09LiveStarts: start geometries with closed rings (so that area stays comparable under the
// operations that keep rings closed: transform, reverse, part-reverse).
func c09LiveStarts() []*ref.G {
	var out []*ref.G
	sq := closed(pt2{0, 0}, pt2{10, 0}, pt2{10, 10}, pt2{0, 10})
	hole := closed(pt2{2, 2}, pt2{2, 4}, pt2{4, 4}, pt2{4, 2})
	tri := closed(pt2{20, 0}, pt2{26, 1}, pt2{23, 9})
	for _, l := range []geom.Layout{geom.XY, geom.XYZ, geom.XYM, geom.XYZM} {
		f := ref.Counter()
		out = append(out,
			&ref.G{Kind: ref.LineString, Layout: l, C1: ringC([]pt2{{0, 0}, {3, 4}, {3, 10}, {-5, 10}}, l, f)},
			&ref.G{Kind: ref.LinearRing, Layout: l, C1: ringC(tri, l, f)},
			&ref.G{Kind: ref.Polygon, Layout: l, C2: [][]ref.C{ringC(sq, l, f), ringC(hole, l, f)}},
			&ref.G{Kind: ref.MultiLineString, Layout: l, C2: [][]ref.C{ringC(sq, l, f), {}, ringC([]pt2{{1, 1}, {4, 5}}, l, f)}},
			&ref.G{Kind: ref.MultiPolygon, Layout: l, C3: [][][]ref.C{{ringC(sq, l, f), ringC(hole, l, f)}, {}, {ringC(tri, l, f)}}},
			ref.NewMultiPoint(l, []int{1, 0, 1}, f),
		)
	}
	return out
}
