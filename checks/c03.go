package checks

import (
	"bufio"
	"bytes"
	"database/sql"
	"database/sql/driver"
	"encoding/binary"
	"encoding/hex"
	"encoding/json"
	"errors"
	"fmt"
	"io"
	"math"
	"os"
	"strings"

	"github.com/twpayne/go-geom"
	"github.com/twpayne/go-geom/encoding/ewkb"
	"github.com/twpayne/go-geom/encoding/ewkbhex"
	"github.com/twpayne/go-geom/encoding/wkb"
	"github.com/twpayne/go-geom/encoding/wkbcommon"
	"github.com/twpayne/go-geom/encoding/wkbhex"

	"verif/engine"
	"verif/ref"
)

// C03 — WKB/EWKB emit the standard byte layout and decode back to the same geometry;
// stream behaviour under every reader split / writer fault within the deviation bound.

type c03Case struct {
	Mode string `json:"mode"` // bytes | sql | reader | writer
	G    *ref.G `json:"g"`
	G2   *ref.G `json:"g2,omitempty"`
	XDR  bool   `json:"xdr"`
	Ext  bool   `json:"ewkb"`
	NaN  bool   `json:"nan_mode,omitempty"`
	Full bool   `json:"full_menu,omitempty"`
	// RK (reader mode): what kind of io.Reader the decoder is handed: 0 = a plain reader, 1 = a
	// reader that also has a Seek method which fails (a pipe or socket opened as a file), 2 = a
	// bufio.Reader with the smallest buffer (16 bytes), 3 = a bufio.Reader with the default buffer
	RK int `json:"reader_kind,omitempty"`
	// Transient (writer mode): the injected writer fault happens once, later Write calls succeed.
	Transient bool  `json:"transient,omitempty"`
	Choices   []int `json:"choices,omitempty"`
}

func init() {
	engine.Register(&engine.Check{
		ID: "C03", Level: "fault_enumeration",
		Rule: "corpus = universe U in XY/XYZ/XYM/XYZM + collections (mixed layouts, empty members, nesting) + 14 large geometries whose coordinate arrays straddle 512/1024 floats and 4/8/64 KiB x {NDR,XDR} x {WKB default, WKB NaN mode, EWKB} x top-level SRID in {0,1,4326,2^31-1,2^31,2^32-1} + special-float sweep; bytes compared with an independent reference encoder, decode compared with the model (carve-outs computed); hex and SQL wrappers; Read over a fault-injecting reader on enc(g1)||enc(g2): all answer sequences with <=1 (quick) / <=2 (thorough) non-default answers from {all, 1 byte, all-but-one, data+EOF}, and ALL chunk compositions for encodings <= 22 bytes; Write over a fault-injecting writer: every Write call index x {fail, short write}. distinct_nontrivial = distinct (case) tuples with at least one coordinate Also: a point nested 10..1000 (thorough 4000) collections deep; every NaN pattern of a point (each ordinate from canonical/payload/negative NaN and an ordinary value) stand-alone, as multipoint member and inside nested collections; every query / in-place change / query history of length <=3 (thorough 4) on live geometries and collections (incl. a point pushed into a nested, possibly still empty, collection after the outer one was encoded): the bytes must be the reference encoding of the geometry as it is now; two-step histories in which the bytes returned by Marshal and by the SQL Value() methods are kept while shorter and longer geometries are encoded, then compared again. Round 7: the reader exploration also with the case geometry LAST in the stream, and data delivered together with io.EOF after the fully enumerated first geometry. Round 8: the reader schedules again behind a reader with a failing Seek method and behind bufio.Readers of 16 and 4096 bytes. Round 9: the writer exploration again with one-off faults (later Write calls succeed); one SQL wrapper scanned into twice (the rows loop). Round 10: every value of the last byte of an encoding (256 values in the lowest mantissa byte and in the sign/exponent byte of the last ordinate) through Unmarshal, hex and every SQL wrapper; polygons with 65536, 65537, 70001 rings and multi-geometries / collections with 65537 members. Round 11: after every failed write the geometry is encoded again and compared with its encoding before the write (a fresh geometry per execution). Round 12: nothing is refused under the package's default settings - a multi-line with 2^20+1 members round-tripped, and count prefixes of 2^16+1..2^28+1 members for every multi-part type may run out of input but not be called too large.",
		Run:  c03Run,
		Replay: func(c *engine.Ctx, kind string, raw json.RawMessage) {
			if kind == "c03prefix" {
				c03Prefix(c, decodeCase[c03PrefixCase](raw))
				return
			}
			if kind == "c03-history" {
				replayLive(c, kind, "history", decodeCase[liveCase](raw), c03LiveQuery)
				return
			}
			c03Exec(c, decodeCase[c03Case](raw), nil)
		},
		Assumptions: []string{
			"Children of collections keep SRID 0 (what the constructors produce); (0,nil) reads are not part of the reader menu",
			"Reference encoder ref.EncodeWKB written from the ISO WKB / PostGIS EWKB format descriptions",
		},
	})
}

// c03PrefixCase: the beginning of an encoding (up to the first count) decoded under the package's
// default settings.
type c03PrefixCase struct {
	Hex string `json:"hex"`
	Ext bool   `json:"ext"`
}

func c03Prefix(c *engine.Ctx, cs c03PrefixCase) {
	head, _ := hex.DecodeString(cs.Hex)
	var err error
	if pn, _ := engine.Guard(func() {
		if cs.Ext {
			_, err = ewkb.Unmarshal(head)
		} else {
			_, err = wkb.Unmarshal(head)
		}
	}); pn != nil {
		err = fmt.Errorf("panic: %v", pn)
	}
	var tl wkbcommon.ErrGeometryTooLarge
	if err == nil || errors.As(err, &tl) || strings.HasPrefix(err.Error(), "panic") {
		c.Violate("default-limits/"+cs.Hex[2:10], fmt.Sprintf("under the package's default settings the first bytes %s of an encoding give %v (ewkb=%v): no geometry with that many elements can be decoded, although it can be encoded", cs.Hex, err, cs.Ext), "c03prefix", cs)
	}
}

func bo(xdr bool) binary.ByteOrder {
	if xdr {
		return wkb.XDR
	}
	return wkb.NDR
}

func nanOpt(on bool) []wkbcommon.WKBOption {
	if on {
		return []wkbcommon.WKBOption{wkbcommon.WKBOptionEmptyPointHandling(wkbcommon.EmptyPointHandlingNaN)}
	}
	return nil
}

func c03Marshal(t geom.T, cs c03Case) ([]byte, error) {
	failWKB() // two-call history: an encode that fails after partial output comes first (poison.go)
	if cs.Ext {
		return ewkb.Marshal(t, bo(cs.XDR))
	}
	return wkb.Marshal(t, bo(cs.XDR), nanOpt(cs.NaN)...)
}

func c03Unmarshal(b []byte, cs c03Case) (geom.T, error) {
	if cs.Ext {
		return ewkb.Unmarshal(b)
	}
	return wkb.Unmarshal(b, nanOpt(cs.NaN)...)
}

func c03Read(r io.Reader, cs c03Case) (geom.T, error) {
	if cs.Ext {
		return ewkb.Read(r)
	}
	return wkb.Read(r, nanOpt(cs.NaN)...)
}

func c03Write(w io.Writer, t geom.T, cs c03Case) error {
	if cs.Ext {
		return ewkb.Write(w, bo(cs.XDR), t)
	}
	return wkb.Write(w, bo(cs.XDR), t, nanOpt(cs.NaN)...)
}

func fmtName(cs c03Case) string {
	n := "wkb"
	if cs.Ext {
		n = "ewkb"
	}
	if cs.NaN {
		n += "-nan"
	}
	if cs.XDR {
		return n + "/xdr"
	}
	return n + "/ndr"
}

func supportedLayout(g *ref.G) bool {
	ok := true
	var rec func(x *ref.G)
	rec = func(x *ref.G) {
		if x.Kind == ref.Collection {
			if len(x.Kids) == 0 && x.Layout > geom.XYZM {
				ok = false
			}
			for _, k := range x.Kids {
				rec(k)
			}
			return
		}
		if x.Layout == geom.NoLayout || x.Layout > geom.XYZM {
			ok = false
		}
	}
	rec(g)
	return ok
}

// expectation of one decode: the model with the format carve-outs applied; WKB drops the SRID.
func c03Expect(g *ref.G, cs c03Case) *ref.G {
	e := ref.ExpectDecoded(g, cs.Ext || cs.NaN)
	if !cs.Ext {
		e.SRID = 0
	}
	return e
}

func c03Exec(c *engine.Ctx, cs c03Case, _ *engine.ExploreStats) {
	g := cs.G
	keyBase := fmt.Sprintf("%s/%s/%s/%s", cs.Mode, fmtName(cs), g.Kind, g.Layout)
	fail := func(what, desc string) { c.Violate(keyBase+"/"+what, desc+" model="+g.String(), "c03", cs) }
	switch cs.Mode {
	case "bytes":
		c.Count("evaluations", 1)
		var t geom.T
		var got []byte
		var err error
		if p, stack := engine.Guard(func() {
			t = g.MustBuild()
			got, err = c03Marshal(t, cs)
		}); p != nil {
			fail("marshal-panic", fmt.Sprintf("panic %v\n%s", p, firstLines(stack, 12)))
			return
		}
		if !supportedLayout(g) {
			var ul geom.ErrUnsupportedLayout
			if err == nil || !errors.As(err, &ul) {
				fail("unsupported-layout-accepted", fmt.Sprintf("layout beyond XYZM: err=%v", err))
				return
			}
			c.Count("unsupported_layout_rejected", 1)
			return
		}
		if !cs.Ext && !cs.NaN && ref.HasEmptyPoint(g) {
			if err == nil {
				fail("empty-point-accepted", "WKB default mode encoded an empty point")
				return
			}
			c.Count("empty_point_rejected", 1)
			return
		}
		if err != nil {
			fail("marshal-error", "Marshal: "+err.Error())
			return
		}
		want := ref.EncodeWKB(g, cs.XDR, cs.Ext)
		if !bytes.Equal(got, want) {
			fail("bytes", fmt.Sprintf("Marshal=%x reference=%x", got, want))
			return
		}
		exp := c03Expect(g, cs)
		check := func(tag string, dec func() (geom.T, error)) bool {
			var d geom.T
			var derr error
			if p, stack := engine.Guard(func() { d, derr = dec() }); p != nil {
				fail(tag+"-panic", fmt.Sprintf("panic %v\n%s", p, firstLines(stack, 12)))
				return false
			}
			if derr != nil {
				fail(tag+"-error", derr.Error())
				return false
			}
			if werr := ref.WellFormed(d); werr != nil {
				fail(tag+"-ill-formed", werr.Error())
				return false
			}
			if diff := observeEq(d, exp, ref.EqualOpt{}); diff != "" {
				fail(tag+"-unequal", diff)
				return false
			}
			return true
		}
		if !check("unmarshal", func() (geom.T, error) { return c03Unmarshal(want, cs) }) {
			return
		}
		// stream API on plain buffers
		var buf bytes.Buffer
		if err := c03Write(&buf, t, cs); err != nil || !bytes.Equal(buf.Bytes(), want) {
			fail("write", fmt.Sprintf("Write err=%v bytes=%x reference=%x", err, buf.Bytes(), want))
			return
		}
		if !check("read", func() (geom.T, error) { return c03Read(bytes.NewReader(want), cs) }) {
			return
		}
		// hex variants
		var hx string
		var herr error
		if cs.Ext {
			hx, herr = ewkbhex.Encode(t, bo(cs.XDR))
		} else {
			hx, herr = wkbhex.Encode(t, bo(cs.XDR), nanOpt(cs.NaN)...)
		}
		if herr != nil || hx != hex.EncodeToString(want) {
			fail("hex-encode", fmt.Sprintf("hex Encode err=%v got %s want %s", herr, hx, hex.EncodeToString(want)))
			return
		}
		for _, s := range []string{hx, strings.ToUpper(hx)} {
			s := s
			if !check("hex-decode", func() (geom.T, error) {
				if cs.Ext {
					return ewkbhex.Decode(s)
				}
				return wkbhex.Decode(s, nanOpt(cs.NaN)...)
			}) {
				return
			}
		}
		// the bytes returned by Marshal belong to the caller: later encoder calls must not change them
		if p, _ := engine.Guard(func() {
			c03Marshal(c03ShortGeom, cs) // shorter than any other encoding: overwrites a reused buffer in place
			c03Marshal(c03OtherGeom, cs)
			c03Marshal(c03OtherGeom, cs)
		}); p == nil && !bytes.Equal(got, want) {
			fail("retained-bytes-changed", fmt.Sprintf("the slice returned by Marshal changed after later encoder calls: now %x, was %x", got, want))
			return
		}
		c.Count("bytes_compared", 1)
		if g.NumOrdinates() > 0 {
			c.DistinctStr(mustJSON(cs))
		}
		c.Sample("bytes/"+fmtName(cs), 1, map[string]any{"case": cs, "hex": hx})
	case "sql":
		c.Count("evaluations", 1)
		c03SQL(c, cs, fail)
	case "reader":
		fx := newReaderFixture(cs)
		savedLimits := wkbcommon.MaxGeometryElements
		wkbcommon.MaxGeometryElements = [4]int{0, 1 << 16, 1 << 16, 1 << 16}
		defer func() { wkbcommon.MaxGeometryElements = savedLimits }()
		engine.ReplayChoices(cs.Choices, func(m *engine.MC) { readerBody(c, cs, fx, m) })
	case "writer":
		t, want := cs.G.MustBuild(), ref.EncodeWKB(cs.G, cs.XDR, cs.Ext)
		engine.ReplayChoices(cs.Choices, func(m *engine.MC) { writerBody(c, cs, t, want, m) })
	}
}

// c03OtherGeom is the second geometry of the two-call histories (encode g, keep the result,
// encode this, look at the kept result again).
var c03ShortGeom = geom.NewPointFlat(geom.XY, []float64{-123.25, 4567.5})

var c03OtherGeom = geom.NewLineStringFlat(geom.XY, []float64{-1.5, 2.5, 1e300, -0.0, 77, 88, 99, 111})

func c03Key(cs c03Case) string {
	mode := cs.Mode
	if cs.RK != 0 {
		mode += []string{"", "(reader with a failing Seek)", "(bufio.Reader, 16 bytes)", "(bufio.Reader, 4096 bytes)"}[cs.RK]
	}
	return fmt.Sprintf("%s/%s/%s/%s", mode, fmtName(cs), cs.G.Kind, cs.G.Layout)
}

// readerBody is one execution of the reader harness: enc(g1)||enc(g2) behind a FaultReader.
type readerFixture struct {
	stream []byte
	n1     int
	x1, x2 *ref.G
}

func newReaderFixture(cs c03Case) *readerFixture {
	e1 := ref.EncodeWKB(cs.G, cs.XDR, cs.Ext)
	e2 := ref.EncodeWKB(cs.G2, cs.XDR, cs.Ext)
	return &readerFixture{stream: append(append([]byte{}, e1...), e2...), n1: len(e1), x1: c03Expect(cs.G, cs), x2: c03Expect(cs.G2, cs)}
}

// seekFailReader is a reader with a Seek method that always fails, as an *os.File on a pipe does.
type seekFailReader struct{ io.Reader }

func (seekFailReader) Seek(int64, int) (int64, error) { return 0, errors.New("seek: illegal seek") }

func readerBody(c *engine.Ctx, cs c03Case, fx *readerFixture, m *engine.MC) {
	g := cs.G
	stream, x1, x2 := fx.stream, fx.x1, fx.x2
	e1 := stream[:fx.n1]
	c.Count("evaluations", 1)
	r := &engine.FaultReader{Data: stream, M: m, Full: cs.Full, FullUntil: fx.n1}
	var rd io.Reader = r
	consumed := func() int { return r.Pos }
	switch cs.RK {
	case 1:
		rd = seekFailReader{r}
	case 2, 3:
		br := bufio.NewReaderSize(r, map[int]int{2: 16, 3: 4096}[cs.RK])
		rd = br
		consumed = func() int { return r.Pos - br.Buffered() }
	}
	bad := func(what, desc string) {
		cc := cs
		cc.Choices = m.Choices()
		c.Violate(c03Key(cs)+"/"+what, fmt.Sprintf("%s; reader answers %v; stream %x; model=%s", desc, readerAnswers(m), stream, g), "c03", cc)
	}
	var d1, d2 geom.T
	var err1, err2, err3 error
	pos1, pos2 := -1, -1
	if p, stack := engine.Guard(func() {
		d1, err1 = c03Read(rd, cs)
		pos1 = consumed()
		if err1 != nil {
			return
		}
		d2, err2 = c03Read(rd, cs)
		pos2 = consumed()
		if err2 != nil {
			return
		}
		_, err3 = c03Read(rd, cs)
	}); p != nil {
		bad("panic", fmt.Sprintf("panic %v\n%s", p, firstLines(stack, 12)))
		return
	}
	_ = e1
	if err1 != nil {
		bad("first-error", "first Read failed: "+err1.Error())
		return
	}
	if pos1 != len(e1) {
		bad("first-position", fmt.Sprintf("first Read consumed %d bytes, the geometry has %d", pos1, len(e1)))
		return
	}
	if d := observeEq(d1, x1, ref.EqualOpt{}); d != "" {
		bad("first-unequal", d)
		return
	}
	if err2 != nil {
		bad("second-error", "second Read failed: "+err2.Error())
		return
	}
	if pos2 != len(stream) {
		bad("second-position", fmt.Sprintf("second Read stopped at %d of %d", pos2, len(stream)))
		return
	}
	if d := observeEq(d2, x2, ref.EqualOpt{}); d != "" {
		bad("second-unequal", d)
		return
	}
	if err3 == nil {
		bad("third-no-error", "third Read on an exhausted stream returned no error")
		return
	}
	c.Count("reader_schedules_ok", 1)
	if m.Deviations() > 0 {
		c.Sample("reader", 2, map[string]any{"format": fmtName(cs), "g1": g, "answers": readerAnswers(m)})
	}
}

// writerBody is one execution of the writer harness.
func writerBody(c *engine.Ctx, cs c03Case, t geom.T, want []byte, m *engine.MC) {
	g := cs.G
	c.Count("evaluations", 1)
	w := &engine.FaultWriter{M: m, Transient: cs.Transient}
	var err error
	bad := func(what, desc string) {
		cc := cs
		cc.Choices = m.Choices()
		c.Violate(c03Key(cs)+"/"+what, fmt.Sprintf("%s; writer answers %v; model=%s", desc, m.Choices(), g), "c03", cc)
	}
	if p, _ := engine.Guard(func() { err = c03Write(w, t, cs) }); p != nil {
		bad("panic", fmt.Sprintf("panic %v", p))
		return
	}
	if !bytes.HasPrefix(want, w.Got) {
		bad("not-prefix", fmt.Sprintf("accepted bytes %x are not a prefix of %x", w.Got, want))
		return
	}
	// whatever the writer did, the geometry is as it was: encoded again (into memory) it gives the
	// same bytes - a failed write must not leave it changed
	if w.Failed != nil {
		var again bytes.Buffer
		if p, _ := engine.Guard(func() { _ = c03Write(&again, t, cs) }); p != nil || !bytes.Equal(again.Bytes(), want) {
			bad("geometry-changed-by-failed-write", fmt.Sprintf("after the failed write the same geometry encodes to %x (panic %v), before: %x", again.Bytes(), p, want))
			return
		}
	}
	if w.Failed != nil {
		if err == nil {
			bad("error-swallowed", fmt.Sprintf("writer failed with %v after %d bytes but Write returned nil", w.Failed, len(w.Got)))
			return
		}
		if !errors.Is(err, w.Failed) {
			bad("error-replaced", fmt.Sprintf("writer failed with %v but Write returned %v", w.Failed, err))
			return
		}
		c.Count("writer_faults_ok", 1)
		c.Sample("writer", 1, map[string]any{"format": fmtName(cs), "g": g, "answers": m.Choices()})
	} else if err != nil || !bytes.Equal(w.Got, want) {
		bad("clean-write", fmt.Sprintf("no fault: err=%v bytes=%x want %x", err, w.Got, want))
	}
}

func readerAnswers(m *engine.MC) []string {
	var out []string
	for _, p := range m.Trace {
		out = append(out, fmt.Sprintf("%d/%d", p.Choice, p.N))
	}
	return out
}

type scanValuer interface {
	sql.Scanner
	driver.Valuer
}

// c03PreviousRow is "the row before" of the rows loop: a larger geometry of the same kind, XYZM, SRID 7.
func c03PreviousRow(k ref.Kind) *ref.G {
	var g *ref.G
	l := geom.XYZM
	switch k {
	case ref.Point:
		g = ref.NewPoint(l, true, ref.CounterFrom(900))
	case ref.LineString:
		g = ref.NewLine(ref.LineString, l, 7, ref.CounterFrom(900))
	case ref.Polygon:
		g = ref.NewParts(ref.Polygon, l, []int{5, 4, 4}, ref.CounterFrom(900))
	case ref.MultiPoint:
		g = ref.NewMultiPoint(l, []int{1, 1, 1, 1, 1}, ref.CounterFrom(900))
	case ref.MultiLineString:
		g = ref.NewParts(ref.MultiLineString, l, []int{3, 2, 4}, ref.CounterFrom(900))
	case ref.MultiPolygon:
		g = ref.NewMultiPolygon(l, [][]int{{4, 4}, {5}}, ref.CounterFrom(900))
	case ref.Collection:
		g = ref.NewCollection(geom.NoLayout, ref.NewPoint(l, true, ref.CounterFrom(900)), ref.NewLine(ref.LineString, l, 3, ref.CounterFrom(910)))
	default:
		return nil
	}
	g.SRID = 7
	return g
}

func c03SQL(c *engine.Ctx, cs c03Case, fail func(what, desc string)) {
	g := cs.G
	if !supportedLayout(g) || (!cs.Ext && ref.HasEmptyPoint(g)) {
		return
	}
	enc := ref.EncodeWKB(g, cs.XDR, cs.Ext)
	encNDR := ref.EncodeWKB(g, false, cs.Ext)
	exp := c03Expect(g, cs)
	type wrap struct {
		kind ref.Kind
		mk   func() scanValuer
		get  func(scanValuer) geom.T
	}
	var wraps []wrap
	if cs.Ext {
		wraps = []wrap{
			{ref.Point, func() scanValuer { return &ewkb.Point{} }, func(s scanValuer) geom.T { return s.(*ewkb.Point).Point }},
			{ref.LineString, func() scanValuer { return &ewkb.LineString{} }, func(s scanValuer) geom.T { return s.(*ewkb.LineString).LineString }},
			{ref.Polygon, func() scanValuer { return &ewkb.Polygon{} }, func(s scanValuer) geom.T { return s.(*ewkb.Polygon).Polygon }},
			{ref.MultiPoint, func() scanValuer { return &ewkb.MultiPoint{} }, func(s scanValuer) geom.T { return s.(*ewkb.MultiPoint).MultiPoint }},
			{ref.MultiLineString, func() scanValuer { return &ewkb.MultiLineString{} }, func(s scanValuer) geom.T { return s.(*ewkb.MultiLineString).MultiLineString }},
			{ref.MultiPolygon, func() scanValuer { return &ewkb.MultiPolygon{} }, func(s scanValuer) geom.T { return s.(*ewkb.MultiPolygon).MultiPolygon }},
			{ref.Collection, func() scanValuer { return &ewkb.GeometryCollection{} }, func(s scanValuer) geom.T { return s.(*ewkb.GeometryCollection).GeometryCollection }},
		}
	} else {
		wraps = []wrap{
			{ref.Point, func() scanValuer { return &wkb.Point{} }, func(s scanValuer) geom.T { return s.(*wkb.Point).Point }},
			{ref.LineString, func() scanValuer { return &wkb.LineString{} }, func(s scanValuer) geom.T { return s.(*wkb.LineString).LineString }},
			{ref.Polygon, func() scanValuer { return &wkb.Polygon{} }, func(s scanValuer) geom.T { return s.(*wkb.Polygon).Polygon }},
			{ref.MultiPoint, func() scanValuer { return &wkb.MultiPoint{} }, func(s scanValuer) geom.T { return s.(*wkb.MultiPoint).MultiPoint }},
			{ref.MultiLineString, func() scanValuer { return &wkb.MultiLineString{} }, func(s scanValuer) geom.T { return s.(*wkb.MultiLineString).MultiLineString }},
			{ref.MultiPolygon, func() scanValuer { return &wkb.MultiPolygon{} }, func(s scanValuer) geom.T { return s.(*wkb.MultiPolygon).MultiPolygon }},
			{ref.Collection, func() scanValuer { return &wkb.GeometryCollection{} }, func(s scanValuer) geom.T { return s.(*wkb.GeometryCollection).GeometryCollection }},
			{-1, func() scanValuer { return &wkb.Geom{} }, func(s scanValuer) geom.T { return s.(*wkb.Geom).T }},
		}
	}
	for _, w := range wraps {
		s := w.mk()
		var err error
		if p, _ := engine.Guard(func() { err = s.Scan(append([]byte{}, enc...)) }); p != nil {
			fail(fmt.Sprintf("scan-panic/%v", w.kind), fmt.Sprintf("Scan panicked: %v", p))
			return
		}
		if w.kind == g.Kind || w.kind == -1 {
			if err != nil {
				fail("scan-error", "Scan of a matching encoding failed: "+err.Error())
				return
			}
			if d := observeEq(w.get(s), exp, ref.EqualOpt{}); d != "" {
				fail("scan-unequal", d)
				return
			}
			var v driver.Value
			if p, _ := engine.Guard(func() { v, err = s.Value() }); p != nil {
				fail("value-panic", fmt.Sprintf("Value panicked: %v", p))
				return
			}
			// Value() re-encodes what was scanned: the reference bytes of the expected geometry, NDR
			wantV := ref.EncodeWKB(exp, false, cs.Ext)
			if ref.HasEmptyPoint(exp) && !cs.Ext {
				wantV = nil // cannot happen: guarded above
			}
			_ = encNDR
			vb, ok := v.([]byte)
			if err != nil || !ok || !bytes.Equal(vb, wantV) {
				fail("value", fmt.Sprintf("Value() err=%v got %x want %x", err, vb, wantV))
				return
			}
			// the driver.Value handed to database/sql is kept by the caller until the statement is
			// sent: a later Value() call (a second geometry argument) must not change it
			if p, _ := engine.Guard(func() {
				if cs.Ext {
					(&ewkb.Point{Point: c03ShortGeom}).Value()
					(&ewkb.LineString{LineString: c03OtherGeom}).Value()
					(&ewkb.LineString{LineString: c03OtherGeom}).Value()
				} else {
					(&wkb.Point{Point: c03ShortGeom}).Value()
					(&wkb.LineString{LineString: c03OtherGeom}).Value()
					(&wkb.LineString{LineString: c03OtherGeom}).Value()
				}
			}); p == nil && !bytes.Equal(vb, wantV) {
				fail("value-retained-changed", fmt.Sprintf("the []byte returned by Value() changed after a later Value() call on another geometry: now %x, was %x", vb, wantV))
				return
			}
			// the rows loop: ONE wrapper scanned again and again - first another, larger geometry of
			// the same kind in another layout ("the previous row"), then this one: nothing of the
			// previous row is left in the result
			if prev := c03PreviousRow(g.Kind); prev != nil {
				s2 := w.mk()
				var e1, e2 error
				if p, _ := engine.Guard(func() {
					e1 = s2.Scan(ref.EncodeWKB(prev, !cs.XDR, cs.Ext))
					e2 = s2.Scan(append([]byte{}, enc...))
				}); p != nil || e1 != nil || e2 != nil {
					fail("rescan-error", fmt.Sprintf("Scan into a wrapper that was scanned into before: panic %v, errors %v / %v", p, e1, e2))
					return
				}
				if d := observeEq(w.get(s2), exp, ref.EqualOpt{}); d != "" {
					fail("rescan-unequal", "Scan into a wrapper that holds the previous row: "+d)
					return
				}
				c.Count("sql_rescans", 1)
			}
			c.Count("sql_roundtrips", 1)
		} else {
			if err == nil {
				fail(fmt.Sprintf("wrong-type-accepted/%v", w.kind), fmt.Sprintf("%T scanned a %s without error", s, g.Kind))
				return
			}
			c.Count("sql_wrong_type_rejected", 1)
		}
		// non-[]byte source
		s2 := w.mk()
		err = s2.Scan("not bytes")
		// (which error is not prescribed: a wrapper may refuse a string outright or try to read it)
		if err == nil {
			fail("non-bytes", "Scan of the string \"not bytes\" succeeded")
			return
		}
	}
	c.DistinctStr(mustJSON(cs))
}

func c03Run(c *engine.Ctx) {
	if os.Getenv("VERIF_C03_HISTORIES_FIRST") != "" {
		// testing aid for the supervisor's second pass: with a pooled-buffer change in the tree the
		// histories produce violations that do not reproduce in a fresh process and cut the run short
		exploreLive(c, "c03-history", "history", c03LiveStarts(), 3, c03LiveQuery)
	}
	corpus := codecCorpus(c.Thorough())
	big := bigCorpus(true)
	c.Note("big_geometries", len(big))
	// unsupported layouts
	extra := []*ref.G{ref.NewPoint(geom.Layout(5), true, ref.Counter()), ref.NewLine(ref.LineString, geom.Layout(7), 2, ref.Counter()),
		ref.NewLine(ref.LineString, geom.NoLayout, 0, ref.Counter()), ref.NewCollection(geom.NoLayout, ref.NewPoint(geom.Layout(5), true, ref.Counter()))}
	srids := []int{0, 1, 4326, 1<<31 - 1, 1 << 31, 1<<32 - 1}
	c.Note("corpus", len(corpus))
	formats := []c03Case{{}, {NaN: true}, {Ext: true}}
	// (1) bytes + decode + hex, all SRIDs
	all := append(append(append([]*ref.G{}, corpus...), extra...), big...)
	c.Parallel(len(all), func(i int) {
		for _, f := range formats {
			for _, xdr := range []bool{false, true} {
				for si, s := range srids {
					if !f.Ext && si > 1 {
						continue // WKB carries no SRID; two values show it is ignored
					}
					g := all[i].Clone()
					g.SRID = s
					c03Exec(c, c03Case{Mode: "bytes", G: g, XDR: xdr, Ext: f.Ext, NaN: f.NaN}, nil)
				}
			}
		}
	})
	// (2) special-float sweep on small shapes
	var small []*ref.G
	for _, l := range ref.Layouts4 {
		small = append(small, ref.NewPoint(l, true, ref.Counter()), ref.NewLine(ref.LineString, l, 2, ref.Counter()),
			ref.NewMultiPoint(l, []int{1, 1}, ref.Counter()), ref.NewParts(ref.Polygon, l, []int{1, 1}, ref.Counter()))
	}
	var swept []*ref.G
	for _, g := range small {
		n := g.NumOrdinates()
		for pos := 0; pos < n; pos++ {
			for _, sv := range ref.SpecialFloats {
				h := g.Clone()
				k := 0
				h.Ordinates(func(p *ref.F) {
					if k == pos {
						*p = ref.F(sv)
					}
					k++
				})
				swept = append(swept, h)
			}
		}
		// all ordinates of one coordinate special at once (reaches the all-NaN = empty point carve-out)
		for _, sv := range ref.SpecialFloats {
			h := g.Clone()
			k := 0
			h.Ordinates(func(p *ref.F) {
				if k < g.Layout.Stride() {
					*p = ref.F(sv)
				}
				k++
			})
			swept = append(swept, h)
		}
	}
	// (2b) every NaN pattern of a point: each ordinate independently from {canonical quiet NaN,
	// NaN with payload, negative quiet NaN, an ordinary value}, for a stand-alone point, a
	// multipoint member, and a point inside a (nested) collection - only the pattern "every
	// ordinate is the canonical NaN" is the empty point
	nanMenu := []float64{ref.SpecialFloats[0], ref.SpecialFloats[1], ref.SpecialFloats[3], 1.5}
	for _, l := range ref.Layouts4 {
		n := l.Stride()
		total := 1
		for i := 0; i < n; i++ {
			total *= len(nanMenu)
		}
		for code := 0; code < total; code++ {
			pt := ref.NewPoint(l, true, ref.Counter())
			k, cc := 0, code
			pt.Ordinates(func(p *ref.F) {
				*p = ref.F(nanMenu[cc%len(nanMenu)])
				cc /= len(nanMenu)
				k++
			})
			mp := ref.NewMultiPoint(l, []int{1, 1, 1}, ref.CounterFrom(20))
			copy(mp.C1[1], pt.C0)
			swept = append(swept, pt, mp,
				ref.NewCollection(geom.NoLayout, ref.NewPoint(l, true, ref.CounterFrom(40)), pt.Clone()),
				ref.NewCollection(geom.NoLayout, ref.NewCollection(geom.NoLayout, pt.Clone(), ref.NewLine(ref.LineString, l, 2, ref.CounterFrom(50)))))
		}
	}
	c.Note("special_float_geometries", len(swept))
	c.Parallel(len(swept), func(i int) {
		for _, f := range formats {
			for _, xdr := range []bool{false, true} {
				c03Exec(c, c03Case{Mode: "bytes", G: swept[i], XDR: xdr, Ext: f.Ext, NaN: f.NaN}, nil)
			}
		}
	})
	// (3) SQL wrappers
	c.Parallel(len(corpus), func(i int) {
		for _, ext := range []bool{false, true} {
			g := corpus[i]
			if ext {
				g = g.Clone()
				g.SRID = 4326
			}
			c03Exec(c, c03Case{Mode: "sql", G: g, Ext: ext, XDR: i%2 == 1}, nil)
		}
	})
	// (3b) every value of the LAST byte of an encoding: points whose last ordinate carries each of
	// the 256 values in its lowest mantissa byte (the last byte in XDR) and in its sign/exponent
	// byte (the last byte in NDR) - through Unmarshal, hex and every SQL wrapper
	c.Parallel(256, func(b int) {
		lowByte := math.Float64frombits(math.Float64bits(1) | uint64(b))
		topByte := math.Float64frombits(uint64(b)<<56 | 0x0010000000000000)
		for _, y := range []float64{lowByte, topByte} {
			for _, l := range []geom.Layout{geom.XY, geom.XYZM} {
				g := ref.NewPoint(l, true, ref.CounterFrom(3))
				g.C0[len(g.C0)-1] = ref.F(y)
				ln := ref.NewLine(ref.LineString, l, 2, ref.CounterFrom(5))
				ln.C1[1][len(ln.C1[1])-1] = ref.F(y)
				for _, m := range []*ref.G{g, ln} {
					for _, ext := range []bool{false, true} {
						for _, xdr := range []bool{false, true} {
							c.Count("last_byte_cases", 1)
							c03Exec(c, c03Case{Mode: "bytes", G: m, Ext: ext, XDR: xdr}, nil)
							c03Exec(c, c03Case{Mode: "sql", G: m, Ext: ext, XDR: xdr}, nil)
						}
					}
				}
			}
		}
	})
	// (3c) counts beyond 2^16: a polygon with 65536, 65537 and 70001 rings without positions, and a
	// multi-line, a multi-polygon and a collection with 65537 such members
	for _, n := range []int{65536, 65537, 70001} {
		rings := make([]int, n)
		big16 := []*ref.G{ref.NewParts(ref.Polygon, geom.XY, rings, ref.Counter())}
		if n == 65537 {
			polys := make([][]int, n)
			kids := make([]*ref.G, n)
			for i := range kids {
				kids[i] = ref.NewCollection(geom.NoLayout)
			}
			big16 = append(big16, ref.NewParts(ref.MultiLineString, geom.XYZ, rings, ref.Counter()), ref.NewMultiPolygon(geom.XY, polys, ref.Counter()), ref.NewCollection(geom.NoLayout, kids...))
		}
		for _, g := range big16 {
			for _, ext := range []bool{false, true} {
				c.Count("counts_beyond_2_16", 1)
				c03Exec(c, c03Case{Mode: "bytes", G: g, Ext: ext, XDR: n%2 == 0}, nil)
			}
		}
	}
	// (3d) no size of geometry is refused under the package's own settings: a multi-line with
	// 2^20+1 members really encoded and decoded, and - a decoder refuses a count when it reads it,
	// before the members - the first 9 bytes of the encoding of a multipoint, multi-line,
	// multipolygon and collection with 2^16+1 .. 2^28+1 members (and of a line and a polygon with up
	// to 2^22+1 positions / rings): the decoder may run out of input, it may not call the
	// geometry too large - if it does, the complete encoding with that beginning is refused as well.
	{
		c.Count("counts_beyond_2_16", 1)
		c03Exec(c, c03Case{Mode: "bytes", G: ref.NewParts(ref.MultiLineString, geom.XY, make([]int, 1<<20+1), ref.Counter())}, nil)
		for _, ext := range []bool{false, true} {
			for _, xdr := range []bool{false, true} {
				for typ := uint32(2); typ <= 7; typ++ {
					for _, e := range []uint{16, 20, 22, 24, 26, 28} {
						if typ <= 3 && e > 22 {
							continue // lines and polygons reserve room for the count they read
						}
						n := uint32(1)<<e + 1
						head := make([]byte, 9)
						if xdr {
							binary.BigEndian.PutUint32(head[1:], typ)
							binary.BigEndian.PutUint32(head[5:], n)
						} else {
							head[0] = 1
							binary.LittleEndian.PutUint32(head[1:], typ)
							binary.LittleEndian.PutUint32(head[5:], n)
						}
						c.Count("forged_count_prefixes", 1)
						c03Prefix(c, c03PrefixCase{Hex: hex.EncodeToString(head), Ext: ext})
					}
				}
			}
		}
	}
	// (4) reader exploration: all schedules with at most one non-default answer here; the thorough
	// tier repeats the phase with at most two at the very end of the run (it takes the rest of the
	// budget - placed here, as it was until round 13, it starved everything below)
	c.Note("reader_deviation_bound", 1)
	// During the stream phases the element limits are set to a generous finite value (all corpus
	// counts are <= 3): a decoder that mis-reads a count then fails with an error that the oracle
	// reports with a replayable schedule, instead of attempting a multi-gigabyte allocation.
	savedLimits := wkbcommon.MaxGeometryElements
	wkbcommon.MaxGeometryElements = [4]int{0, 1 << 16, 1 << 16, 1 << 16}
	defer func() { wkbcommon.MaxGeometryElements = savedLimits }()
	follower := ref.NewPoint(geom.XYZ, true, ref.CounterFrom(70))
	var capped bool
	streamCorpus := append(append([]*ref.G{}, corpus...), big...)
	readerPhase := func(bound int) {
		c.Parallel(len(streamCorpus), func(i int) {
			readerPhaseOne(c, streamCorpus[i], formats, follower, bound, &capped)
		})
	}
	readerPhase(1)
	// (5) writer faults
	c.Parallel(len(streamCorpus), func(i int) {
		g := streamCorpus[i]
		for _, f := range formats {
			if !f.Ext && !f.NaN && ref.HasEmptyPoint(g) {
				continue
			}
			for _, xdr := range []bool{false, true} {
				cs := c03Case{Mode: "writer", G: g, XDR: xdr, Ext: f.Ext, NaN: f.NaN}
				runWriter(c, cs)
				// and with one-off faults: the Write calls after the failed one succeed
				cs.Transient = true
				runWriter(c, cs)
			}
		}
	})
	// "nested collections to any depth": a point inside 10 .. 1000 (thorough 4000) collections, one
	// per level (depths around 200 included - a customary parser limit), bytes and decode
	depths := []int{10, 64, 100, 199, 200, 201, 255, 256, 257, 500, 1000}
	if c.Thorough() {
		depths = append(depths, 2000, 4000) // (the model is cloned through JSON, whose nesting limit of 10000 is two levels per collection)
	}
	c.Parallel(len(depths), func(i int) {
		for _, l := range []geom.Layout{geom.XY, geom.XYZM} {
			g := ref.NewPoint(l, true, ref.Counter())
			for d := 0; d < depths[i]; d++ {
				g = ref.NewCollection(geom.NoLayout, g)
			}
			for _, f := range formats {
				for _, xdr := range []bool{false, true} {
					c.Count("deep_nesting_cases", 1)
					c03Exec(c, c03Case{Mode: "bytes", G: g, XDR: xdr, Ext: f.Ext, NaN: f.NaN}, nil)
				}
			}
		}
	})
	// query / in-place change / query histories on live objects (last: the phases above are a
	// single deterministic verdict per case; here several encoder results are held at once)
	hdepth := 3
	if c.Thorough() {
		hdepth = 4
	}
	c.Note("history_depth", hdepth)
	exploreLive(c, "c03-history", "history", c03LiveStarts(), hdepth, c03LiveQuery)
	if c.Thorough() && !c.Expired() {
		c.Note("reader_deviation_bound", 2)
		readerPhase(2)
	}
	if capped {
		c.SetCapped("reader exploration hit its per-case execution cap")
	}
	for _, k := range []string{"bytes_compared", "sql_roundtrips", "sql_wrong_type_rejected", "reader_schedules_ok", "writer_faults_ok", "empty_point_rejected", "unsupported_layout_rejected", "full_composition_encodings"} {
		if c.Get(k) == 0 {
			c.Warn("vacuous: counter " + k + " is zero")
		}
	}
}

// readerPhaseOne: the reader schedules of one corpus geometry (see c03Run (4)).
func readerPhaseOne(c *engine.Ctx, g *ref.G, formats []c03Case, follower *ref.G, bound int, cappedp *bool) {
	capped := cappedp
	for _, f := range formats {
		if !f.Ext && !f.NaN && ref.HasEmptyPoint(g) {
			continue
		}
		for _, xdr := range []bool{false, true} {
			cs := c03Case{Mode: "reader", G: g, G2: follower, XDR: xdr, Ext: f.Ext, NaN: f.NaN}
			runReader(c, cs, bound, capped)
			// and the other way round: this geometry is the LAST one of the stream, so its final
			// bytes (a count of zero, a coordinate, a nested member) may arrive together with io.EOF
			runReader(c, c03Case{Mode: "reader", G: follower, G2: g, XDR: xdr, Ext: f.Ext, NaN: f.NaN}, bound, capped)
			// the same stream behind other kinds of reader: one that has a (failing) Seek method,
			// and bufio.Readers with the smallest and the default buffer
			for rk := 1; rk <= 3; rk++ {
				crk := cs
				crk.RK = rk
				runReader(c, crk, bound, capped)
				c.Count("other_reader_kinds", 1)
			}
			if len(ref.EncodeWKB(g, xdr, f.Ext)) <= 22 {
				cs.Full = true
				cs.G2 = ref.NewCollection(geom.XY) // 9-byte follower keeps the full enumeration small
				runReader(c, cs, -1, capped)
				c.Count("full_composition_encodings", 1)
			}
		}
	}
}

func runReader(c *engine.Ctx, cs c03Case, bound int, capped *bool) {
	fx := newReaderFixture(cs)
	st := engine.Explore(bound, 3_000_000, c.Expired, func(m *engine.MC) { readerBody(c, cs, fx, m) })
	c.Count("reader_executions", st.Executions)
	if st.Capped {
		*capped = true
	}
}

func runWriter(c *engine.Ctx, cs c03Case) {
	t, want := cs.G.MustBuild(), ref.EncodeWKB(cs.G, cs.XDR, cs.Ext)
	st := engine.Explore(1, 0, c.Expired, func(m *engine.MC) { writerBody(c, cs, cs.G.MustBuild(), want, m) })
	_ = t
	c.Count("writer_executions", st.Executions)
}

// c03LiveQuery: the encoders asked about a LIVE object after in-place changes (a member edited, a
// point pushed into a nested collection after the outer collection was built and encoded): the
// bytes must be the reference encoding of the geometry as it is now. Non-final queries only
// exercise the encoders (whatever they remember about the object is remembered here).
func c03LiveQuery(t geom.T, m *ref.G, final bool) string {
	nan := wkbcommon.WKBOptionEmptyPointHandling(wkbcommon.EmptyPointHandlingNaN)
	e1, err1 := ewkb.Marshal(t, ewkb.XDR)
	w1, err2 := wkb.Marshal(t, wkb.NDR, nan)
	if !final {
		return ""
	}
	if !c03Encodable(m) {
		return ""
	}
	if err1 != nil || err2 != nil {
		return fmt.Sprintf("encoding the geometry as it is now fails: ewkb %v, wkb %v", err1, err2)
	}
	if want := ref.EncodeWKB(m, true, true); !bytes.Equal(e1, want) {
		return fmt.Sprintf("ewkb.Marshal = %x, reference encoding of the current geometry = %x", e1, want)
	}
	if want := ref.EncodeWKB(m, false, false); !bytes.Equal(w1, want) {
		return fmt.Sprintf("wkb.Marshal = %x, reference encoding of the current geometry = %x", w1, want)
	}
	return ""
}

// c03Encodable: every layout in XY..XYZM; a collection without members and without a fixed
// layout is encodable only at top level (written with the XY code).
func c03Encodable(m *ref.G) bool {
	if m.Kind == ref.LinearRing {
		return false // the formats have no ring type of their own
	}
	if m.Kind != ref.Collection {
		return m.Layout >= geom.XY && m.Layout <= geom.XYZM
	}
	for _, k := range m.Kids {
		if k.Kind == ref.Collection && k.Layout == geom.NoLayout {
			return false // nested layout-less empty collection: the formats differ on it (see C03_B notes), not asked here
		}
		if !c03Encodable(k) {
			return false
		}
	}
	return true
}

// c03LiveStarts: the shared start set plus collections that contain a still empty collection.
func c03LiveStarts() []*ref.G {
	out := liveStarts()
	pt := func(l geom.Layout, k float64) *ref.G { return ref.NewPoint(l, true, ref.CounterFrom(k)) }
	out = append(out,
		ref.NewCollection(geom.NoLayout, ref.NewCollection(geom.NoLayout)),
		ref.NewCollection(geom.NoLayout, ref.NewCollection(geom.NoLayout), pt(geom.XY, 90)),
		ref.NewCollection(geom.NoLayout, pt(geom.XYM, 95), ref.NewCollection(geom.NoLayout)),
	)
	return out
}
