package checks

import (
	"encoding/json"
	"errors"
	"fmt"
	"math"
	"strings"
	"sync"

	"github.com/twpayne/go-geom"

	"verif/engine"
	"verif/ref"
)

// C02 — multi-part geometries behave as lists of their parts under any Push history.
// Explicit-state BFS over operation histories on the real objects; successor = fresh
// object + replay + one more operation; reference = Go list of parts.

type c02Case struct {
	Kind   ref.Kind    `json:"kind"`
	Layout geom.Layout `json:"layout"`
	Init   int         `json:"init,omitempty"` // 0 = empty geometry, 1 = three parts already pushed
	Ops    []int       `json:"ops"`
	Names  []string    `json:"op_names,omitempty"`
}

func init() {
	engine.Register(&engine.Check{
		ID: "C02", Level: "model_checking",
		Rule: "BFS over operation histories (depth <=5 quick, <=6 thorough) on real Polygon/MultiPoint/MultiLineString/MultiPolygon/GeometryCollection objects; alphabet = Push(part) for a per-type part menu incl. empty parts, parts with empty sub-parts and the receiver's own part accessors (storage aliasing), Push(wrong-layout part, same and different stride), for polygons a Push while the polygon is lent to a MultiPolygon whose accessor result is pushed to as well (either order), Reverse, Swap with a second geometry, g=g.Clone() keeping both sides live with their own models, switching between the two sides; start states: empty and three parts already pushed, for collections variadic Push with one bad member, Push of a spread slice that the caller overwrites afterwards, and SetLayout; invariants evaluated in every state against a list-of-parts model; states deduplicated on the full observable state incl. capacity Round 7: Layout(n>4) and XYZM at depth 3 in the quick tier; the wrong-layout Push tries every part of the menu; layout-less (NoLayout) geometries of the four Push-capable types to depth 4 with Reverse under a watchdog. Round 8: signed-zero Reverse sweep (6 types x 3 layouts x parts of 1..4 vertices x every ordinate column x every assignment of +0/-0). Round 9: a wide collection alphabet (members in XYZM and five ordinates, nested layout-less collections, empty nested collections, SetLayout XYZM / five ordinates) to depth 3; Reserve and Swap-with-itself operations. Round 11: Swap with a geometry of another layout and back (every observable exchanged); a ring pushed into the polygon handed out for a ring-less member; around every history a canary that new multi-part geometries still hand out empty parts for empty members. Round 12: the longest line / ring of every part menu returns to its first position in X,Y only.",
		Run:  c02Run,
		Replay: func(c *engine.Ctx, kind string, raw json.RawMessage) {
			if kind == "c02zero" {
				c02ZeroReplay(c, decodeCase[*ref.G](raw))
				return
			}
			c02Exec(c, decodeCase[c02Case](raw), nil)
		},
		Assumptions: []string{
			"Merging states on (type, layout, flat bits, ends, endss, capacity, SRID) of receiver, swap partner and clone shadow is sound: every operation of the alphabet is a function of those observables",
			"Histories longer than the depth bound and parts larger than 3 coordinates are not explored",
		},
	})
}

// ---- helpers over geom.T -------------------------------------------------------------

func numParts(t geom.T) int {
	switch t := t.(type) {
	case *geom.Polygon:
		return t.NumLinearRings()
	case *geom.MultiPoint:
		return t.NumPoints()
	case *geom.MultiLineString:
		return t.NumLineStrings()
	case *geom.MultiPolygon:
		return t.NumPolygons()
	case *geom.GeometryCollection:
		return t.NumGeoms()
	}
	panic("numParts")
}

func partOf(t geom.T, i int) geom.T {
	switch t := t.(type) {
	case *geom.Polygon:
		return t.LinearRing(i)
	case *geom.MultiPoint:
		return t.Point(i)
	case *geom.MultiLineString:
		return t.LineString(i)
	case *geom.MultiPolygon:
		return t.Polygon(i)
	case *geom.GeometryCollection:
		return t.Geom(i)
	}
	panic("partOf")
}

func pushPart(t geom.T, p geom.T) error {
	switch t := t.(type) {
	case *geom.Polygon:
		return t.Push(p.(*geom.LinearRing))
	case *geom.MultiPoint:
		return t.Push(p.(*geom.Point))
	case *geom.MultiLineString:
		return t.Push(p.(*geom.LineString))
	case *geom.MultiPolygon:
		return t.Push(p.(*geom.Polygon))
	case *geom.GeometryCollection:
		return t.Push(p)
	}
	panic("pushPart")
}

func reverseT(t geom.T) {
	switch t := t.(type) {
	case *geom.Polygon:
		t.Reverse()
	case *geom.MultiPoint:
		t.Reverse()
	case *geom.MultiLineString:
		t.Reverse()
	case *geom.MultiPolygon:
		t.Reverse()
	default:
		panic("reverseT")
	}
}

func swapT(a, b geom.T) {
	switch a := a.(type) {
	case *geom.Polygon:
		a.Swap(b.(*geom.Polygon))
	case *geom.MultiPoint:
		a.Swap(b.(*geom.MultiPoint))
	case *geom.MultiLineString:
		a.Swap(b.(*geom.MultiLineString))
	case *geom.MultiPolygon:
		a.Swap(b.(*geom.MultiPolygon))
	default:
		panic("swapT")
	}
}

func freshMulti(k ref.Kind, l geom.Layout) geom.T {
	switch k {
	case ref.Polygon:
		return geom.NewPolygon(l)
	case ref.MultiPoint:
		return geom.NewMultiPoint(l)
	case ref.MultiLineString:
		return geom.NewMultiLineString(l)
	case ref.MultiPolygon:
		return geom.NewMultiPolygon(l)
	case ref.Collection:
		return geom.NewGeometryCollection()
	}
	panic("freshMulti")
}

// stateKey is the full observable state of a geometry (incl. capacity and spare capacity bits).
func stateKey(t geom.T) string {
	var sb strings.Builder
	var rec func(t geom.T)
	rec = func(t geom.T) {
		if gc, ok := t.(*geom.GeometryCollection); ok {
			fmt.Fprintf(&sb, "GC{l=%d,s=%d,n=%d:", gc.Layout(), gc.SRID(), gc.NumGeoms())
			for _, k := range gc.Geoms() {
				rec(k)
			}
			sb.WriteString("}")
			return
		}
		fc := t.FlatCoords()
		fmt.Fprintf(&sb, "%T{l=%d,st=%d,s=%d,cap=%d,f=", t, t.Layout(), t.Stride(), t.SRID(), cap(fc))
		for _, v := range fc {
			fmt.Fprintf(&sb, "%x,", math.Float64bits(v))
		}
		fmt.Fprintf(&sb, "e=%v,ee=%v}", t.Ends(), t.Endss())
	}
	rec(t)
	return sb.String()
}

// ---- the model -----------------------------------------------------------------------

type c02Model struct {
	kind   ref.Kind
	layout geom.Layout
	parts  []*ref.G
	fixed  geom.Layout // collections
}

func (m *c02Model) clone() *c02Model {
	n := &c02Model{kind: m.kind, layout: m.layout, fixed: m.fixed}
	for _, p := range m.parts {
		n.parts = append(n.parts, p.Clone())
	}
	return n
}

func coverLayout(ls []geom.Layout) geom.Layout { return ref.Cover(ls) }

func (m *c02Model) whole() *ref.G {
	g := &ref.G{Kind: m.kind, Layout: m.layout}
	switch m.kind {
	case ref.Polygon, ref.MultiLineString:
		g.C2 = [][]ref.C{}
		for _, p := range m.parts {
			g.C2 = append(g.C2, p.C1)
		}
	case ref.MultiPoint:
		g.C1 = []ref.C{}
		for _, p := range m.parts {
			g.C1 = append(g.C1, p.C0)
		}
	case ref.MultiPolygon:
		g.C3 = [][][]ref.C{}
		for _, p := range m.parts {
			g.C3 = append(g.C3, p.C2)
		}
	case ref.Collection:
		g.Kids = m.parts
		if m.fixed != geom.NoLayout {
			g.Layout = m.fixed
		} else {
			var ls []geom.Layout
			for _, p := range m.parts {
				ls = append(ls, p.Layout)
			}
			g.Layout = coverLayout(ls)
		}
	}
	return g
}

func reverseModelPart(p *ref.G) {
	rev := func(cs []ref.C) {
		for i, j := 0, len(cs)-1; i < j; i, j = i+1, j-1 {
			cs[i], cs[j] = cs[j], cs[i]
		}
	}
	switch p.Kind {
	case ref.LineString, ref.LinearRing:
		rev(p.C1)
	case ref.Polygon:
		for _, r := range p.C2 {
			rev(r)
		}
	}
}

// ---- alphabet ------------------------------------------------------------------------

type c02Op struct {
	name string
	// apply runs the op on the live state and on the model; returns a failure text or "".
	apply func(s *c02State) string
}

type c02State struct {
	kind        ref.Kind
	layout      geom.Layout
	g           geom.T
	m           *c02Model
	other       geom.T
	om          *c02Model
	shadow      geom.T // the other side of the last g = g.Clone(): still a live geometry with its own model
	sm          *c02Model
	pushCounter int
}

func partKind(k ref.Kind) ref.Kind {
	switch k {
	case ref.Polygon:
		return ref.LinearRing
	case ref.MultiPoint:
		return ref.Point
	case ref.MultiLineString:
		return ref.LineString
	case ref.MultiPolygon:
		return ref.Polygon
	}
	panic("partKind")
}

// partMenu returns the part models for a type and layout. Values depend on the menu index only
// so that different histories reach identical states.
func partMenu(k ref.Kind, l geom.Layout) []*ref.G {
	var out []*ref.G
	if l == geom.NoLayout {
		// a geometry without a layout takes parts without coordinates only
		switch k {
		case ref.Polygon:
			return []*ref.G{ref.NewLine(ref.LinearRing, l, 0, ref.Counter())}
		case ref.MultiLineString:
			return []*ref.G{ref.NewLine(ref.LineString, l, 0, ref.Counter())}
		case ref.MultiPoint:
			return []*ref.G{ref.NewPoint(l, false, ref.Counter())}
		case ref.MultiPolygon:
			return []*ref.G{ref.NewParts(ref.Polygon, l, []int{}, ref.Counter()), ref.NewParts(ref.Polygon, l, []int{0}, ref.Counter()), ref.NewParts(ref.Polygon, l, []int{0, 0}, ref.Counter())}
		}
	}
	switch k {
	case ref.Polygon:
		for i, n := range []int{0, 1, 2, 3, 5} {
			out = append(out, ref.NewLine(ref.LinearRing, l, n, ref.CounterFrom(float64(10*(i+1)))))
		}
	case ref.MultiLineString:
		for i, n := range []int{0, 1, 2, 3, 4} {
			out = append(out, ref.NewLine(ref.LineString, l, n, ref.CounterFrom(float64(10*(i+1)))))
		}
	case ref.MultiPoint:
		out = append(out, ref.NewPoint(l, false, ref.Counter()), ref.NewPoint(l, true, ref.CounterFrom(10)), ref.NewPoint(l, true, ref.CounterFrom(20)))
		// a point WITH coordinates that all carry the canonical quiet-NaN pattern (the wire form of
		// the empty point): pushed, it is a part with coordinates like any other
		nanPt := ref.NewPoint(l, true, ref.Counter())
		nanPt.Ordinates(func(p *ref.F) { *p = ref.F(ref.SpecialFloats[0]) })
		out = append(out, nanPt)
	case ref.MultiPolygon:
		for i, sizes := range [][]int{{}, {0}, {1}, {2, 1}, {0, 2}, {5, 0, 4}} {
			out = append(out, ref.NewParts(ref.Polygon, l, sizes, ref.CounterFrom(float64(10*(i+1)))))
		}
	}
	// the longest lines and rings of the menu return to their first position in X and Y only
	// (every other ordinate of the closing position keeps its own value): closed for every
	// consumer that looks at X,Y, and still a list of distinct coordinates
	closeXY := func(cs []ref.C) {
		if len(cs) >= 4 && len(cs[0]) >= 2 {
			cs[len(cs)-1][0], cs[len(cs)-1][1] = cs[0][0], cs[0][1]
		}
	}
	for _, g := range out {
		closeXY(g.C1)
		for _, r := range g.C2 {
			closeXY(r)
		}
	}
	return out
}

func wrongLayouts(l geom.Layout) []geom.Layout {
	switch l {
	case geom.NoLayout:
		return []geom.Layout{geom.XY, geom.XYZM}
	case geom.XY:
		return []geom.Layout{geom.XYZ}
	case geom.XYZ:
		return []geom.Layout{geom.XYM, geom.XY} // same stride first
	case geom.XYM:
		return []geom.Layout{geom.XYZ, geom.XYZM}
	case geom.XYZM:
		return []geom.Layout{geom.XYZ, geom.Layout(5)}
	default:
		return []geom.Layout{geom.XYZM, geom.Layout(l.Stride() + 1)}
	}
}

func c02ReserveOp() c02Op {
	return c02Op{"Reserve(room for 3 more coordinates)", func(s *c02State) string {
		// capacity is no part of the list of parts: reserving changes nothing observable
		n := 3
		if st := s.g.Stride(); st > 0 {
			n += len(s.g.FlatCoords()) / st
		}
		switch t := s.g.(type) {
		case *geom.Polygon:
			t.Reserve(n)
		case *geom.MultiPoint:
			t.Reserve(n)
		case *geom.MultiLineString:
			t.Reserve(n)
		case *geom.MultiPolygon:
			t.Reserve(n)
		}
		return ""
	}}
}

func c02Alphabet(k ref.Kind, l geom.Layout) []c02Op {
	var ops []c02Op
	pushModel := func(s *c02State, pm *ref.G) { s.m.parts = append(s.m.parts, pm.Clone()) }
	if k != ref.Collection {
		for i, pm := range partMenu(k, l) {
			pm := pm
			ops = append(ops, c02Op{fmt.Sprintf("Push(menu%d:%s)", i, shapeOf(pm)), func(s *c02State) string {
				if err := pushPart(s.g, pm.MustBuild()); err != nil {
					return "Push failed: " + err.Error()
				}
				pushModel(s, pm)
				return ""
			}})
		}
		for _, which := range []string{"first", "last"} {
			which := which
			ops = append(ops, c02Op{"Push(own " + which + " part)", func(s *c02State) string {
				n := numParts(s.g)
				if n == 0 {
					return ""
				}
				i := 0
				if which == "last" {
					i = n - 1
				}
				if err := pushPart(s.g, partOf(s.g, i)); err != nil {
					return "Push failed: " + err.Error()
				}
				pushModel(s, s.m.parts[i])
				return ""
			}})
		}
		if k == ref.Polygon && l != geom.NoLayout {
			// the polygon is lent: pushed into a MultiPolygon whose accessor hands out a polygon q
			// for it; then one more ring is pushed on the polygon itself and a different one on q,
			// in either order. The polygon is still the list of the rings pushed on IT.
			for _, ownFirst := range []bool{true, false} {
				ownFirst := ownFirst
				name := "lent to a MultiPolygon, then Push on the accessor's polygon and Push(menu3) on this one"
				if ownFirst {
					name = "lent to a MultiPolygon, then Push(menu3) on this one and Push on the accessor's polygon"
				}
				ops = append(ops, c02Op{name, func(s *c02State) string {
					menu := partMenu(k, l)
					mine, theirs := menu[3], menu[2]
					mp := geom.NewMultiPolygon(l)
					if err := mp.Push(s.g.(*geom.Polygon)); err != nil {
						return "MultiPolygon.Push failed: " + err.Error()
					}
					q := mp.Polygon(0)
					var e1, e2 error
					if ownFirst {
						e1 = pushPart(s.g, mine.MustBuild())
						e2 = q.Push(theirs.MustBuild().(*geom.LinearRing))
					} else {
						e2 = q.Push(theirs.MustBuild().(*geom.LinearRing))
						e1 = pushPart(s.g, mine.MustBuild())
					}
					if e1 != nil || e2 != nil {
						return fmt.Sprintf("Push failed: %v %v", e1, e2)
					}
					pushModel(s, mine)
					return ""
				}})
			}
		}
		for _, wl := range wrongLayouts(l) {
			wl := wl
			ops = append(ops, c02Op{"Push(wrong layout " + wl.String() + ")", func(s *c02State) string {
				// every part of the menu in the wrong layout, the largest first: each one fails and
				// leaves the receiver as it was, so one operation can try them all
				menu := partMenu(k, wl)
				for i := len(menu) - 1; i >= 0; i-- {
					bad := menu[i].MustBuild()
					before := stateKey(s.g)
					err := pushPart(s.g, bad)
					var lm geom.ErrLayoutMismatch
					if err == nil {
						return "Push of a " + wl.String() + " part (" + shapeOf(menu[i]) + ") into a " + l.String() + " geometry succeeded"
					}
					if !errors.As(err, &lm) {
						return fmt.Sprintf("error %T is not ErrLayoutMismatch", err)
					}
					if lm.Got != wl || lm.Want != l {
						return fmt.Sprintf("ErrLayoutMismatch{Got:%v,Want:%v}, expected {%v,%v}", lm.Got, lm.Want, wl, l)
					}
					if stateKey(s.g) != before {
						return "failed Push changed the receiver"
					}
				}
				return ""
			}})
		}
		ops = append(ops, c02Op{"Reverse", func(s *c02State) string {
			if s.g.Stride() == 0 {
				// nothing to reverse - but the call has to come back
				if d := reverseReturns(func() { reverseT(s.g) }); d != "" {
					return d
				}
			} else {
				reverseT(s.g)
			}
			for _, p := range s.m.parts {
				reverseModelPart(p)
			}
			return ""
		}})
		ops = append(ops, c02Op{"Swap(other)", func(s *c02State) string {
			swapT(s.g, s.other)
			s.m, s.om = s.om, s.m
			return ""
		}})
		// (Reserve only for the layouts that are explored to a smaller depth - it doubles the
		// number of distinct capacity states)
		if l != geom.XY && l != geom.XYZ && l != geom.XYM {
			ops = append(ops, c02ReserveOp())
		}
		ops = append(ops, c02Op{"Swap(a geometry of another layout) and back", func(s *c02State) string {
			// Swap exchanges the two values COMPLETELY, whatever their layouts: after the exchange the
			// receiver is the other geometry (layout, stride, parts) and the other one is the receiver
			wl := wrongLayouts(l)[len(wrongLayouts(l))-1]
			x := freshMulti(k, wl)
			xm := &c02Model{kind: k, layout: wl}
			menu := partMenu(k, wl)
			for _, pm := range []*ref.G{menu[len(menu)-1], menu[0]} {
				if err := pushPart(x, pm.MustBuild()); err != nil {
					return "Push failed: " + err.Error()
				}
				xm.parts = append(xm.parts, pm.Clone())
			}
			swapT(s.g, x)
			probe := &c02State{kind: k, layout: wl, g: s.g, m: xm, other: x, om: s.m}
			if d := c02Invariants(probe); d != "" {
				return "after Swap with a " + wl.String() + " geometry: " + d
			}
			if s.g.Stride() != wl.Stride() || x.Stride() != l.Stride() {
				return fmt.Sprintf("after Swap with a %s geometry: strides %d / %d, want %d / %d", wl, s.g.Stride(), x.Stride(), wl.Stride(), l.Stride())
			}
			swapT(s.g, x)
			return ""
		}})
		if k == ref.MultiPolygon {
			ops = append(ops, c02Op{"Push a ring into the polygon handed out for the first member without rings", func(s *c02State) string {
				// the accessor's result for a member without rings is the caller's own value: what
				// the caller does to it reaches neither this multipolygon nor any other
				mp := s.g.(*geom.MultiPolygon)
				for i, pm := range s.m.parts {
					if len(pm.C2) != 0 {
						continue
					}
					q := mp.Polygon(i)
					ring := partMenu(ref.Polygon, l)
					if err := q.Push(ring[len(ring)-1].MustBuild().(*geom.LinearRing)); err != nil {
						return "Push into the accessor's polygon failed: " + err.Error()
					}
					q.SetSRID(99)
					other := geom.NewMultiPolygon(l)
					if err := other.Push(geom.NewPolygon(l)); err != nil {
						return err.Error()
					}
					if r := other.Polygon(0); r.NumLinearRings() != 0 || r.SRID() != 0 {
						return "the polygon handed out for an empty member of ANOTHER multipolygon shows what a caller did to an earlier one"
					}
					break
				}
				return ""
			}})
		}
		ops = append(ops, c02Op{"Swap(the receiver itself)", func(s *c02State) string {
			swapT(s.g, s.g) // exchanging a value with itself leaves it as it is
			return ""
		}})
		ops = append(ops, c02Op{"g=g.Clone()", func(s *c02State) string {
			cl := cloneOf(s.g)
			s.shadow = s.g
			s.sm = s.m.clone()
			s.g = cl
			return ""
		}})
		ops = append(ops, c02Op{"switch to the other side of the last Clone", func(s *c02State) string {
			if s.shadow == nil {
				return ""
			}
			s.g, s.shadow = s.shadow, s.g
			s.m, s.sm = s.sm, s.m
			return ""
		}})
		return ops
	}
	// GeometryCollection
	members := []*ref.G{
		ref.NewPoint(geom.XY, true, ref.CounterFrom(10)),
		ref.NewLine(ref.LineString, geom.XY, 0, ref.Counter()),
		ref.NewParts(ref.Polygon, geom.XY, []int{2, 0}, ref.CounterFrom(20)),
		ref.NewMultiPoint(geom.XY, []int{0, 1}, ref.CounterFrom(30)),
		{Kind: ref.Collection, Layout: geom.XY, Kids: []*ref.G{ref.NewPoint(geom.XY, true, ref.CounterFrom(40))}},
		ref.NewPoint(geom.XYZ, true, ref.CounterFrom(50)),
		ref.NewPoint(geom.XYM, true, ref.CounterFrom(60)),
	}
	setLayouts := []geom.Layout{geom.XY, geom.XYZ, geom.NoLayout}
	if l == geom.Layout(5) {
		// the wide collection alphabet (explored to a smaller depth): members in XYZM and in a layout
		// of five ordinates, nested layout-less collections whose layout is what their members cover
		// (XYZM reached before a five-ordinate member; XYZ + XYM + five ordinates), a nested
		// collection without members and one that holds only such a collection (no layout at all)
		l5 := geom.Layout(5)
		nest := func(kids ...*ref.G) *ref.G {
			var ls []geom.Layout
			for _, k := range kids {
				ls = append(ls, k.Layout)
			}
			return &ref.G{Kind: ref.Collection, Layout: coverLayout(ls), Kids: kids}
		}
		members = append(members,
			ref.NewPoint(geom.XYZM, true, ref.CounterFrom(70)),
			ref.NewPoint(l5, true, ref.CounterFrom(80)),
			nest(ref.NewPoint(geom.XYZM, true, ref.CounterFrom(90)), ref.NewPoint(l5, true, ref.CounterFrom(100))),
			nest(ref.NewPoint(geom.XYZ, true, ref.CounterFrom(110)), ref.NewPoint(geom.XYM, true, ref.CounterFrom(120)), ref.NewLine(ref.LineString, l5, 2, ref.CounterFrom(130))),
			nest(),
			nest(nest()),
		)
		setLayouts = []geom.Layout{geom.XYZM, l5, geom.NoLayout}
	}
	for i, mm := range members {
		mm := mm
		ops = append(ops, c02Op{fmt.Sprintf("Push(member%d:%s %s)", i, mm.Kind, mm.Layout), func(s *c02State) string {
			gc := s.g.(*geom.GeometryCollection)
			before := stateKey(gc)
			err := gc.Push(mm.MustBuild())
			if s.m.fixed != geom.NoLayout && mm.Layout != s.m.fixed {
				var lm geom.ErrLayoutMismatch
				if err == nil {
					return "Push of a mismatching member into a fixed-layout collection succeeded"
				}
				if !errors.As(err, &lm) {
					return fmt.Sprintf("error %T is not ErrLayoutMismatch", err)
				}
				if stateKey(gc) != before {
					return "failed Push changed the receiver"
				}
				return ""
			}
			if err != nil {
				return "Push failed: " + err.Error()
			}
			pushModel(s, mm)
			return ""
		}})
	}
	ops = append(ops, c02Op{"Push(XY point, XYZ point) variadic", func(s *c02State) string {
		gc := s.g.(*geom.GeometryCollection)
		before := stateKey(gc)
		err := gc.Push(members[0].MustBuild(), members[5].MustBuild())
		if s.m.fixed != geom.NoLayout {
			var lm geom.ErrLayoutMismatch
			if err == nil {
				return "variadic Push with a mismatching member succeeded"
			}
			if !errors.As(err, &lm) {
				return fmt.Sprintf("error %T is not ErrLayoutMismatch", err)
			}
			if stateKey(gc) != before {
				return "failed variadic Push changed the receiver (partial append)"
			}
			return ""
		}
		if err != nil {
			return "Push failed: " + err.Error()
		}
		pushModel(s, members[0])
		pushModel(s, members[5])
		return ""
	}})
	ops = append(ops, c02Op{"Push(spread slice of two XY members), then the caller reuses the slice", func(s *c02State) string {
		gc := s.g.(*geom.GeometryCollection)
		before := stateKey(gc)
		parts := []geom.T{members[0].MustBuild(), members[1].MustBuild()}
		err := gc.Push(parts...)
		// the argument slice is the caller's: it is overwritten and emptied after the call
		parts[0], parts[1] = members[5].MustBuild(), nil
		parts = parts[:0]
		_ = parts
		if s.m.fixed != geom.NoLayout && s.m.fixed != geom.XY {
			if err == nil {
				return "Push of XY members into a " + s.m.fixed.String() + " collection succeeded"
			}
			if stateKey(gc) != before {
				return "failed Push changed the receiver"
			}
			return ""
		}
		if err != nil {
			return "Push failed: " + err.Error()
		}
		pushModel(s, members[0])
		pushModel(s, members[1])
		return ""
	}})
	for _, fl := range setLayouts {
		fl := fl
		ops = append(ops, c02Op{"SetLayout(" + fl.String() + ")", func(s *c02State) string {
			gc := s.g.(*geom.GeometryCollection)
			before := stateKey(gc)
			err := gc.SetLayout(fl)
			ok := true
			if fl != geom.NoLayout {
				for _, p := range s.m.parts {
					pl := p.Layout
					if p.Kind == ref.Collection {
						pl = (&c02Model{kind: ref.Collection, parts: p.Kids, fixed: p.Fixed}).whole().Layout
					}
					if pl != fl {
						ok = false
					}
				}
			}
			if !ok {
				var lm geom.ErrLayoutMismatch
				if err == nil {
					return "SetLayout accepted a layout that a member does not have"
				}
				if !errors.As(err, &lm) {
					return fmt.Sprintf("error %T is not ErrLayoutMismatch", err)
				}
				if stateKey(gc) != before {
					return "failed SetLayout changed the receiver"
				}
				return ""
			}
			if err != nil {
				return "SetLayout failed: " + err.Error()
			}
			s.m.fixed = fl
			return ""
		}})
	}
	return ops
}

func shapeOf(g *ref.G) string {
	switch g.Kind {
	case ref.Point:
		if g.C0 == nil {
			return "empty"
		}
		return "1"
	case ref.LineString, ref.LinearRing:
		return fmt.Sprint(len(g.C1))
	case ref.Polygon:
		var s []int
		for _, r := range g.C2 {
			s = append(s, len(r))
		}
		return fmt.Sprint(s)
	}
	return "?"
}

func c02Init(k ref.Kind, l geom.Layout, init int) *c02State {
	s := &c02State{kind: k, layout: l, g: freshMulti(k, l), m: &c02Model{kind: k, layout: l}}
	if init == 1 && k != ref.Collection {
		// non-initial start: three parts already pushed (the end-offset slice then has spare capacity)
		menu := partMenu(k, l)
		for _, i := range []int{1, len(menu) - 1, 1} {
			if err := pushPart(s.g, menu[i].MustBuild()); err != nil {
				panic(err)
			}
			s.m.parts = append(s.m.parts, menu[i].Clone())
		}
	}
	if k != ref.Collection {
		s.other = freshMulti(k, l)
		s.om = &c02Model{kind: k, layout: l}
		menu := partMenu(k, l)
		pm := menu[len(menu)-1]
		if err := pushPart(s.other, pm.MustBuild()); err != nil {
			panic(err)
		}
		s.om.parts = append(s.om.parts, pm.Clone())
	}
	return s
}

// c02Same compares a live geometry with a model: through the nested coordinates, or - for a
// geometry without a layout, whose nested coordinates are not read (Coords() divides by the
// stride; DESIGN.md section 7, item 1) - through type, layout, SRID and the flat accessors.
func c02Same(t geom.T, want *ref.G) string {
	if _, isGC := t.(*geom.GeometryCollection); !isGC && t.Layout() == geom.NoLayout && want.Layout == geom.NoLayout {
		if a, b := structKey(t), structKey(want.MustBuild()); a != b {
			return fmt.Sprintf("got %s want %s", a, b)
		}
		return ""
	}
	return observeEq(t, want, ref.EqualOpt{})
}

// c02Invariants evaluates every invariant of the property in the current state.
func c02Invariants(s *c02State) string {
	check := func(t geom.T, m *c02Model, who string) string {
		if err := ref.WellFormed(t); err != nil {
			return who + " ill-formed: " + err.Error()
		}
		if n := numParts(t); n != len(m.parts) {
			return fmt.Sprintf("%s reports %d parts, %d were pushed", who, n, len(m.parts))
		}
		for i, pm := range m.parts {
			p := partOf(t, i)
			want := pm
			if m.kind != ref.Collection {
				if p.Layout() != m.layout {
					return fmt.Sprintf("%s part %d has layout %v, want %v", who, i, p.Layout(), m.layout)
				}
			} else if pm.Kind == ref.Collection {
				want = (&c02Model{kind: ref.Collection, parts: pm.Kids, fixed: pm.Fixed}).whole()
			}
			if d := c02Same(p, want); d != "" {
				return fmt.Sprintf("%s part %d: %s", who, i, d)
			}
			if err := ref.WellFormed(p); err != nil {
				return fmt.Sprintf("%s part %d ill-formed: %v", who, i, err)
			}
		}
		w := m.whole()
		if m.kind == ref.Collection {
			for i, k := range w.Kids {
				if k.Kind == ref.Collection {
					w.Kids[i] = (&c02Model{kind: ref.Collection, parts: k.Kids, fixed: k.Fixed}).whole()
				}
			}
		}
		if d := c02Same(t, w); d != "" {
			return who + " whole: " + d
		}
		return ""
	}
	if d := check(s.g, s.m, "receiver"); d != "" {
		return d
	}
	if s.other != nil {
		if d := check(s.other, s.om, "swap partner"); d != "" {
			return d
		}
	}
	if s.shadow != nil {
		if d := check(s.shadow, s.sm, "other side of Clone"); d != "" {
			return "operating on one side of a Clone changed the other: " + d
		}
	}
	return ""
}

func (s *c02State) key() string {
	k := stateKey(s.g)
	if s.other != nil {
		k += "|" + stateKey(s.other)
	}
	if s.shadow != nil {
		k += "|shadow:" + stateKey(s.shadow)
	}
	if s.m.fixed != geom.NoLayout {
		k += fmt.Sprintf("|fixed%d", s.m.fixed)
	}
	return k
}

// c02Exec replays one history on a fresh object and checks the invariants after every step
// (onState, when set, receives the final state key).
func c02Exec(c *engine.Ctx, cs c02Case, onState func(key string)) {
	c.Count("evaluations", 1)
	ops := c02Alphabet(cs.Kind, cs.Layout)
	names := make([]string, len(cs.Ops))
	for i, o := range cs.Ops {
		names[i] = ops[o].name
	}
	cs.Names = names
	var s *c02State
	fail := ""
	failStep := -1
	canaryBefore := c02Canary(cs.Layout)
	p, stack := engine.Guard(func() {
		s = c02Init(cs.Kind, cs.Layout, cs.Init)
		for i, o := range cs.Ops {
			if d := ops[o].apply(s); d != "" {
				fail, failStep = d, i
				return
			}
			if i == len(cs.Ops)-1 && canaryBefore == "" {
				// what this history did to ITS objects reaches no unrelated, freshly made geometry
				// (clean before, not clean after: this history is the one that leaked)
				if d := c02Canary(cs.Layout); d != "" {
					fail, failStep = "state leaked into unrelated geometries: "+d, i
					return
				}
			}
			// prefix states were checked when they were first reached; the last one is new
			if i == len(cs.Ops)-1 {
				if d := c02Invariants(s); d != "" {
					fail, failStep = d, i
					return
				}
			}
		}
		if len(cs.Ops) == 0 {
			fail = c02Invariants(s)
		}
	})
	if p != nil {
		last := "init"
		if len(names) > 0 {
			last = names[len(names)-1]
		}
		c.Violate(fmt.Sprintf("%s/%s/panic/%s", cs.Kind, cs.Layout, last), fmt.Sprintf("panic %v after %v\n%s", p, names, firstLines(stack, 12)), "c02", cs)
		return
	}
	if fail != "" {
		step := "init" // the start state itself (built by Push / SetCoords) violates an invariant
		if failStep >= 0 {
			step = names[failStep]
		}
		c.Violate(fmt.Sprintf("%s/%s/%s/%s", cs.Kind, cs.Layout, step, classify(fail)), fmt.Sprintf("%s after history %v", fail, names), "c02", cs)
		return
	}
	if onState != nil {
		onState(s.key())
	}
}

// c02Canary: freshly made multi-part geometries with one empty part each hand out an empty part
// (no coordinates, no rings, SRID 0), whatever any caller did to parts handed out before.
func c02Canary(l geom.Layout) string {
	if l.Stride() == 0 {
		return ""
	}
	d := ""
	engine.Guard(func() {
		mp := geom.NewMultiPolygon(l)
		_ = mp.Push(geom.NewPolygon(l))
		if q := mp.Polygon(0); q.NumLinearRings() != 0 || len(q.FlatCoords()) != 0 || q.SRID() != 0 || q.Layout() != l {
			d = fmt.Sprintf("the polygon handed out for the empty member of a new multipolygon has %d rings, %d ordinates, SRID %d", q.NumLinearRings(), len(q.FlatCoords()), q.SRID())
			return
		}
		ml := geom.NewMultiLineString(l)
		_ = ml.Push(geom.NewLineString(l))
		if q := ml.LineString(0); len(q.FlatCoords()) != 0 || q.SRID() != 0 || q.Layout() != l {
			d = fmt.Sprintf("the line handed out for the empty member of a new multi-line has %d ordinates, SRID %d", len(q.FlatCoords()), q.SRID())
			return
		}
		pg := geom.NewPolygon(l)
		_ = pg.Push(geom.NewLinearRing(l))
		if q := pg.LinearRing(0); len(q.FlatCoords()) != 0 || q.SRID() != 0 || q.Layout() != l {
			d = fmt.Sprintf("the ring handed out for the empty ring of a new polygon has %d ordinates, SRID %d", len(q.FlatCoords()), q.SRID())
			return
		}
		mpt := geom.NewMultiPoint(l)
		_ = mpt.Push(geom.NewPointEmpty(l))
		if q := mpt.Point(0); len(q.FlatCoords()) != 0 || q.SRID() != 0 || q.Layout() != l {
			d = fmt.Sprintf("the point handed out for the empty member of a new multipoint has %d ordinates, SRID %d", len(q.FlatCoords()), q.SRID())
		}
	})
	return d
}

func classify(s string) string {
	if i := strings.Index(s, ":"); i > 0 {
		s = s[:i]
	}
	if len(s) > 50 {
		s = s[:50]
	}
	return strings.ReplaceAll(s, " ", "_")
}

func firstLines(s string, n int) string {
	ls := strings.Split(s, "\n")
	if len(ls) > n {
		ls = ls[:n]
	}
	return strings.Join(ls, "\n")
}

func c02Run(c *engine.Ctx) {
	depth := 5
	layouts := []geom.Layout{geom.XY, geom.XYZ, geom.XYM}
	if c.Thorough() {
		depth = 6
		layouts = []geom.Layout{geom.XY, geom.XYZ, geom.XYM, geom.XYZM, geom.Layout(5)}
	}
	c.Note("max_depth", depth)
	type job struct {
		k     ref.Kind
		l     geom.Layout
		init  int
		depth int
	}
	var jobs []job
	// the wider layouts (more ordinates per coordinate than any named layout has) at a smaller
	// depth first: every operation of the alphabet once from every state two operations deep
	wide := []geom.Layout{geom.XYZM, geom.Layout(5), geom.Layout(7)}
	if c.Thorough() {
		wide = []geom.Layout{geom.Layout(6), geom.Layout(7), geom.Layout(9)}
	}
	c.Note("wide_layouts_depth", 3)
	for _, k := range []ref.Kind{ref.Polygon, ref.MultiPoint, ref.MultiLineString, ref.MultiPolygon} {
		for _, l := range wide {
			jobs = append(jobs, job{k, l, 0, 3}, job{k, l, 1, 3})
		}
	}
	for _, k := range []ref.Kind{ref.Polygon, ref.MultiPoint, ref.MultiLineString, ref.MultiPolygon} {
		for _, l := range layouts {
			jobs = append(jobs, job{k, l, 0, depth}, job{k, l, 1, depth})
		}
	}
	// geometries without a layout: parts without coordinates only (start state: empty)
	for _, k := range []ref.Kind{ref.Polygon, ref.MultiPoint, ref.MultiLineString, ref.MultiPolygon} {
		jobs = append(jobs, job{k, geom.NoLayout, 0, 4})
	}
	jobs = append(jobs, job{ref.Collection, geom.NoLayout, 0, depth})
	jobs = append(jobs, job{ref.Collection, geom.Layout(5), 0, 3}) // the wide collection alphabet, see c02Alphabet
	var maxDepthDone int64 = int64(depth)
	fullDepth := depth
	for _, j := range jobs {
		depth := j.depth
		ops := c02Alphabet(j.k, j.l)
		seen := map[[16]byte]struct{}{}
		var mu sync.Mutex
		frontier := [][]int{{}}
		c02Exec(c, c02Case{Kind: j.k, Layout: j.l, Init: j.init}, func(k string) { seen[hash128(k)] = struct{}{} })
		for d := 1; d <= depth && len(frontier) > 0; d++ {
			if c.Expired() {
				if int64(d-1) < maxDepthDone && j.depth == fullDepth {
					maxDepthDone = int64(d - 1)
				}
				break
			}
			var next [][]int
			c.Parallel(len(frontier), func(i int) {
				h := frontier[i]
				for o := range ops {
					hh := append(append([]int{}, h...), o)
					c.Count("transitions", 1)
					c02Exec(c, c02Case{Kind: j.k, Layout: j.l, Init: j.init, Ops: hh}, func(ks string) {
						k := hash128(ks)
						mu.Lock()
						if _, ok := seen[k]; !ok {
							seen[k] = struct{}{}
							next = append(next, hh)
						}
						mu.Unlock()
					})
				}
			})
			frontier = next
		}
		c.Count("states", int64(len(seen)))
		c.Sample(j.k.String(), 1, map[string]any{"kind": j.k.String(), "layout": j.l.String(), "states": len(seen), "alphabet": opNames(ops)})
	}
	c02SignedZeros(c)
	c.Count("traces_validated_against_impl", c.Get("evaluations"))
	c.Count("distinct_nontrivial", c.Get("states"))
	c.Note("depth_completed", maxDepthDone)
}

// c02SignedZeros: Reverse over coordinates that differ in the SIGN OF ZERO only. For every type
// with a Reverse method, three layouts, parts of 1..4 vertices, every ordinate column and every
// assignment of +0 / -0 to that column (the other columns count up): the whole geometry (two
// parts, the second with the complementary pattern) is built through the model, reversed, and
// must equal the model with every part reversed bit for bit (+0 and -0 compare equal as numbers,
// so a swap that is skipped for "equal" values shows only here).
func c02SignedZeros(c *engine.Ctx) {
	negZero := ref.F(math.Copysign(0, -1))
	type job struct {
		k ref.Kind
		l geom.Layout
		n int
	}
	var jobs []job
	for _, k := range []ref.Kind{ref.LineString, ref.LinearRing, ref.Polygon, ref.MultiPoint, ref.MultiLineString, ref.MultiPolygon} {
		for _, l := range []geom.Layout{geom.XY, geom.XYZM, geom.Layout(5)} {
			for n := 1; n <= 4; n++ {
				jobs = append(jobs, job{k, l, n})
			}
		}
	}
	c.Parallel(len(jobs), func(ji int) {
		j := jobs[ji]
		for col := 0; col < j.l.Stride(); col++ {
			for pat := 0; pat < 1<<j.n; pat++ {
				line := func(p int) []ref.C {
					cs := ref.NewLine(ref.LineString, j.l, j.n, ref.CounterFrom(float64(10+p))).C1
					for i := range cs {
						cs[i][col] = 0
						if p>>i&1 == 1 {
							cs[i][col] = negZero
						}
					}
					return cs
				}
				a, b := line(pat), line(^pat&(1<<j.n-1))
				var m *ref.G
				switch j.k {
				case ref.LineString, ref.LinearRing:
					m = &ref.G{Kind: j.k, Layout: j.l, C1: a}
				case ref.MultiPoint:
					m = &ref.G{Kind: j.k, Layout: j.l, C1: append(append([]ref.C{}, a...), b...)}
				case ref.Polygon, ref.MultiLineString:
					m = &ref.G{Kind: j.k, Layout: j.l, C2: [][]ref.C{a, b}}
				case ref.MultiPolygon:
					m = &ref.G{Kind: j.k, Layout: j.l, C3: [][][]ref.C{{a}, {b, a}}}
				}
				c02ZeroCheck(c, m)
			}
		}
	})
}

// c02ZeroCheck reverses one geometry built from the model and compares it bit for bit with the
// model whose parts are reversed.
func c02ZeroCheck(c *engine.Ctx, m *ref.G) {
	t := m.MustBuild()
	want := m.Clone()
	rev := func(cs []ref.C) {
		for x, y := 0, len(cs)-1; x < y; x, y = x+1, y-1 {
			cs[x], cs[y] = cs[y], cs[x]
		}
	}
	if m.Kind == ref.LineString || m.Kind == ref.LinearRing {
		rev(want.C1) // (every point of a MultiPoint is a part of one vertex: nothing to reverse)
	}
	for _, r := range want.C2 {
		rev(r)
	}
	for _, pl := range want.C3 {
		for _, r := range pl {
			rev(r)
		}
	}
	c.Count("evaluations", 1)
	c.Count("signed_zero_reversals", 1)
	var d string
	if p, _ := engine.Guard(func() {
		switch tt := t.(type) {
		case *geom.LineString:
			tt.Reverse()
		case *geom.LinearRing:
			tt.Reverse()
		default:
			reverseT(t)
		}
		d = observeEq(t, want, ref.EqualOpt{})
	}); p != nil {
		d = fmt.Sprintf("panic %v", p)
	}
	if d != "" {
		c.Violate(fmt.Sprintf("%s/%s/Reverse/signed-zero", m.Kind, m.Layout), fmt.Sprintf("Reverse of %s: %s", m, d), "c02zero", m)
	}
}

func c02ZeroReplay(c *engine.Ctx, m *ref.G) { c02ZeroCheck(c, m) }

func opNames(ops []c02Op) []string {
	var out []string
	for _, o := range ops {
		out = append(out, o.name)
	}
	return out
}

var _ = json.Marshal
