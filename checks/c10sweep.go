package checks

import (
	"math"
	"math/big"

	"github.com/twpayne/go-geom"
	"github.com/twpayne/go-geom/bigxy"
	"github.com/twpayne/go-geom/xy/orientation"

	"verif/engine"
	"verif/ref"
)

// Lean sweeps for C10: families of 10^6..10^7 near-collinear triples, each evaluated with ONE call
// of the predicate and an exact sign from big.Float arithmetic at a precision that holds every
// intermediate exactly; only a disagreement goes through c10Exec (which re-evaluates everything,
// builds the violation and the replay case). The families are fixed and enumerated completely.

// exactSign3 is the sign of (bx-ax)(py-ay) - (by-ay)(px-ax) with every operation exact.
func exactSign3(ax, ay, bx, by, px, py float64) int {
	const prec = 4400 // differences of float64s need <= 2098 bits, their products twice that
	f := func(v float64) *big.Float { return new(big.Float).SetPrec(prec).SetFloat64(v) }
	dx1 := f(bx)
	dx1.Sub(dx1, f(ax))
	dy1 := f(by)
	dy1.Sub(dy1, f(ay))
	dx2 := f(px)
	dx2.Sub(dx2, f(ax))
	dy2 := f(py)
	dy2.Sub(dy2, f(ay))
	l := new(big.Float).SetPrec(prec).Mul(dx1, dy2)
	r := new(big.Float).SetPrec(prec).Mul(dy1, dx2)
	return l.Cmp(r)
}

// exactSign3Small: the same for ordinates of moderate magnitude (|exponent| <= 60), where 400
// bits hold everything exactly - an order of magnitude faster.
func exactSign3Small(ax, ay, bx, by, px, py float64) int {
	const prec = 400
	f := func(v float64) *big.Float { return new(big.Float).SetPrec(prec).SetFloat64(v) }
	dx1 := f(bx)
	dx1.Sub(dx1, f(ax))
	dy1 := f(by)
	dy1.Sub(dy1, f(ay))
	dx2 := f(px)
	dx2.Sub(dx2, f(ax))
	dy2 := f(py)
	dy2.Sub(dy2, f(ay))
	return new(big.Float).SetPrec(prec).Mul(dx1, dy2).Cmp(new(big.Float).SetPrec(prec).Mul(dy1, dx2))
}

// c10Lean evaluates the triple in all six argument orders.
func c10Lean(c *engine.Ctx, counter string, a, b, p [2]float64) {
	pts := [3][2]float64{a, b, p}
	for _, o := range [6][3]int{{0, 1, 2}, {1, 2, 0}, {2, 0, 1}, {1, 0, 2}, {0, 2, 1}, {2, 1, 0}} {
		A, B, P := pts[o[0]], pts[o[1]], pts[o[2]]
		var got orientation.Type
		if pn, _ := engine.Guard(func() {
			got = bigxy.OrientationIndex(geom.Coord{A[0], A[1]}, geom.Coord{B[0], B[1]}, geom.Coord{P[0], P[1]})
		}); pn != nil || int(got) != exactSign3Small(A[0], A[1], B[0], B[1], P[0], P[1]) {
			c10Exec(c, c10Case{Pts: []ref.F{ref.F(A[0]), ref.F(A[1]), ref.F(B[0]), ref.F(B[1]), ref.F(P[0]), ref.F(P[1])}})
			continue
		}
		c.Count("evaluations", 1)
		c.Count(counter, 1)
	}
}

// ratFloat rounds a + (k/m)(b-a) to the nearest float64 (exact rational evaluation first).
func ratFloat(a, b float64, k, m int64) float64 {
	ra, rb := new(big.Rat).SetFloat64(a), new(big.Rat).SetFloat64(b)
	d := new(big.Rat).Sub(rb, ra)
	d.Mul(d, big.NewRat(k, m))
	d.Add(d, ra)
	f, _ := d.Float64()
	return f
}

// c10FloatLines: for every ordered pair (A,B) of a set of full-mantissa points that straddle both
// axes at several magnitudes, the float nearest to the line AB at the parameters k/m, k = -m..2m,
// and its 8 neighbours one ulp away in x and/or y: near-collinear triples whose coordinate
// differences are not representable (different binary exponents, opposite signs).
func c10FloatLines(c *engine.Ctx, m int64) {
	sweepFloatLines(c, m, func(a, b, p [2]float64) { c10Lean(c, "float_line_triples", a, b, p) })
}

// sweepFloatLines enumerates the float-line lattice and hands every triple to emit (in parallel).
func sweepFloatLines(c *engine.Ctx, m int64, emit func(a, b, p [2]float64)) {
	q := [][2]float64{{-7.3, 5.1}, {9.2, -6.4}, {0.7, 0.3}, {-0.7, -0.55}, {3.3, -9.9}, {-5.05, -4.95}, {12.345, 6.789},
		{1234.5678, -987.654}, {-1500.1, 1600.2}, {0.1, 0.2}, {100.1, 200.2}, {-0.013, 0.017}, {15.9, 16.1}, {-1023.9, -1024.1}, {6.02214076, -1.602176634}, {0.5000000001, 0.4999999999}}
	type pair struct{ a, b [2]float64 }
	var pairs []pair
	for i, a := range q {
		for j, b := range q {
			if i != j {
				pairs = append(pairs, pair{a, b})
			}
		}
	}
	c.Note("float_line_pairs", len(pairs))
	c.Parallel(len(pairs), func(i int) {
		a, b := pairs[i].a, pairs[i].b
		for k := -m; k <= 2*m; k++ {
			if k == 0 || k == m {
				continue
			}
			px, py := ratFloat(a[0], b[0], k, m), ratFloat(a[1], b[1], k, m)
			for dx := -1; dx <= 1; dx++ {
				for dy := -1; dy <= 1; dy++ {
					emit(a, b, [2]float64{ulps(px, dx), ulps(py, dy)})
				}
			}
		}
	})
}

// mixedCollinearMany: exactly collinear triples (S, P, E) of mixed magnitude as in mixedCollinear,
// over many more directions, offsets and multiples (E = P + j*v, j up to 200): S has a 40-bit
// fraction near (1,1), P and E are integers; the differences S-P, S-E need up to 60 bits.
func mixedCollinearMany(nDirs, nT int) [][6]float64 {
	var out [][6]float64
	const two40 = float64(1 << 40)
	mod := int64(1) << 40
	dirs := [][2]int64{{7, 5}, {1, 3}, {13, -9}, {-5, 11}, {101, 97}, {3, 1}, {1, 1}, {2, 3}, {-3, 2}, {17, 4}, {5, -17}, {29, 31}, {-41, 37}, {1, 7}, {9, 2}, {11, -13}, {63, 64}, {-65, 64}, {127, 1}, {1, -255}}
	if nDirs < len(dirs) {
		dirs = dirs[:nDirs]
	}
	for _, v := range dirs {
		for ti := 0; ti < nT; ti++ {
			tk := int64(10007 + 7919*ti)
			T := tk*mod + 2*tk*7919 + 1
			a := ((-v[0]*T)%mod + mod) % mod
			b := ((-v[1]*T)%mod + mod) % mod
			sx, sy := 1+float64(a)/two40, 1+float64(b)/two40
			pxi := 1 + (a+v[0]*T)/mod
			pyi := 1 + (b+v[1]*T)/mod
			for _, j := range []int64{1, 2, 3, 4, 5, 7, 10, 33, 97, 200} {
				ex, ey := pxi+v[0]*j, pyi+v[1]*j
				t := [6]float64{sx, sy, float64(pxi), float64(pyi), float64(ex), float64(ey)}
				if exactSign3Small(t[0], t[1], t[2], t[3], t[4], t[5]) == 0 {
					out = append(out, t)
				}
			}
		}
	}
	return out
}

// c10MixedSweep: every triple of mixedCollinearMany exactly collinear, and with each ordinate one
// and two ulps off (one ordinate at a time), in all six argument orders.
func c10MixedSweep(c *engine.Ctx, nDirs, nT int) {
	sweepMixed(c, nDirs, nT, func(a, b, p [2]float64) { c10Lean(c, "mixed_many_triples", a, b, p) })
}

// sweepMixed enumerates the mixed-magnitude collinear triples and their perturbations.
func sweepMixed(c *engine.Ctx, nDirs, nT int, emit func(a, b, p [2]float64)) {
	ts := mixedCollinearMany(nDirs, nT)
	c.Note("mixed_collinear_many", len(ts))
	c.Parallel(len(ts), func(i int) {
		t := ts[i]
		emit([2]float64{t[0], t[1]}, [2]float64{t[2], t[3]}, [2]float64{t[4], t[5]})
		for k := 0; k < 6; k++ {
			for _, d := range []int{-2, -1, 1, 2} {
				w := t
				w[k] = ulps(w[k], d)
				emit([2]float64{w[0], w[1]}, [2]float64{w[2], w[3]}, [2]float64{w[4], w[5]})
			}
		}
	})
}

// c10BigIntegers: triples of integer points with ordinates of magnitude 2^52..2^53 (and 2^30,
// 2^40 for comparison) in different quadrants whose cross product is exactly +-1, +-2, +-3:
// A in one quadrant, B = A + d in the opposite one (so the ordinate differences carry into a
// 54th bit), P = A + j*(r,s) + i*d with d x (r,s) = 1 from the extended Euclidean algorithm.
func c10BigIntegers(c *engine.Ctx) {
	type tri struct{ a, b, p [2]float64 }
	var ts []tri
	isF := func(v *big.Int) (float64, bool) {
		if v.BitLen() > 53 {
			return 0, false
		}
		f, _ := new(big.Float).SetInt(v).Float64()
		return f, true
	}
	seq := uint64(88172645463325252)
	next := func(bits uint) *big.Int {
		seq ^= seq << 13
		seq ^= seq >> 7
		seq ^= seq << 17
		v := new(big.Int).SetUint64(seq >> (64 - bits))
		return v.SetBit(v, int(bits-1), 1) // full width
	}
	for _, bits := range []uint{24, 26, 27, 30, 31, 32, 40, 52, 53} {
		for n := 0; n < 200; n++ {
			ax, ay := new(big.Int).Neg(next(bits)), new(big.Int).Neg(next(bits))
			bx, by := next(bits), next(bits)
			if n%4 == 1 {
				ay.Neg(ay)
				by.Neg(by)
			}
			if n%4 == 2 {
				ax.Neg(ax)
				bx.Neg(bx)
			}
			dx, dy := new(big.Int).Sub(bx, ax), new(big.Int).Sub(by, ay)
			g, u, v := new(big.Int), new(big.Int), new(big.Int)
			g.GCD(u, v, dx, dy) // u*dx + v*dy = g
			if g.Cmp(big.NewInt(1)) != 0 {
				continue
			}
			// d x (r,s) = dx*s - dy*r = 1 with (r,s) = (-v, u)
			r, s := new(big.Int).Neg(v), new(big.Int).Set(u)
			for _, j := range []int64{1, -1, 2, 3} {
				for _, i := range []int64{0, 1} { // near A, near B
					px := new(big.Int).Mul(r, big.NewInt(j))
					py := new(big.Int).Mul(s, big.NewInt(j))
					px.Add(px, ax)
					py.Add(py, ay)
					if i == 1 {
						px.Add(px, dx)
						py.Add(py, dy)
					}
					fax, ok1 := isF(ax)
					fay, ok2 := isF(ay)
					fbx, ok3 := isF(bx)
					fby, ok4 := isF(by)
					fpx, ok5 := isF(px)
					fpy, ok6 := isF(py)
					if ok1 && ok2 && ok3 && ok4 && ok5 && ok6 {
						ts = append(ts, tri{[2]float64{fax, fay}, [2]float64{fbx, fby}, [2]float64{fpx, fpy}})
					}
				}
			}
		}
	}
	c.Note("big_integer_triples", len(ts))
	c.Parallel(len(ts), func(i int) {
		c10Lean(c, "big_integer_cases", ts[i].a, ts[i].b, ts[i].p)
	})
}

// c10ThroughOrigin: segments AB that pass close to the origin of the coordinate system (B roughly
// opposite A) and query points of much smaller magnitude near the line where it passes the
// origin: every one of the four coordinate differences A-P, B-P then loses low bits of P, which is
// where a floating-point filter accumulates its largest error. For each of ~100 pairs the floats
// nearest to the line at `steps` parameters in a window around the closest approach to the
// origin, with their 8 one-ulp neighbours, in all six argument orders.
func c10ThroughOrigin(c *engine.Ctx, steps int) {
	sweepThroughOrigin(c, steps, func(a, b, p [2]float64) { c10Lean(c, "through_origin_triples", a, b, p) })
}

// sweepThroughOrigin enumerates the through-the-origin family.
func sweepThroughOrigin(c *engine.Ctx, steps int, emit func(a, b, p [2]float64)) {
	as := [][2]float64{{5.797367, 4.572201}, {1.509239, 1.167890}, {10.633283, 5.977051}, {2.242590, 4.658419}, {1.425465, 9.908858}, {2.529804, 1.458376}, {5.361697, 1.692275}, {0.513737, 40107.36}, {-3.3, 7.7}, {12.7, -0.9}}
	type pair struct{ a, b [2]float64 }
	var pairs []pair
	for _, a := range as {
		for _, lam := range []float64{0.71, 0.93, 1.37} {
			for _, e := range [][2]float64{{0.0137, -0.0071}, {-0.21, 0.33}, {0.0009, 0.0004}} {
				pairs = append(pairs, pair{a, [2]float64{-lam*a[0] + e[0], -lam*a[1] + e[1]}})
			}
		}
	}
	c.Note("through_origin_pairs", len(pairs))
	c.Parallel(len(pairs), func(i int) {
		a, b := pairs[i].a, pairs[i].b
		dx, dy := b[0]-a[0], b[1]-a[1]
		t0 := -(a[0]*dx + a[1]*dy) / (dx*dx + dy*dy)
		const den = int64(1) << 20
		k0 := int64(math.Round(t0 * float64(den)))
		step := den / 16 / int64(steps) // window t0 +- 2^-4
		if step < 1 {
			step = 1
		}
		for n := -int64(steps); n <= int64(steps); n++ {
			k := k0 + n*step
			px, py := ratFloat(a[0], b[0], k, den), ratFloat(a[1], b[1], k, den)
			for ux := -1; ux <= 1; ux++ {
				for uy := -1; uy <= 1; uy++ {
					emit(a, b, [2]float64{ulps(px, ux), ulps(py, uy)})
				}
			}
		}
	})
}

// sweepMixedScale: triples whose ordinates have few significant bits each (20..26-bit integers
// times a power of two - every one of them exactly representable even in single precision when
// 24 bits suffice) but very different binary exponents: A = -a, B = s*b, P = j*s*b with
// cross(a,b) = +-1 from the extended Euclidean algorithm and s = 2^10, 2^23, 2^30. The exact
// cross product is tiny against the products of the differences (which need twice
// (bits + log2 s) bits), so any evaluation in rounded arithmetic sees only noise, and a shortcut
// that trusts "simple" inputs (integers, single-precision values) goes wrong here.
func sweepMixedScale(c *engine.Ctx, emit func(a, b, p [2]float64)) {
	type tri struct{ a, b, p [2]float64 }
	var ts []tri
	seq := uint64(0x2545F4914F6CDD1D)
	next := func(bits uint) int64 {
		seq ^= seq << 13
		seq ^= seq >> 7
		seq ^= seq << 17
		return int64(seq>>(64-bits)) | int64(1)<<(bits-1)
	}
	for _, bits := range []uint{20, 23, 26} {
		for n := 0; n < 120; n++ {
			b1, b2 := next(bits), next(bits)
			g, u, v := new(big.Int), new(big.Int), new(big.Int)
			g.GCD(u, v, big.NewInt(b1), big.NewInt(b2)) // u*b1 + v*b2 = 1
			if g.Cmp(big.NewInt(1)) != 0 || !u.IsInt64() || !v.IsInt64() {
				continue
			}
			// cross(a,b) = a1*b2 - a2*b1 = 1 with a = (v, -u)
			a1, a2 := float64(v.Int64()), -float64(u.Int64())
			for _, sh := range []int{10, 23, 30} {
				s := math.Ldexp(1, sh)
				for _, j := range []float64{2, 3, 0.5} {
					for sign := 0; sign < 4; sign++ {
						sx, sy := 1.0, 1.0
						if sign&1 != 0 {
							sx = -1
						}
						if sign&2 != 0 {
							sy = -1
						}
						ts = append(ts, tri{
							[2]float64{-a1 * sx, -a2 * sy},
							[2]float64{s * float64(b1) * sx, s * float64(b2) * sy},
							[2]float64{j * s * float64(b1) * sx, j * s * float64(b2) * sy}})
					}
				}
			}
		}
	}
	c.Note("mixed_scale_triples", len(ts))
	c.Parallel(len(ts), func(i int) { emit(ts[i].a, ts[i].b, ts[i].p) })
}

func c10MixedScale(c *engine.Ctx) {
	sweepMixedScale(c, func(a, b, p [2]float64) { c10Lean(c, "mixed_scale_cases", a, b, p) })
}

// c10IntRange: every triple over the integer values at the ends of the 32-bit range and around
// zero, {-2^31, -2^31+1, -2^30, -1, 0, 1, 2^30, 2^31-1}^2: fat triangles whose cross product
// exceeds 2^63 (an evaluation in 64-bit integers wraps around) next to degenerate ones.
func c10IntRange(c *engine.Ctx) {
	v := []float64{-2147483648, -2147483647, -1073741824, -1, 0, 1, 1073741824, 2147483647}
	var pts [][2]float64
	for _, x := range v {
		for _, y := range v {
			pts = append(pts, [2]float64{x, y})
		}
	}
	c.Parallel(len(pts), func(i int) {
		for j := i; j < len(pts); j++ {
			for k := j; k < len(pts); k++ {
				c10Lean(c, "int_range_cases", pts[i], pts[j], pts[k]) // all six orders inside
			}
		}
	})
}

// c10SecondOrder: triples whose determinant is a difference of SECOND-order terms. P = (u,u) lies on
// the diagonal through C = (c,c); A = P + (s,r) and B = P - (r,s) are its two images under a tiny
// displacement and the mirrored, negated one. Relative to C the determinant is exactly r^2 - s^2:
// the products of the large parts cancel, the mixed terms cancel, and only the product of the
// roundoff-sized parts is left. Every u, c, s, r over small menus (s, r between 2^-95 and 2^-70,
// also with a few low-order bits set), the anti-diagonal mirror image, every argument order; the
// exact sign from full-precision arithmetic (c10Exec).
func c10SecondOrder(c *engine.Ctx) {
	us := []float64{math.Ldexp(1, -60), math.Ldexp(1, -30), 0.1, 3, -7.25}
	cs := []float64{1, -5, 1024, 0.3}
	var tiny []float64
	for _, e := range []int{-95, -90, -80, -70} {
		for _, m := range []float64{1, 1 + math.Ldexp(1, -20), 1.5, 1 + math.Ldexp(1, -52)} {
			tiny = append(tiny, math.Ldexp(m, e), -math.Ldexp(m, e))
		}
	}
	type job struct{ u, cc float64 }
	var jobs []job
	for _, u := range us {
		for _, cc := range cs {
			jobs = append(jobs, job{u, cc})
		}
	}
	c.Parallel(len(jobs), func(i int) {
		j := jobs[i]
		for _, s := range tiny {
			for _, r := range tiny {
				for _, anti := range []float64{1, -1} {
					a := [2]float64{j.u + s, anti * (j.u + r)}
					b := [2]float64{j.u - r, anti * (j.u - s)}
					p := [2]float64{j.cc, anti * j.cc}
					pts := [3][2]float64{a, b, p}
					for _, o := range [6][3]int{{0, 1, 2}, {1, 2, 0}, {2, 0, 1}, {1, 0, 2}, {0, 2, 1}, {2, 1, 0}} {
						A, B, P := pts[o[0]], pts[o[1]], pts[o[2]]
						c.Count("second_order_cases", 1)
						c10Exec(c, c10Case{Pts: []ref.F{ref.F(A[0]), ref.F(A[1]), ref.F(B[0]), ref.F(B[1]), ref.F(P[0]), ref.F(P[1])}})
					}
				}
			}
		}
	})
}
