// Package checks holds one harness per property (C01 … C20).
package checks

import (
	"crypto/md5"
	"encoding/json"
	"fmt"
	"math"
	"os"
	"sync/atomic"

	"github.com/twpayne/go-geom"

	"verif/engine"
	"verif/ref"
)

func layoutName(l geom.Layout) string { return l.String() }

func mustJSON(v any) string {
	b, err := json.Marshal(v)
	if err != nil {
		return fmt.Sprintf("%v", v)
	}
	return string(b)
}

// decodeCase unmarshals a replay case or panics (harness error).
func decodeCase[T any](raw json.RawMessage) T {
	var v T
	if err := json.Unmarshal(raw, &v); err != nil {
		panic(fmt.Sprintf("bad replay case: %v", err))
	}
	return v
}

func inc(p *int64) { atomic.AddInt64(p, 1) }

// observeEq compares a real geometry with a model; returns "" when equal.
func observeEq(t geom.T, want *ref.G, o ref.EqualOpt) string {
	got, err := ref.Observe(t)
	if err != nil {
		return "observe: " + err.Error()
	}
	if !ref.Equal(got, want, o) {
		return fmt.Sprintf("got %s want %s", got, want)
	}
	return ""
}

var _ = engine.Guard

// hash128 is a 128-bit digest of a canonical state key (collisions are negligible at 10^8 states).
func hash128(s string) [16]byte { return md5.Sum([]byte(s)) }

// mixedCollinear returns exactly collinear triples (S, P, E) of mixed magnitude: S has a 40-bit
// fraction near (1,1), P and E are integers of 10^4..10^6 on the line through S with an odd
// integer direction v; the coordinate differences S-P, S-E are not representable, so
// floating-point determinant filters see rounding noise while the exact answer is "collinear".
// Every triple is verified collinear in rational arithmetic.
func mixedCollinear() [][6]float64 {
	var out [][6]float64
	const two40 = float64(1 << 40)
	mod := int64(1) << 40
	for _, v := range [][2]int64{{7, 5}, {1, 3}, {13, -9}, {-5, 11}, {101, 97}, {3, 1}} {
		for _, tk := range []int64{12345, 15001, 99991, 40003, 7777} {
			T := tk*mod + 2*tk*7919 + 1 // odd, t = T/2^40 ~ tk
			a := ((-v[0]*T)%mod + mod) % mod
			b := ((-v[1]*T)%mod + mod) % mod
			sx, sy := 1+float64(a)/two40, 1+float64(b)/two40
			// P = S + v*T/2^40, an integer point by construction
			px := (float64(a) + float64(v[0])*float64(T%mod)) / two40
			_ = px
			pxi := 1 + (a+v[0]*T)/mod
			pyi := 1 + (b+v[1]*T)/mod
			for _, j := range []int64{1, 3, 10, 97} {
				ex, ey := pxi+v[0]*j, pyi+v[1]*j
				t := [6]float64{sx, sy, float64(pxi), float64(pyi), float64(ex), float64(ey)}
				if ref.Orient(ref.P2{X: t[0], Y: t[1]}, ref.P2{X: t[2], Y: t[3]}, ref.P2{X: t[4], Y: t[5]}) == 0 && !math.IsInf(t[4], 0) {
					out = append(out, t)
				}
			}
		}
	}
	return out
}

// Home is the framework directory: /verif, or $VERIF_HOME for a scratch copy (used only by
// tools/scratch_eval.sh to evaluate seeded changes without touching /repo).
func Home() string {
	if h := os.Getenv("VERIF_HOME"); h != "" {
		return h
	}
	return "/verif"
}
