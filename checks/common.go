// Package checks holds one harness per property (C01 … C20).
package checks

import (
	"crypto/md5"
	"encoding/json"
	"fmt"
	"math"
	"os"
	"sync/atomic"
	"time"
	"unicode/utf8"

	"github.com/twpayne/go-geom"

	"verif/engine"
	"verif/ref"
)

func layoutName(l geom.Layout) string { return l.String() }

func mustJSON(v any) string {
	b, err := json.Marshal(v)
	if err != nil {
		return fmt.Sprintf("%v", v)
	}
	return string(b)
}

// decodeCase unmarshals a replay case or panics (harness error).
func decodeCase[T any](raw json.RawMessage) T {
	var v T
	if err := json.Unmarshal(raw, &v); err != nil {
		panic(fmt.Sprintf("bad replay case: %v", err))
	}
	return v
}

func inc(p *int64) { atomic.AddInt64(p, 1) }

// observeEq compares a real geometry with a model; returns "" when equal.
func observeEq(t geom.T, want *ref.G, o ref.EqualOpt) string {
	got, err := ref.Observe(t)
	if err != nil {
		return "observe: " + err.Error()
	}
	if !ref.Equal(got, want, o) {
		return fmt.Sprintf("got %s want %s", got, want)
	}
	return ""
}

var _ = engine.Guard

// hash128 is a 128-bit digest of a canonical state key (collisions are negligible at 10^8 states).
func hash128(s string) [16]byte { return md5.Sum([]byte(s)) }

// mixedCollinear returns exactly collinear triples (S, P, E) of mixed magnitude: S has a 40-bit
// fraction near (1,1), P and E are integers of 10^4..10^6 on the line through S with an odd
// integer direction v; the coordinate differences S-P, S-E are not representable, so
// floating-point determinant filters see rounding noise while the exact answer is "collinear".
// Every triple is verified collinear in rational arithmetic.
func mixedCollinear() [][6]float64 {
	var out [][6]float64
	const two40 = float64(1 << 40)
	mod := int64(1) << 40
	for _, v := range [][2]int64{{7, 5}, {1, 3}, {13, -9}, {-5, 11}, {101, 97}, {3, 1}} {
		for _, tk := range []int64{12345, 15001, 99991, 40003, 7777} {
			T := tk*mod + 2*tk*7919 + 1 // odd, t = T/2^40 ~ tk
			a := ((-v[0]*T)%mod + mod) % mod
			b := ((-v[1]*T)%mod + mod) % mod
			sx, sy := 1+float64(a)/two40, 1+float64(b)/two40
			// P = S + v*T/2^40, an integer point by construction
			px := (float64(a) + float64(v[0])*float64(T%mod)) / two40
			_ = px
			pxi := 1 + (a+v[0]*T)/mod
			pyi := 1 + (b+v[1]*T)/mod
			for _, j := range []int64{1, 3, 10, 97} {
				ex, ey := pxi+v[0]*j, pyi+v[1]*j
				t := [6]float64{sx, sy, float64(pxi), float64(pyi), float64(ex), float64(ey)}
				if ref.Orient(ref.P2{X: t[0], Y: t[1]}, ref.P2{X: t[2], Y: t[3]}, ref.P2{X: t[4], Y: t[5]}) == 0 && !math.IsInf(t[4], 0) {
					out = append(out, t)
				}
			}
		}
	}
	return out
}

// Home is the framework directory: /verif, or $VERIF_HOME for a scratch copy (used only by
// tools/scratch_eval.sh to evaluate seeded changes without touching /repo).
func Home() string {
	if h := os.Getenv("VERIF_HOME"); h != "" {
		return h
	}
	return "/verif"
}

// axisParallelCrossings returns pairs of segments (a1,a2,b1,b2 as 8 numbers) with rough integer
// ordinates in [-2^k, 2^k], k = 17..20, in which the first segment is exactly horizontal or
// vertical and the second crosses it properly. An axis-parallel segment has an envelope of zero
// width, so any computed crossing point must reproduce its constant ordinate bit for bit, while
// the triple products of the usual formulas exceed 2^53 at this size. A fixed multiplicative
// sequence supplies the ordinates; every pair is verified to cross properly in exact arithmetic
// by the callers' oracles.
func axisParallelCrossings() [][8]float64 {
	var out [][8]float64
	seq := uint64(0x9E3779B97F4A7C15)
	next := func(k int) float64 { // rough value in [-2^k, 2^k]
		seq = seq*6364136223846793005 + 1442695040888963407
		v := int64(seq>>11) % (int64(1)<<uint(k+1) + 1)
		return float64(v - int64(1)<<uint(k))
	}
	for k := 17; k <= 20; k++ {
		for n := 0; n < 160; n++ {
			y := next(k)
			x1, x2 := next(k), next(k)
			if x1 > x2 {
				x1, x2 = x2, x1
			}
			if x2-x1 < 4 {
				continue
			}
			// the crossing abscissa strictly inside (x1,x2): pick the second segment through a
			// lattice point (xc, y +- h) pair on opposite sides, ends rough
			bx1, bx2 := next(k), next(k)
			h1, h2 := math.Abs(next(k))+1, math.Abs(next(k))+1
			b1 := [2]float64{bx1, y - h1}
			b2 := [2]float64{bx2, y + h2}
			// exact crossing abscissa as a rational: bx1 + (bx2-bx1)*h1/(h1+h2); keep the pair when
			// it lies strictly inside
			xc := bx1 + (bx2-bx1)*h1/(h1+h2)
			if !(xc > x1+1 && xc < x2-1) {
				continue
			}
			out = append(out, [8]float64{x1, y, x2, y, b1[0], b1[1], b2[0], b2[1]})
			out = append(out, [8]float64{y, x1, y, x2, b1[1], b1[0], b2[1], b2[0]}) // vertical
		}
	}
	return out
}

// Replay files are JSON, and a Go string that is not valid UTF-8 does not survive a JSON string
// (encoding/json substitutes U+FFFD). Cases that carry raw input text therefore store such texts
// as bytes next to the string field; these helpers do the splitting and joining.
func splitText(s string) (string, []byte) {
	if utf8.ValidString(s) {
		return s, nil
	}
	return "", []byte(s)
}

func joinText(s string, b []byte) string {
	if b != nil {
		return string(b)
	}
	return s
}

// emptySliceVariants returns t rebuilt with the New*Flat constructors so that every zero-length
// component (coordinates, ends, the ends of a polygon without rings) is a non-nil empty slice, plus
// a clone of that; nothing when t has no zero-length component.
func emptySliceVariants(t geom.T) []geom.T {
	flat := append([]float64{}, t.FlatCoords()...)
	var v geom.T
	switch tt := t.(type) {
	case *geom.Polygon:
		if len(tt.Ends()) != 0 && len(flat) != 0 {
			return nil
		}
		v = geom.NewPolygonFlat(tt.Layout(), flat, append([]int{}, tt.Ends()...))
	case *geom.MultiLineString:
		if len(tt.Ends()) != 0 && len(flat) != 0 {
			return nil
		}
		v = geom.NewMultiLineStringFlat(tt.Layout(), flat, append([]int{}, tt.Ends()...))
	case *geom.MultiPolygon:
		some := len(flat) == 0 || len(tt.Endss()) == 0
		endss := [][]int{}
		for _, e := range tt.Endss() {
			if len(e) == 0 {
				some = true
			}
			endss = append(endss, append([]int{}, e...))
		}
		if !some {
			return nil
		}
		v = geom.NewMultiPolygonFlat(tt.Layout(), flat, endss)
	default:
		return nil
	}
	v2 := v
	switch tt := v.(type) {
	case *geom.Polygon:
		v2 = tt.Clone()
	case *geom.MultiLineString:
		v2 = tt.Clone()
	case *geom.MultiPolygon:
		v2 = tt.Clone()
	}
	return []geom.T{v, v2}
}

// reverseHung is set once a Reverse call on a geometry without coordinates did not return; later
// calls of the same run are not made (each would leave another goroutine spinning for good).
var reverseHung atomic.Bool

// reverseReturns calls rev - a Reverse method on a geometry without a layout, hence without
// coordinates: nothing to do - under a watchdog. The wait is generous (the call takes
// nanoseconds when it returns at all), so a loaded machine cannot turn it into an alarm.
func reverseReturns(rev func()) string {
	const hung = "Reverse on a geometry without a layout did not return (waited 15 s; stride 0 in a loop that steps by the stride)"
	if reverseHung.Load() {
		return hung
	}
	done := make(chan any, 1)
	go func() {
		defer func() { done <- recover() }()
		rev()
	}()
	select {
	case p := <-done:
		if p != nil {
			return fmt.Sprintf("Reverse panicked: %v", p)
		}
		return ""
	case <-time.After(15 * time.Second):
		reverseHung.Store(true)
		return hung
	}
}

// permute calls f with every permutation of idx (Heap's algorithm; f must not keep the slice).
func permute(idx []int, f func([]int)) {
	var rec func(k int)
	rec = func(k int) {
		if k == 1 {
			f(idx)
			return
		}
		for i := 0; i < k; i++ {
			rec(k - 1)
			if k%2 == 0 {
				idx[i], idx[k-1] = idx[k-1], idx[i]
			} else {
				idx[0], idx[k-1] = idx[k-1], idx[0]
			}
		}
	}
	if len(idx) > 0 {
		rec(len(idx))
	}
}
