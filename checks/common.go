// Package checks holds one harness per property (C01 … C20).
package checks

import (
	"crypto/md5"
	"encoding/json"
	"fmt"
	"sync/atomic"

	"github.com/twpayne/go-geom"

	"verif/engine"
	"verif/ref"
)

func layoutName(l geom.Layout) string { return l.String() }

func mustJSON(v any) string {
	b, err := json.Marshal(v)
	if err != nil {
		return fmt.Sprintf("%v", v)
	}
	return string(b)
}

// decodeCase unmarshals a replay case or panics (harness error).
func decodeCase[T any](raw json.RawMessage) T {
	var v T
	if err := json.Unmarshal(raw, &v); err != nil {
		panic(fmt.Sprintf("bad replay case: %v", err))
	}
	return v
}

func inc(p *int64) { atomic.AddInt64(p, 1) }

// observeEq compares a real geometry with a model; returns "" when equal.
func observeEq(t geom.T, want *ref.G, o ref.EqualOpt) string {
	got, err := ref.Observe(t)
	if err != nil {
		return "observe: " + err.Error()
	}
	if !ref.Equal(got, want, o) {
		return fmt.Sprintf("got %s want %s", got, want)
	}
	return ""
}

var _ = engine.Guard

// hash128 is a 128-bit digest of a canonical state key (collisions are negligible at 10^8 states).
func hash128(s string) [16]byte { return md5.Sum([]byte(s)) }
