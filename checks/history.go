package checks

import (
	"fmt"

	"github.com/twpayne/go-geom"

	"verif/engine"
	"verif/ref"
)

// Query / mutate / query histories on LIVE objects.
//
// Measures, bounds and the other queries are stated for "every geometry", and a geometry can be
// changed in place through the public API after it was queried: ordinates written through
// FlatCoords() or Coord(i), TransformInPlace, Reverse on a part accessor (a view of the same
// storage), SetCoords, Push, a member of a collection edited or pushed into. A query must answer
// for the coordinates the geometry has NOW. The explorer below enumerates every history of
// bounded length over {Q (query), in-place operations} on a real object, with the same operations
// applied to the reference model, and compares after every history.

// liveOps is the alphabet (the names are stable: they appear in replay files).
var liveOps = []string{"Q", "write-first", "write-last-x", "coord-write", "transform", "part-reverse", "part-write", "setcoords", "push", "reverse"}

func forEachCoord(m *ref.G, f func(c ref.C)) {
	if m.C0 != nil {
		f(m.C0)
	}
	for _, c := range m.C1 {
		if c != nil {
			f(c)
		}
	}
	for _, p := range m.C2 {
		for _, c := range p {
			f(c)
		}
	}
	for _, pp := range m.C3 {
		for _, p := range pp {
			for _, c := range p {
				f(c)
			}
		}
	}
}

func revC(cs []ref.C) {
	for i, j := 0, len(cs)-1; i < j; i, j = i+1, j-1 {
		cs[i], cs[j] = cs[j], cs[i]
	}
}

func coordsOf2(cs [][]ref.C) [][]geom.Coord {
	out := make([][]geom.Coord, len(cs))
	for i, c := range cs {
		out[i] = coordsOf1(c)
	}
	return out
}

// applyLive applies op to the live flat (non-collection) geometry t and to its model m; it
// returns false when the operation does not apply to this state.
func applyLive(op string, t geom.T, m *ref.G, salt float64) bool {
	stride := m.Layout.Stride()
	nOrd := m.NumOrdinates()
	switch op {
	case "Q":
		return true
	case "write-first":
		if nOrd == 0 {
			return false
		}
		t.FlatCoords()[0] = -777.25 - salt
		k := 0
		m.Ordinates(func(p *ref.F) {
			if k == 0 {
				*p = ref.F(-777.25 - salt)
			}
			k++
		})
		return true
	case "write-last-x":
		if nOrd == 0 {
			return false
		}
		fc := t.FlatCoords()
		fc[len(fc)-stride] = 888.5 + salt
		k := 0
		m.Ordinates(func(p *ref.F) {
			if k == nOrd-stride {
				*p = ref.F(888.5 + salt)
			}
			k++
		})
		return true
	case "coord-write":
		type coorder interface{ Coord(int) geom.Coord }
		cw, ok := t.(coorder)
		if _, isMP := t.(*geom.MultiPoint); isMP {
			ok = false // MultiPoint.Coord(i) is member-indexed and nil for an empty member
		}
		if !ok || nOrd < 2*stride {
			return false
		}
		cw.Coord(1)[1] = 4321.5 + salt
		k := 0
		m.Ordinates(func(p *ref.F) {
			if k == stride+1 {
				*p = ref.F(4321.5 + salt)
			}
			k++
		})
		return true
	case "transform":
		if nOrd == 0 {
			return false
		}
		geom.TransformInPlace(t, func(c geom.Coord) { c[0], c[1] = 2*c[0]+1, -3*c[1] })
		forEachCoord(m, func(c ref.C) { c[0], c[1] = 2*c[0]+1, -3*c[1] })
		return true
	case "reverse":
		switch g := t.(type) {
		case *geom.LineString:
			g.Reverse()
			revC(m.C1)
		case *geom.LinearRing:
			g.Reverse()
			revC(m.C1)
		case *geom.Polygon:
			g.Reverse()
			for _, r := range m.C2 {
				revC(r)
			}
		case *geom.MultiLineString:
			g.Reverse()
			for _, r := range m.C2 {
				revC(r)
			}
		case *geom.MultiPolygon:
			g.Reverse()
			for _, p := range m.C3 {
				for _, r := range p {
					revC(r)
				}
			}
		default:
			return false
		}
		return true
	case "part-reverse":
		switch g := t.(type) {
		case *geom.Polygon:
			i := len(m.C2) - 1
			if i < 0 || len(m.C2[i]) < 2 {
				return false
			}
			g.LinearRing(i).Reverse()
			revC(m.C2[i])
		case *geom.MultiLineString:
			if len(m.C2) == 0 || len(m.C2[0]) < 2 {
				return false
			}
			g.LineString(0).Reverse()
			revC(m.C2[0])
		case *geom.MultiPolygon:
			i := len(m.C3) - 1
			if i < 0 || len(m.C3[i]) == 0 || len(m.C3[i][0]) < 2 {
				return false
			}
			g.Polygon(i).LinearRing(0).Reverse()
			revC(m.C3[i][0])
		default:
			return false
		}
		return true
	case "part-write":
		switch g := t.(type) {
		case *geom.Polygon:
			if len(m.C2) == 0 || len(m.C2[0]) == 0 {
				return false
			}
			g.LinearRing(0).FlatCoords()[1] = 55.5 + salt
			m.C2[0][0][1] = ref.F(55.5 + salt)
		case *geom.MultiPoint:
			i := len(m.C1) - 1
			if i < 0 || m.C1[i] == nil {
				return false
			}
			g.Point(i).FlatCoords()[0] = 66.5 + salt
			m.C1[i][0] = ref.F(66.5 + salt)
		case *geom.MultiLineString:
			i := len(m.C2) - 1
			if i < 0 || len(m.C2[i]) == 0 {
				return false
			}
			g.LineString(i).FlatCoords()[1] = 77.5 + salt
			m.C2[i][0][1] = ref.F(77.5 + salt)
		case *geom.MultiPolygon:
			if len(m.C3) == 0 || len(m.C3[0]) == 0 || len(m.C3[0][0]) == 0 {
				return false
			}
			g.Polygon(0).FlatCoords()[0] = 99.5 + salt
			m.C3[0][0][0][0] = ref.F(99.5 + salt)
		default:
			return false
		}
		return true
	case "setcoords":
		f := ref.CounterFrom(300 + salt)
		var err error
		switch g := t.(type) {
		case *geom.Point:
			n := ref.NewPoint(m.Layout, true, f)
			_, err = g.SetCoords(n.C0.Floats())
			m.C0 = n.C0
		case *geom.LineString:
			n := ref.NewLine(ref.LineString, m.Layout, 3, f)
			_, err = g.SetCoords(coordsOf1(n.C1))
			m.C1 = n.C1
		case *geom.LinearRing:
			n := ref.NewLine(ref.LinearRing, m.Layout, 3, f)
			_, err = g.SetCoords(coordsOf1(n.C1))
			m.C1 = n.C1
		case *geom.MultiPoint:
			n := ref.NewMultiPoint(m.Layout, []int{1, 0, 1}, f)
			_, err = g.SetCoords(coordsOf1(n.C1))
			m.C1 = n.C1
		case *geom.Polygon:
			n := ref.NewParts(ref.Polygon, m.Layout, []int{3, 0, 2}, f)
			_, err = g.SetCoords(coordsOf2(n.C2))
			m.C2 = n.C2
		case *geom.MultiLineString:
			n := ref.NewParts(ref.MultiLineString, m.Layout, []int{2, 0, 3}, f)
			_, err = g.SetCoords(coordsOf2(n.C2))
			m.C2 = n.C2
		case *geom.MultiPolygon:
			n := ref.NewMultiPolygon(m.Layout, [][]int{{3}, {}, {2, 0}}, f)
			cs := make([][][]geom.Coord, len(n.C3))
			for i := range n.C3 {
				cs[i] = coordsOf2(n.C3[i])
			}
			_, err = g.SetCoords(cs)
			m.C3 = n.C3
		default:
			return false
		}
		if err != nil {
			panic("history: SetCoords failed: " + err.Error())
		}
		return true
	case "push":
		f := ref.CounterFrom(500 + salt)
		var err error
		switch g := t.(type) {
		case *geom.MultiPoint:
			n := ref.NewPoint(m.Layout, true, f)
			err = g.Push(n.MustBuild().(*geom.Point))
			m.C1 = append(m.C1, n.C0)
		case *geom.Polygon:
			n := ref.NewLine(ref.LinearRing, m.Layout, 4, f)
			err = g.Push(n.MustBuild().(*geom.LinearRing))
			m.C2 = append(m.C2, n.C1)
		case *geom.MultiLineString:
			n := ref.NewLine(ref.LineString, m.Layout, 2, f)
			err = g.Push(n.MustBuild().(*geom.LineString))
			m.C2 = append(m.C2, n.C1)
		case *geom.MultiPolygon:
			n := ref.NewParts(ref.Polygon, m.Layout, []int{3, 2}, f)
			err = g.Push(n.MustBuild().(*geom.Polygon))
			m.C3 = append(m.C3, n.C2)
		default:
			return false
		}
		if err != nil {
			panic("history: Push failed: " + err.Error())
		}
		return true
	}
	panic("history: unknown operation " + op)
}

// liveStep is one step of a history: Member < 0 addresses the geometry itself, otherwise the
// member of a collection (MemberOfMember >= 0: a member of that nested collection). Op
// "gc-push" pushes a new point into the addressed collection.
type liveStep struct {
	Op     string `json:"op"`
	Member int    `json:"member"`
	Nested int    `json:"nested"`
}

func (s liveStep) String() string {
	switch {
	case s.Member < 0:
		return s.Op
	case s.Nested < 0:
		return fmt.Sprintf("member[%d].%s", s.Member, s.Op)
	}
	return fmt.Sprintf("member[%d].member[%d].%s", s.Member, s.Nested, s.Op)
}

// applyStep applies one step to (t, m); false = not applicable in this state.
func applyStep(s liveStep, t geom.T, m *ref.G, salt float64) bool {
	target, tm := t, m
	path := []int{s.Member, s.Nested}
	var chain []*ref.G
	for _, i := range path {
		if i < 0 {
			break
		}
		gc, ok := target.(*geom.GeometryCollection)
		if !ok || tm.Kind != ref.Collection || i >= len(tm.Kids) {
			return false
		}
		chain = append(chain, tm)
		target, tm = gc.Geom(i), tm.Kids[i]
	}
	if s.Op == "gc-push" {
		gc, ok := target.(*geom.GeometryCollection)
		if !ok {
			return false
		}
		l := geom.XYZ
		n := ref.NewPoint(l, true, ref.CounterFrom(700+salt))
		if err := gc.Push(n.MustBuild()); err != nil {
			return false // fixed layout too small for the member: not a state change
		}
		tm.Kids = append(tm.Kids, n)
	} else {
		if tm.Kind == ref.Collection {
			return s.Op == "Q"
		}
		if !applyLive(s.Op, target, tm, salt) {
			return false
		}
	}
	m.RecomputeLayout()
	_ = chain
	return true
}

// liveAlphabet lists the steps that can apply to model m (members 0 and last; nested members 0).
func liveAlphabet(m *ref.G) []liveStep {
	var out []liveStep
	if m.Kind != ref.Collection {
		for _, op := range liveOps {
			out = append(out, liveStep{op, -1, -1})
		}
		return out
	}
	out = append(out, liveStep{"Q", -1, -1}, liveStep{"gc-push", -1, -1})
	idx := []int{0}
	if len(m.Kids) > 1 {
		idx = append(idx, len(m.Kids)-1)
	}
	for _, i := range idx {
		if i >= len(m.Kids) {
			continue
		}
		if m.Kids[i].Kind == ref.Collection {
			out = append(out, liveStep{"gc-push", i, -1})
			for _, op := range []string{"write-first", "transform", "setcoords", "push"} {
				out = append(out, liveStep{op, i, 0})
			}
			continue
		}
		for _, op := range liveOps[1:] {
			out = append(out, liveStep{op, i, -1})
		}
	}
	return out
}

type liveCase struct {
	Mode  string     `json:"mode"`
	G     *ref.G     `json:"g"`
	Steps []liveStep `json:"steps"`
}

// runLiveHistory replays one history on a fresh object; query is called after every step (it
// is the "Q" of the history as well as the oracle at the end). It returns "" or a description.
func runLiveHistory(cs liveCase, query func(t geom.T, m *ref.G, final bool) string) (desc string, applicable bool) {
	m := cs.G.Clone()
	t := m.MustBuild()
	for i, s := range cs.Steps {
		if s.Op == "Q" && s.Member < 0 {
			query(t, m, false) // populate whatever the query populates; verdict taken at the end
			continue
		}
		if !applyStep(s, t, m, float64(i)) {
			return "", false
		}
	}
	return query(t, m, true), true
}

// exploreLive enumerates all histories of length <= depth over the alphabet of each start model
// and reports violations under keyPrefix. States are histories (no merging: a hidden cache is
// exactly what a state key built from observable fields would not see).
func exploreLive(c *engine.Ctx, kind string, keyPrefix string, starts []*ref.G, depth int, query func(t geom.T, m *ref.G, final bool) string) {
	c.Parallel(len(starts), func(si int) {
		g := starts[si]
		alpha := liveAlphabet(g)
		frontier := [][]liveStep{{}}
		for d := 1; d <= depth; d++ {
			var next [][]liveStep
			for _, h := range frontier {
				for _, s := range alpha {
					if s.Op == "Q" && len(h) > 0 && h[len(h)-1].Op == "Q" {
						continue // Q;Q adds nothing
					}
					hist := append(append([]liveStep{}, h...), s)
					cs := liveCase{Mode: "history", G: g, Steps: hist}
					var desc string
					var ok bool
					if p, stack := engine.Guard(func() { desc, ok = runLiveHistory(cs, query) }); p != nil {
						c.Violate(fmt.Sprintf("%s/%s/%s/panic", keyPrefix, g.Kind, g.Layout), fmt.Sprintf("panic %v after %v\n%s", p, hist, firstLines(stack, 10)), kind, cs)
						continue
					}
					if !ok {
						continue
					}
					c.Count("evaluations", 1)
					c.Count("history_transitions", 1)
					if desc != "" {
						c.Violate(fmt.Sprintf("%s/%s/%s/after-%s", keyPrefix, g.Kind, g.Layout, hist[len(hist)-1].Op), fmt.Sprintf("%s after the history %v on %s", desc, hist, g.String()), kind, cs)
						continue
					}
					c.Count("histories_ok", 1)
					next = append(next, hist)
				}
			}
			frontier = next
		}
	})
}

// liveStarts is the set of start geometries of the history exploration.
func liveStarts() []*ref.G {
	var out []*ref.G
	for _, l := range []geom.Layout{geom.XY, geom.XYZ, geom.XYM, geom.XYZM} {
		f := wobble()
		out = append(out,
			ref.NewPoint(l, true, f),
			ref.NewLine(ref.LineString, l, 4, f),
			ref.NewLine(ref.LinearRing, l, 5, f),
			ref.NewMultiPoint(l, []int{1, 0, 1}, f),
			ref.NewParts(ref.Polygon, l, []int{5, 4}, f),
			ref.NewParts(ref.MultiLineString, l, []int{3, 0, 2}, f),
			ref.NewMultiPolygon(l, [][]int{{5, 4}, {}, {4}}, f),
		)
	}
	pt := func(l geom.Layout, k float64) *ref.G { return ref.NewPoint(l, true, ref.CounterFrom(k)) }
	out = append(out,
		ref.NewCollection(geom.NoLayout, pt(geom.XY, 1), ref.NewLine(ref.LineString, geom.XY, 3, ref.CounterFrom(10))),
		ref.NewCollection(geom.NoLayout, ref.NewParts(ref.Polygon, geom.XYZ, []int{4}, ref.CounterFrom(20)), pt(geom.XYZ, 40)),
		ref.NewCollection(geom.NoLayout, ref.NewCollection(geom.NoLayout, pt(geom.XY, 3), ref.NewLine(ref.LineString, geom.XY, 2, ref.CounterFrom(60))), pt(geom.XY, 5)),
		ref.NewCollection(geom.NoLayout, pt(geom.XYM, 7), ref.NewCollection(geom.NoLayout, ref.NewMultiPoint(geom.XYM, []int{1, 1}, ref.CounterFrom(80)))),
	)
	return out
}

// replayLive re-executes one recorded history.
func replayLive(c *engine.Ctx, kind, keyPrefix string, cs liveCase, query func(t geom.T, m *ref.G, final bool) string) {
	c.Count("evaluations", 1)
	var desc string
	var ok bool
	if p, stack := engine.Guard(func() { desc, ok = runLiveHistory(cs, query) }); p != nil {
		c.Violate(fmt.Sprintf("%s/%s/%s/panic", keyPrefix, cs.G.Kind, cs.G.Layout), fmt.Sprintf("panic %v\n%s", p, firstLines(stack, 10)), kind, cs)
		return
	}
	if ok && desc != "" && len(cs.Steps) > 0 {
		c.Violate(fmt.Sprintf("%s/%s/%s/after-%s", keyPrefix, cs.G.Kind, cs.G.Layout, cs.Steps[len(cs.Steps)-1].Op), desc, kind, cs)
	}
}

// pushPartN pushes a part with n coordinates onto a multi-part geometry and its model (for a
// MultiPolygon: a polygon with rings of n and n+1 coordinates; for a MultiPoint: one point).
func pushPartN(t geom.T, m *ref.G, n int, salt float64) bool {
	f := ref.CounterFrom(900 + salt)
	var err error
	switch g := t.(type) {
	case *geom.MultiPoint:
		p := ref.NewPoint(m.Layout, true, f)
		err = g.Push(p.MustBuild().(*geom.Point))
		m.C1 = append(m.C1, p.C0)
	case *geom.Polygon:
		r := ref.NewLine(ref.LinearRing, m.Layout, n, f)
		err = g.Push(r.MustBuild().(*geom.LinearRing))
		m.C2 = append(m.C2, r.C1)
	case *geom.MultiLineString:
		l := ref.NewLine(ref.LineString, m.Layout, n, f)
		err = g.Push(l.MustBuild().(*geom.LineString))
		m.C2 = append(m.C2, l.C1)
	case *geom.MultiPolygon:
		pg := ref.NewParts(ref.Polygon, m.Layout, []int{n, n + 1}, f)
		err = g.Push(pg.MustBuild().(*geom.Polygon))
		m.C3 = append(m.C3, pg.C2)
	default:
		return false
	}
	if err != nil {
		panic("pushPartN: " + err.Error())
	}
	return true
}
