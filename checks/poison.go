package checks

import (
	"encoding/json"

	"github.com/twpayne/go-geom"
	"github.com/twpayne/go-geom/encoding/ewkb"
	"github.com/twpayne/go-geom/encoding/geojson"
	"github.com/twpayne/go-geom/encoding/wkb"
	"github.com/twpayne/go-geom/encoding/wkt"
)

// Failed calls as the first step of a two-call history. Each helper makes the encoder fail AFTER it
// has produced part of its output (a collection whose last member the format cannot carry) and
// throws the result away; the call under test follows on the same goroutine. What a failed call
// leaves behind - a half-filled scratch buffer handed back to a pool, a counter, a flag - must not
// reach the next caller. The helpers never report anything themselves.

func poisonMembers(last geom.T) *geom.GeometryCollection {
	gc := geom.NewGeometryCollection()
	gc.MustPush(geom.NewPointFlat(geom.XY, []float64{901.5, 902.25}),
		geom.NewLineStringFlat(geom.XY, []float64{903, 904, 905.125, 906}), last)
	return gc
}

// failWKT: a NoLayout member is rejected after "GEOMETRYCOLLECTION (POINT (...), LINESTRING (...), ".
func failWKT(digits int) {
	defer func() { _ = recover() }()
	if digits < 0 {
		// and a SUCCESSFUL call with an option before the plain call under test: an option belongs
		// to the call it is passed to
		_, _ = wkt.Marshal(geom.NewPointFlat(geom.XY, []float64{0.123456789, 9.87654321}), wkt.EncodeOptionWithMaxDecimalDigits(1))
	}
	bad := poisonMembers(geom.NewLineString(geom.NoLayout))
	if digits >= 0 {
		_, _ = wkt.Marshal(bad, wkt.EncodeOptionWithMaxDecimalDigits(digits))
		return
	}
	_, _ = wkt.Marshal(bad)
}

// failWKB: a member in a layout beyond XYZM nested one level down (the outer collection has a
// layout WKB can carry, the inner one fails after the outer header and two members were written).
func failWKB() {
	defer func() { _ = recover() }()
	inner := poisonMembers(geom.NewLineString(geom.NoLayout))
	outer := geom.NewGeometryCollection()
	outer.MustPush(geom.NewPointFlat(geom.XY, []float64{907, 908}), inner)
	_, _ = wkb.Marshal(outer, wkb.NDR)
	_, _ = ewkb.Marshal(outer, ewkb.XDR)
}

// failGeoJSON: GeoJSON has no LinearRing; the collection fails at its last member.
func failGeoJSON(opts ...geojson.EncodeGeometryOption) {
	defer func() { _ = recover() }()
	if len(opts) == 0 {
		_, _ = geojson.Marshal(geom.NewPointFlat(geom.XY, []float64{0.123456789, 9.87654321}), geojson.EncodeGeometryWithMaxDecimalDigits(1), geojson.EncodeGeometryWithBBox())
	}
	bad := poisonMembers(geom.NewLinearRingFlat(geom.XY, []float64{0, 0, 1, 0, 1, 1, 0, 0}))
	_, _ = geojson.Marshal(bad, opts...)
	_, _ = json.Marshal(&geojson.Feature{ID: "poison", Geometry: bad})
}
