package checks

import (
	"encoding/json"
	"fmt"
	"math"
	"math/big"

	"github.com/twpayne/go-geom"
	"github.com/twpayne/go-geom/xy/lineintersection"
	"github.com/twpayne/go-geom/xy/lineintersector"

	"verif/engine"
	"verif/ref"
)

// C12 — segment intersection is classified exactly and located accurately.

type c12Case struct {
	Pts   []ref.F `json:"pts"`           // a1x a1y a2x a2y b1x b1y b2x b2y
	Exact bool    `json:"representable"` // inputs on an exactly representable grid: also check the non-robust strategy
	Class bool    `json:"classification_only,omitempty"`
	// Shared: end points that are equal as values are handed over as the SAME geom.Coord (the very
	// same two floats in memory, as two consecutive segments of one line string are), not as equal
	// copies
	Shared bool `json:"shared_storage,omitempty"`
}

func init() {
	engine.Register(&engine.Check{
		ID: "C12", Level: "exploration",
		Rule:        "every ordered pair of non-degenerate directed segments on the 6x6 (quick) / 7x7 (thorough) integer grid (all argument orders and directions, all 16 envelope-membership combinations of the collinear branch), each also scaled by 2^20 and translated by (2^20,-2^19); plus a T-junction/touching lattice on rough integer coordinates up to 2^21 (an endpoint exactly on the other segment, all 8 role/direction variants; the endpoint must be returned bit-identical); plus +-1 ulp perturbations of touching / T-junction / collinear configurations with non-trivial mantissas (classification only). Oracle: exact rational classification none/point/overlap; endpoint intersections returned bit-identical; proper crossings within 8 ulps of (|x|+|y|+scale); overlap endpoints exact; NonRobustLineIntersector.HasIntersection = exact on grid inputs. distinct_nontrivial = distinct pairs whose segments intersect or whose envelopes overlap Also: every pair of consecutive segments of a path over the 5x5 grid with the common end point handed over as ONE coordinate in memory; lean T-junction probes (~3*10^6, classification only) over the near-collinear float families of C10; ~1000 exactly axis-parallel segments crossed properly by rough segments on grids [-2^k,2^k], k=17..20 (8 role/direction variants); long segments crossing at an angle of ~1e-6 on the 2^20 grid (8 symmetries x 8 role/direction variants, position within 8 ulps), and nearly coincident segments (each ordinate -2..2 ulps off) reaching the fallback paths (classification; reported point within rounding of both envelopes). Round 9: collinear segment pairs whose ends overlap or miss by 0..3 ulps (7-value menu, 3 orientations, all 8 order/direction variants), exact classification.",
		Run:         c12Run,
		Replay:      func(c *engine.Ctx, kind string, raw json.RawMessage) { c12Exec(c, decodeCase[c12Case](raw)) },
		Assumptions: []string{"segments of non-zero length; grid inputs make every intermediate of the homogeneous-coordinate computation exact, so only the final division and re-translation round"},
	})
}

func c12Exec(c *engine.Ctx, cs c12Case) {
	c.Count("evaluations", 1)
	v := cs.Pts
	pts := toP2(v)
	a1, a2, b1, b2 := pts[0], pts[1], pts[2], pts[3]
	want := ref.SegSeg(a1, a2, b1, b2)
	fail := func(what, desc string) {
		c.Violate("intersect/"+what, fmt.Sprintf("%s; A=(%v,%v)-(%v,%v) B=(%v,%v)-(%v,%v)", desc, a1.X, a1.Y, a2.X, a2.Y, b1.X, b1.Y, b2.X, b2.Y), "c12", cs)
	}
	shared := map[ref.P2]geom.Coord{}
	co := func(p ref.P2) geom.Coord {
		if cs.Shared {
			if c, ok := shared[p]; ok {
				return c
			}
			shared[p] = geom.Coord{p.X, p.Y}
			return shared[p]
		}
		return geom.Coord{p.X, p.Y}
	}
	var res, nr lineintersection.Result
	if pn, _ := engine.Guard(func() {
		res = lineintersector.LineIntersectsLine(lineintersector.RobustLineIntersector{}, co(a1), co(a2), co(b1), co(b2))
		if cs.Exact {
			nr = lineintersector.LineIntersectsLine(lineintersector.NonRobustLineIntersector{}, co(a1), co(a2), co(b1), co(b2))
		}
	}); pn != nil {
		fail("panic", fmt.Sprintf("panic %v", pn))
		return
	}
	kindName := []string{"none", "point", "overlap"}
	if int(res.Type()) != want.Kind {
		fail(fmt.Sprintf("class/exact-%s-got-%s", kindName[want.Kind], kindName[res.Type()]), fmt.Sprintf("robust type %v, exact %s", res.Type(), kindName[want.Kind]))
		return
	}
	if res.HasIntersection() != (want.Kind != 0) {
		fail("hasintersection", "HasIntersection disagrees with Type")
		return
	}
	inter := res.Intersection()
	switch want.Kind {
	case 0:
		if len(inter) != 0 {
			fail("points-for-none", fmt.Sprintf("%d points reported for no intersection", len(inter)))
			return
		}
	case 1:
		if len(inter) != 1 || len(inter[0]) < 2 {
			fail("point-count", fmt.Sprintf("%d points reported for a point intersection", len(inter)))
			return
		}
		got := inter[0]
		if want.Endpoint {
			if math.Float64bits(got[0]) != math.Float64bits(want.P.X) || math.Float64bits(got[1]) != math.Float64bits(want.P.Y) {
				fail("endpoint-not-exact", fmt.Sprintf("endpoint intersection reported as (%v,%v), the endpoint is (%v,%v)", got[0], got[1], want.P.X, want.P.Y))
				return
			}
			c.Count("endpoint_intersections", 1)
		} else if cs.Class {
			// float inputs: the position is not compared with the exact point, but a reported
			// point must be finite and lie (to within rounding) in the envelopes of both segments
			// (the true crossing is inside both envelopes, so a point within rounding distance of
			// it is inside the envelopes widened by that distance: 8 ulps of the coordinate scale)
			sc := 0.0
			for _, x := range v {
				sc = math.Max(sc, math.Abs(float64(x)))
			}
			slack := 8 * math.Ldexp(1, -52) * sc
			in := func(p, q ref.P2) bool {
				return got[0] >= math.Min(p.X, q.X)-slack && got[0] <= math.Max(p.X, q.X)+slack && got[1] >= math.Min(p.Y, q.Y)-slack && got[1] <= math.Max(p.Y, q.Y)+slack
			}
			if math.IsNaN(got[0]) || math.IsNaN(got[1]) || !in(a1, a2) || !in(b1, b2) {
				fail("crossing-outside-envelopes", fmt.Sprintf("proper crossing reported at (%v,%v), more than 8 ulps outside the envelope of one of the segments", got[0], got[1]))
				return
			}
			c.Count("lattice_proper_crossings", 1)
		} else {
			scale := 0.0
			for _, x := range v {
				scale = math.Max(scale, math.Abs(float64(x)))
			}
			ex, ey := ref.RatF64(want.PX), ref.RatF64(want.PY)
			tol := 8 * math.Ldexp(1, -52) * (math.Abs(ex) + math.Abs(ey) + scale)
			if !ref.AbsDiffLE(got[0], new(big.Float).SetPrec(ref.Prec).SetRat(want.PX), tol) || !ref.AbsDiffLE(got[1], new(big.Float).SetPrec(ref.Prec).SetRat(want.PY), tol) {
				fail("crossing-inaccurate", fmt.Sprintf("proper crossing reported at (%v,%v), exact (%v,%v), tolerance %g", got[0], got[1], ex, ey, tol))
				return
			}
			c.Count("proper_crossings", 1)
		}
	case 2:
		if len(inter) != 2 {
			fail("overlap-count", fmt.Sprintf("%d points reported for an overlap", len(inter)))
			return
		}
		g1, g2 := ref.P2{X: inter[0][0], Y: inter[0][1]}, ref.P2{X: inter[1][0], Y: inter[1][1]}
		if !((g1 == want.P && g2 == want.Q) || (g1 == want.Q && g2 == want.P)) {
			fail("overlap-endpoints", fmt.Sprintf("overlap reported as %v-%v, exact %v-%v", g1, g2, want.P, want.Q))
			return
		}
		c.Count("overlaps", 1)
	}
	if cs.Exact && nr.HasIntersection() != (want.Kind != 0) {
		fail("nonrobust-hasintersection", fmt.Sprintf("NonRobust HasIntersection=%v, exact kind %s", nr.HasIntersection(), kindName[want.Kind]))
		return
	}
	c.Count("class_"+kindName[want.Kind], 1)
	if want.Kind != 0 || envOverlap(a1, a2, b1, b2) {
		c.DistinctStr(fmt.Sprint(bitsOf(v)))
	}
	c.Sample(kindName[want.Kind], 2, cs)
}

func envOverlap(a1, a2, b1, b2 ref.P2) bool {
	return math.Min(a1.X, a2.X) <= math.Max(b1.X, b2.X) && math.Min(b1.X, b2.X) <= math.Max(a1.X, a2.X) &&
		math.Min(a1.Y, a2.Y) <= math.Max(b1.Y, b2.Y) && math.Min(b1.Y, b2.Y) <= math.Max(a1.Y, a2.Y)
}

// exactSegmentsIntersect: the textbook test with exact orientation signs.
func exactSegmentsIntersect(a, b, p, q [2]float64) bool {
	o1 := exactSign3Small(a[0], a[1], b[0], b[1], p[0], p[1])
	o2 := exactSign3Small(a[0], a[1], b[0], b[1], q[0], q[1])
	o3 := exactSign3Small(p[0], p[1], q[0], q[1], a[0], a[1])
	o4 := exactSign3Small(p[0], p[1], q[0], q[1], b[0], b[1])
	if o1*o2 < 0 && o3*o4 < 0 {
		return true
	}
	in := func(s, e, x [2]float64) bool {
		return x[0] >= math.Min(s[0], e[0]) && x[0] <= math.Max(s[0], e[0]) && x[1] >= math.Min(s[1], e[1]) && x[1] <= math.Max(s[1], e[1])
	}
	return (o1 == 0 && in(a, b, p)) || (o2 == 0 && in(a, b, q)) || (o3 == 0 && in(p, q, a)) || (o4 == 0 && in(p, q, b))
}

// c12LeanT: a T-junction probe for one near-collinear float triple: segment AB against the segment
// from P to a point well off the line (to the left of AB), in both argument orders; classification
// only (does the robust intersector see an intersection), against the exact answer. A disagreement
// goes through c12Exec.
func c12LeanT(c *engine.Ctx, a, b, p [2]float64) {
	q := [2]float64{p[0] - 0.37*(b[1]-a[1]) + 0.011, p[1] + 0.37*(b[0]-a[0]) - 0.007}
	if a == b || p == q {
		return
	}
	want := exactSegmentsIntersect(a, b, p, q)
	for order := 0; order < 2; order++ {
		s1, e1, s2, e2 := a, b, p, q
		if order == 1 {
			s1, e1, s2, e2 = q, p, b, a
		}
		var got bool
		if pn, _ := engine.Guard(func() {
			res := lineintersector.LineIntersectsLine(lineintersector.RobustLineIntersector{}, geom.Coord{s1[0], s1[1]}, geom.Coord{e1[0], e1[1]}, geom.Coord{s2[0], s2[1]}, geom.Coord{e2[0], e2[1]})
			got = res.HasIntersection()
		}); pn != nil || got != want {
			c12Exec(c, c12Case{Pts: []ref.F{ref.F(s1[0]), ref.F(s1[1]), ref.F(e1[0]), ref.F(e1[1]), ref.F(s2[0]), ref.F(s2[1]), ref.F(e2[0]), ref.F(e2[1])}, Class: true})
			continue
		}
		c.Count("evaluations", 1)
		c.Count("lean_t_junction_probes", 1)
	}
}

// c12CollinearEnds: two segments on one axis-parallel (or diagonal x = y) line whose ends differ in
// magnitude or sign; the second starts 0..3 ulps before / after the end of the first (a touch, an
// overlap of a few ulps, a gap of a few ulps) and runs on to a third value. Every ordered triple
// of values over a 7-value menu, three orientations, all eight order/direction variants; the
// classification (none / point / collinear overlap) is exact for floats.
func c12CollinearEnds(c *engine.Ctx) {
	vals := []float64{-3.5, -1, 0.1, 1.3, 4, 900.25, 1e6 + 0.5}
	c.Parallel(len(vals), func(i int) {
		s := vals[i]
		for _, e := range vals {
			for _, f := range vals {
				if e == s || f == e || (e > s) != (f > e) {
					continue // the three values in one direction along the line
				}
				for k := -3; k <= 3; k++ {
					t := ulps(e, k)
					for orient := 0; orient < 3; orient++ {
						mk := func(v float64) [2]float64 {
							switch orient {
							case 0:
								return [2]float64{v, 0.7}
							case 1:
								return [2]float64{0.7, v}
							}
							return [2]float64{v, v}
						}
						a1, a2, b1, b2 := mk(s), mk(e), mk(t), mk(f)
						for variant := 0; variant < 8; variant++ {
							p1, p2, q1, q2 := a1, a2, b1, b2
							if variant&1 != 0 {
								p1, p2 = p2, p1
							}
							if variant&2 != 0 {
								q1, q2 = q2, q1
							}
							if variant&4 != 0 {
								p1, p2, q1, q2 = q1, q2, p1, p2
							}
							c.Count("collinear_end_cases", 1)
							c12Exec(c, c12Case{Pts: []ref.F{ref.F(p1[0]), ref.F(p1[1]), ref.F(p2[0]), ref.F(p2[1]), ref.F(q1[0]), ref.F(q1[1]), ref.F(q2[0]), ref.F(q2[1])}, Class: true})
						}
					}
				}
			}
		}
	})
}

func c12Run(c *engine.Ctx) {
	c12CollinearEnds(c)
	// classification over moderate-magnitude floats within a few ulps of a T-junction: the
	// near-collinear families of C10 (float-line lattice, mixed-magnitude collinear triples,
	// segments through the coordinate origin)
	sweepMixedScale(c, func(a, b, p [2]float64) { c12LeanT(c, a, b, p) })
	if c.Thorough() {
		sweepFloatLines(c, 128, func(a, b, p [2]float64) { c12LeanT(c, a, b, p) })
		sweepMixed(c, 20, 200, func(a, b, p [2]float64) { c12LeanT(c, a, b, p) })
		sweepThroughOrigin(c, 2048, func(a, b, p [2]float64) { c12LeanT(c, a, b, p) })
	} else {
		sweepFloatLines(c, 32, func(a, b, p [2]float64) { c12LeanT(c, a, b, p) })
		sweepMixed(c, 20, 60, func(a, b, p [2]float64) { c12LeanT(c, a, b, p) })
		sweepThroughOrigin(c, 256, func(a, b, p [2]float64) { c12LeanT(c, a, b, p) })
	}
	n := 6
	if c.Thorough() {
		n = 7
	}
	var grid [][2]float64
	for x := 0; x < n; x++ {
		for y := 0; y < n; y++ {
			grid = append(grid, [2]float64{float64(x), float64(y)})
		}
	}
	type seg [4]float64
	var segs []seg
	for _, a := range grid {
		for _, b := range grid {
			if a != b {
				segs = append(segs, seg{a[0], a[1], b[0], b[1]})
			}
		}
	}
	c.Note("segments", len(segs))
	s20, tx, ty := math.Ldexp(1, 20), math.Ldexp(1, 20), -math.Ldexp(1, 19)
	c.Parallel(len(segs), func(i int) {
		a := segs[i]
		for _, b := range segs {
			base := []float64{a[0], a[1], a[2], a[3], b[0], b[1], b[2], b[3]}
			v := make([]ref.F, 8)
			for k, x := range base {
				v[k] = ref.F(x)
			}
			c12Exec(c, c12Case{Pts: v, Exact: true})
			w := make([]ref.F, 8)
			for k, x := range base {
				if k%2 == 0 {
					w[k] = ref.F(x*s20 + tx)
				} else {
					w[k] = ref.F(x*s20 + ty)
				}
			}
			c12Exec(c, c12Case{Pts: w, Exact: true})
		}
	})
	// T-junction / touching lattice on rough integer coordinates up to ~2^21: an endpoint E of one
	// segment lies exactly on the other (E = P + k*(dx,dy) on P..P+n*(dx,dy)); all 8 role/direction
	// variants; the crossing arithmetic is inexact there, so the endpoint must be copied, not computed
	type tj struct{ px, py, dx, dy, n, k, rx, ry float64 }
	var tjs []tj
	for _, p := range [][2]float64{{0, 0}, {12345, 67890}, {1<<20 - 1, 3}, {-99991, 524287}} {
		for _, dx := range []float64{1, 3, 17, 369, 1000, 73800, 262143} {
			for _, dy := range []float64{-777, -1, 0, 2, 5, 461, 27286, -131071} {
				for _, n := range []float64{2, 3, 7, 10, 97, 1000} {
					if n*math.Max(math.Abs(dx), math.Abs(dy)) > 1<<21 {
						continue
					}
					for _, k := range []float64{0, 1, math.Floor(n / 2), n - 1, n} {
						for _, r := range [][2]float64{{-dy - 1, dx + 2}, {1, 0}, {-250, 999}, {100000, -3}, {7, 7}, {831795, 654985}, {-524287, 1}} {
							tjs = append(tjs, tj{p[0], p[1], dx, dy, n, k, r[0], r[1]})
						}
					}
				}
			}
		}
	}
	c.Note("t_junction_configurations", len(tjs))
	c.Parallel(len(tjs), func(i int) {
		t := tjs[i]
		P := [2]float64{t.px, t.py}
		Q := [2]float64{t.px + t.n*t.dx, t.py + t.n*t.dy}
		E := [2]float64{t.px + t.k*t.dx, t.py + t.k*t.dy}
		R := [2]float64{E[0] + t.rx, E[1] + t.ry}
		if R == E || P == Q {
			return
		}
		for variant := 0; variant < 8; variant++ {
			a1, a2, b1, b2 := P, Q, E, R
			if variant&1 != 0 {
				a1, a2 = a2, a1
			}
			if variant&2 != 0 {
				b1, b2 = b2, b1
			}
			if variant&4 != 0 {
				a1, a2, b1, b2 = b1, b2, a1, a2
			}
			v := []ref.F{ref.F(a1[0]), ref.F(a1[1]), ref.F(a2[0]), ref.F(a2[1]), ref.F(b1[0]), ref.F(b1[1]), ref.F(b2[0]), ref.F(b2[1])}
			c.Count("t_junction_cases", 1)
			c12Exec(c, c12Case{Pts: v})
		}
	})
	// long segments crossing properly at a very small angle on the grid up to 2^20: the second
	// segment runs from a lattice neighbour of one end of the first to a lattice neighbour of the
	// other end, on opposite sides (badly conditioned: the crossing point must still be within
	// rounding distance); all 8 role/direction variants, 8 symmetries of the plane
	type lc struct{ a1, a2, b1, b2 [2]float64 }
	var lcs []lc
	shifts := [][2]float64{{0, 1}, {1, 0}, {1, 1}, {0, 3}, {2, 1}, {-1, 2}, {5, 0}, {0, 17}, {40, 33}}
	for _, o := range [][2]float64{{0, 0}, {769, 123}, {3, 1<<19 + 5}} {
		for _, d := range [][2]float64{{1 << 20, -(1<<20 - 1)}, {1<<20 - 1, 7}, {599287, -738262}, {835839, -920033}, {349525, 1 << 20}, {1 << 20, 1 << 20}, {1000003, 2}, {633566, -632858}} {
			for _, s1 := range shifts {
				for _, s2 := range shifts {
					a1 := o
					a2 := [2]float64{o[0] + d[0], o[1] + d[1]}
					lcs = append(lcs, lc{a1, a2, [2]float64{a1[0] + s1[0], a1[1] + s1[1]}, [2]float64{a2[0] - s2[0], a2[1] - s2[1]}})
				}
			}
		}
	}
	c.Note("long_small_angle_configurations", len(lcs))
	c.Parallel(len(lcs), func(i int) {
		for sym := 0; sym < 8; sym++ {
			tr := func(p [2]float64) [2]float64 {
				x, y := p[0], p[1]
				if sym&1 != 0 {
					x = (1 << 20) - x
				}
				if sym&2 != 0 {
					y = (1 << 20) - y
				}
				if sym&4 != 0 {
					x, y = y, x
				}
				return [2]float64{x, y}
			}
			A1, A2, B1, B2 := tr(lcs[i].a1), tr(lcs[i].a2), tr(lcs[i].b1), tr(lcs[i].b2)
			for variant := 0; variant < 8; variant++ {
				a1, a2, b1, b2 := A1, A2, B1, B2
				if variant&1 != 0 {
					a1, a2 = a2, a1
				}
				if variant&2 != 0 {
					b1, b2 = b2, b1
				}
				if variant&4 != 0 {
					a1, a2, b1, b2 = b1, b2, a1, a2
				}
				c.Count("long_small_angle_cases", 1)
				c12Exec(c, c12Case{Pts: []ref.F{ref.F(a1[0]), ref.F(a1[1]), ref.F(a2[0]), ref.F(a2[1]), ref.F(b1[0]), ref.F(b1[1]), ref.F(b2[0]), ref.F(b2[1])}})
			}
		}
	})
	// consecutive segments of one path: every triple (a,b,c) of the 5x5 grid as the segments a-b
	// and b-c, a-b and a-c, a-b and c-b, a-b and c-a, the common end point being ONE coordinate in
	// memory (fold-backs c on a-b are collinear overlaps, whoever owns the floats)
	var g5 [][2]float64
	for x := 0; x < 5; x++ {
		for y := 0; y < 5; y++ {
			g5 = append(g5, [2]float64{float64(x), float64(y)})
		}
	}
	c.Parallel(len(g5), func(i int) {
		a := g5[i]
		for _, b := range g5 {
			if a == b {
				continue
			}
			for _, d := range g5 {
				f := func(p, q, r, s [2]float64) {
					if r == s {
						return
					}
					c.Count("shared_endpoint_cases", 1)
					c12Exec(c, c12Case{Pts: []ref.F{ref.F(p[0]), ref.F(p[1]), ref.F(q[0]), ref.F(q[1]), ref.F(r[0]), ref.F(r[1]), ref.F(s[0]), ref.F(s[1])}, Exact: true, Shared: true})
				}
				f(a, b, b, d)
				f(a, b, a, d)
				f(a, b, d, b)
				f(a, b, d, a)
			}
		}
	})
	// an exactly horizontal or vertical segment crossed properly by a rough one on grids up to
	// 2^20 (both signs): all 8 role/direction variants
	apc := axisParallelCrossings()
	c.Note("axis_parallel_crossings", len(apc))
	c.Parallel(len(apc), func(i int) {
		t := apc[i]
		for variant := 0; variant < 8; variant++ {
			a1, a2, b1, b2 := [2]float64{t[0], t[1]}, [2]float64{t[2], t[3]}, [2]float64{t[4], t[5]}, [2]float64{t[6], t[7]}
			if variant&1 != 0 {
				a1, a2 = a2, a1
			}
			if variant&2 != 0 {
				b1, b2 = b2, b1
			}
			if variant&4 != 0 {
				a1, a2, b1, b2 = b1, b2, a1, a2
			}
			c.Count("axis_parallel_cases", 1)
			c12Exec(c, c12Case{Pts: []ref.F{ref.F(a1[0]), ref.F(a1[1]), ref.F(a2[0]), ref.F(a2[1]), ref.F(b1[0]), ref.F(b1[1]), ref.F(b2[0]), ref.F(b2[1])}})
		}
	})
	// mixed-magnitude exactly collinear triples (S,P,E): P on segment SE, second segment from P
	mcs := mixedCollinear()
	c.Parallel(len(mcs), func(i int) {
		t := mcs[i]
		S, P, E := [2]float64{t[0], t[1]}, [2]float64{t[2], t[3]}, [2]float64{t[4], t[5]}
		R := [2]float64{P[0] + 1000, P[1] - 777}
		for variant := 0; variant < 8; variant++ {
			a1, a2, b1, b2 := S, E, P, R
			if variant&1 != 0 {
				a1, a2 = a2, a1
			}
			if variant&2 != 0 {
				b1, b2 = b2, b1
			}
			if variant&4 != 0 {
				a1, a2, b1, b2 = b1, b2, a1, a2
			}
			c.Count("mixed_magnitude_cases", 1)
			c12Exec(c, c12Case{Pts: []ref.F{ref.F(a1[0]), ref.F(a1[1]), ref.F(a2[0]), ref.F(a2[1]), ref.F(b1[0]), ref.F(b1[1]), ref.F(b2[0]), ref.F(b2[1])}, Class: true})
		}
		// collinear overlap S..P and P..E share only P; S..E and P..E overlap on P..E
		for _, q := range [][4][2]float64{{S, P, P, E}, {S, E, P, E}, {S, P, E, P}} {
			c12Exec(c, c12Case{Pts: []ref.F{ref.F(q[0][0]), ref.F(q[0][1]), ref.F(q[1][0]), ref.F(q[1][1]), ref.F(q[2][0]), ref.F(q[2][1]), ref.F(q[3][0]), ref.F(q[3][1])}, Class: true})
		}
	})
	// ulp lattice: collinear base (p0,p1,p2); configurations built from it, each ordinate of the
	// three base points perturbed by -1/0/+1 ulp
	bases := collinearBases()
	c.Parallel(len(bases), func(i int) {
		b := bases[i]
		var rec func(k int, v []float64)
		rec = func(k int, v []float64) {
			if k == 6 {
				p0, p1, p2 := [2]float64{v[0], v[1]}, [2]float64{v[2], v[3]}, [2]float64{v[4], v[5]}
				off := [2]float64{p1[0] + (p2[1] - p0[1]), p1[1] - (p2[0] - p0[0])} // roughly perpendicular from p1
				configs := [][4][2]float64{
					{p0, p2, p1, off}, // T-junction: p1 (nearly) on p0p2
					{p0, p1, p1, p2},  // touching at p1, (nearly) collinear
					{p0, p2, p1, p2},  // (nearly) collinear overlap
					{p0, p1, p2, off}, // disjoint near-collinear
				}
				for _, cf := range configs {
					if cf[0] == cf[1] || cf[2] == cf[3] {
						continue
					}
					w := make([]ref.F, 0, 8)
					ok := true
					for _, p := range cf {
						if math.IsInf(p[0], 0) || math.IsInf(p[1], 0) {
							ok = false
						}
						w = append(w, ref.F(p[0]), ref.F(p[1]))
					}
					if ok {
						c12Classify(c, c12Case{Pts: w, Class: true})
					}
				}
				return
			}
			for _, d := range []int{-1, 0, 1} {
				v[k] = ulps(b[k], d)
				rec(k+1, v)
			}
		}
		rec(0, make([]float64, 6))
	})
	// nearly coincident segments: the second segment's four ordinates each -2..2 ulps away from the
	// first segment's (625 per base): proper crossings at an angle of a few ulps, where the
	// homogeneous-coordinate computation breaks down and the fallback paths run (classification,
	// and the reported point must stay inside both segments' envelopes)
	ncBases := [][4]float64{{4, 4, 103, 228}, {0.1, 0.7, 12.3, 3.9}, {-77.25, 5e-3, 1e3, 2e3}, {1e10, 1, 3e10, 7}, {5, 5, 6, 5.000000000000001}}
	c.Parallel(len(ncBases)*5, func(i int) {
		b := ncBases[i/5]
		d0 := i%5 - 2
		for d1 := -2; d1 <= 2; d1++ {
			for d2 := -2; d2 <= 2; d2++ {
				for d3 := -2; d3 <= 2; d3++ {
					w := []ref.F{ref.F(b[0]), ref.F(b[1]), ref.F(b[2]), ref.F(b[3]), ref.F(ulps(b[0], d0)), ref.F(ulps(b[1], d1)), ref.F(ulps(b[2], d2)), ref.F(ulps(b[3], d3))}
					c.Count("nearly_coincident_cases", 1)
					c12Classify(c, c12Case{Pts: w, Class: true})
					// and with the roles and directions exchanged
					c12Classify(c, c12Case{Pts: []ref.F{w[6], w[7], w[4], w[5], w[0], w[1], w[2], w[3]}, Class: true})
				}
			}
		}
	})
	for _, k := range []string{"class_none", "class_point", "class_overlap", "endpoint_intersections", "proper_crossings", "overlaps", "lattice_classified"} {
		if c.Get(k) == 0 {
			c.Warn("vacuous: class " + k + " is empty")
		}
	}
}

// c12Classify checks classification only (near-degenerate float inputs): type, endpoint exactness, overlap endpoints.
func c12Classify(c *engine.Ctx, cs c12Case) {
	c.Count("lattice_classified", 1)
	c12Exec(c, cs)
}
