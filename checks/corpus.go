package checks

import (
	"github.com/twpayne/go-geom"

	"verif/ref"
)

// collectionMembers is the member menu for collections in the codec corpus: one per type,
// mixed layouts, empty members, an empty collection.
func collectionMembers() []*ref.G {
	return []*ref.G{
		ref.NewPoint(geom.XY, true, ref.CounterFrom(10)),
		ref.NewPoint(geom.XYZ, false, ref.Counter()),
		ref.NewLine(ref.LineString, geom.XYZ, 2, ref.CounterFrom(20)),
		ref.NewParts(ref.Polygon, geom.XYM, []int{2, 0}, ref.CounterFrom(30)),
		ref.NewMultiPoint(geom.XYZM, []int{0, 1}, ref.CounterFrom(40)),
		ref.NewParts(ref.MultiLineString, geom.XY, []int{0, 2}, ref.CounterFrom(50)),
		ref.NewMultiPolygon(geom.XY, [][]int{{}, {1}}, ref.CounterFrom(60)),
		ref.NewCollection(geom.NoLayout),
	}
}

// codecCorpus is the shared geometry corpus of the codec checks: the universe U in the four
// codec layouts plus collections (mixed layouts, empty members, nesting).
func codecCorpus(thorough bool) []*ref.G {
	var out []*ref.G
	maxPolys := 2
	if thorough {
		maxPolys = 3
	}
	for _, l := range ref.Layouts4 {
		ref.ForEachBase(l, maxPolys, func(g *ref.G) {
			if g.Kind != ref.LinearRing {
				out = append(out, g)
			}
		})
	}
	out = append(out, collectionCorpus(thorough)...)
	out = append(out, deepCollections(geom.XY, 8)...)
	out = append(out, deepCollections(geom.XYZM, 6)...)
	return out
}

func collectionCorpus(thorough bool) []*ref.G {
	var out []*ref.G
	members := collectionMembers()
	idx := make([]int, len(members))
	for i := range idx {
		idx[i] = i
	}
	maxLen := 2
	if thorough {
		maxLen = 3
	}
	var level1 []*ref.G
	for _, seq := range ref.Seqs(idx, maxLen) {
		var kids []*ref.G
		for _, i := range seq {
			kids = append(kids, members[i].Clone())
		}
		level1 = append(level1, ref.NewCollection(geom.NoLayout, kids...))
	}
	out = append(out, level1...)
	for _, l := range ref.Layouts4 {
		out = append(out, ref.NewCollection(l)) // empty collection with a fixed layout
	}
	// nesting depth 2: a collection holding each level-1 collection of <= 1 member next to a point,
	// and (thorough) depth 3
	for _, inner := range level1 {
		if len(inner.Kids) > 1 && !thorough {
			continue
		}
		out = append(out, ref.NewCollection(geom.NoLayout, inner.Clone(), members[2].Clone()))
		out = append(out, ref.NewCollection(geom.NoLayout, inner.Clone()))
		if thorough && len(inner.Kids) <= 1 {
			out = append(out, ref.NewCollection(geom.NoLayout, ref.NewCollection(geom.NoLayout, inner.Clone()), members[0].Clone()))
		}
	}
	return out
}

// bigCorpus holds geometries whose coordinate arrays straddle plausible internal chunk sizes
// (512 / 1024 floats, 4 KiB / 8 KiB / 64 KiB buffers): decoders and encoders that switch to a
// chunked path only above a threshold behave differently there.
func bigCorpus(huge bool) []*ref.G {
	var out []*ref.G
	for _, n := range []int{257, 513, 700, 1025} {
		out = append(out, ref.NewLine(ref.LineString, geom.XY, n, ref.Counter()))
	}
	out = append(out,
		ref.NewLine(ref.LineString, geom.XYZM, 129, ref.Counter()),
		ref.NewLine(ref.LineString, geom.XYZM, 300, ref.Counter()),
		ref.NewLine(ref.LineString, geom.XYZ, 342, ref.Counter()),
		ref.NewParts(ref.Polygon, geom.XYZ, []int{400}, ref.Counter()),
		ref.NewParts(ref.Polygon, geom.XY, []int{300, 5, 0, 530}, ref.Counter()),
		ref.NewParts(ref.MultiLineString, geom.XYM, []int{600, 0, 2}, ref.Counter()),
		ref.NewMultiPolygon(geom.XY, [][]int{{520}, {3}, {}, {2, 515}}, ref.Counter()),
	)
	pat := make([]int, 300)
	for i := range pat {
		pat[i] = 1
		if i%37 == 5 {
			pat[i] = 0
		}
	}
	out = append(out, ref.NewMultiPoint(geom.XY, pat, ref.Counter()))
	if huge {
		out = append(out, ref.NewLine(ref.LineString, geom.XY, 33000, ref.Counter()), ref.NewParts(ref.Polygon, geom.XYZM, []int{16385}, ref.Counter()))
	}
	return out
}

// deepCollections returns collections nested 3..maxDepth deep: a chain with a leaf at the bottom
// that lies outside everything above it, and a sibling point at every level.
func deepCollections(l geom.Layout, maxDepth int) []*ref.G {
	var out []*ref.G
	for d := 3; d <= maxDepth; d++ {
		leaf := ref.NewPoint(l, true, ref.CounterFrom(float64(1000*d)))
		cur := ref.NewCollection(geom.NoLayout, leaf)
		for k := 1; k < d; k++ {
			sib := ref.NewPoint(l, true, ref.CounterFrom(float64(10*k)))
			if k%2 == 0 {
				cur = ref.NewCollection(geom.NoLayout, sib, cur)
			} else {
				cur = ref.NewCollection(geom.NoLayout, cur, sib)
			}
		}
		out = append(out, cur)
		// a bare chain without siblings
		bare := ref.NewCollection(geom.NoLayout, ref.NewLine(ref.LineString, l, 2, ref.CounterFrom(float64(-50*d))))
		for k := 1; k < d; k++ {
			bare = ref.NewCollection(geom.NoLayout, bare)
		}
		out = append(out, bare)
	}
	return out
}
