package checks

import (
	"github.com/twpayne/go-geom"

	"verif/ref"
)

// collectionMembers is the member menu for collections in the codec corpus: one per type,
// mixed layouts, empty members, an empty collection.
func collectionMembers() []*ref.G {
	return []*ref.G{
		ref.NewPoint(geom.XY, true, ref.CounterFrom(10)),
		ref.NewPoint(geom.XYZ, false, ref.Counter()),
		ref.NewLine(ref.LineString, geom.XYZ, 2, ref.CounterFrom(20)),
		ref.NewParts(ref.Polygon, geom.XYM, []int{2, 0}, ref.CounterFrom(30)),
		ref.NewMultiPoint(geom.XYZM, []int{0, 1}, ref.CounterFrom(40)),
		ref.NewParts(ref.MultiLineString, geom.XY, []int{0, 2}, ref.CounterFrom(50)),
		ref.NewMultiPolygon(geom.XY, [][]int{{}, {1}}, ref.CounterFrom(60)),
		ref.NewCollection(geom.NoLayout),
	}
}

// codecCorpus is the shared geometry corpus of the codec checks: the universe U in the four
// codec layouts plus collections (mixed layouts, empty members, nesting).
func codecCorpus(thorough bool) []*ref.G {
	var out []*ref.G
	maxPolys := 2
	if thorough {
		maxPolys = 3
	}
	for _, l := range ref.Layouts4 {
		ref.ForEachBase(l, maxPolys, func(g *ref.G) {
			if g.Kind != ref.LinearRing {
				out = append(out, g)
			}
		})
	}
	out = append(out, collectionCorpus(thorough)...)
	return out
}

func collectionCorpus(thorough bool) []*ref.G {
	var out []*ref.G
	members := collectionMembers()
	idx := make([]int, len(members))
	for i := range idx {
		idx[i] = i
	}
	maxLen := 2
	if thorough {
		maxLen = 3
	}
	var level1 []*ref.G
	for _, seq := range ref.Seqs(idx, maxLen) {
		var kids []*ref.G
		for _, i := range seq {
			kids = append(kids, members[i].Clone())
		}
		level1 = append(level1, ref.NewCollection(geom.NoLayout, kids...))
	}
	out = append(out, level1...)
	for _, l := range ref.Layouts4 {
		out = append(out, ref.NewCollection(l)) // empty collection with a fixed layout
	}
	// nesting depth 2: a collection holding each level-1 collection of <= 1 member next to a point,
	// and (thorough) depth 3
	for _, inner := range level1 {
		if len(inner.Kids) > 1 && !thorough {
			continue
		}
		out = append(out, ref.NewCollection(geom.NoLayout, inner.Clone(), members[2].Clone()))
		out = append(out, ref.NewCollection(geom.NoLayout, inner.Clone()))
		if thorough && len(inner.Kids) <= 1 {
			out = append(out, ref.NewCollection(geom.NoLayout, ref.NewCollection(geom.NoLayout, inner.Clone()), members[0].Clone()))
		}
	}
	return out
}
