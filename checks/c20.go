package checks

import (
	"encoding/json"
	"fmt"
	"math"
	"math/big"

	"github.com/twpayne/go-geom/xy"

	"verif/engine"
	"verif/ref"
)

// C20 — Douglas-Peucker simplification honours its threshold.

type c20Case struct {
	Pts       []ref.F `json:"pts"` // x y pairs
	Threshold ref.F   `json:"threshold"`
	Stride    int     `json:"stride"`
}

func init() {
	engine.Register(&engine.Check{
		ID: "C20", Level: "exploration",
		Rule:        "every sequence of 0..5 (quick) / 0..6 (thorough) points on the 3x3 grid and 0..4 / 0..5 on the 4x4 grid; every sequence of length <=9 / <=11 over a 3-point alphabet (deep stacks, repeated points, zero-length chords, closed loops); straight and zig-zag runs of 50/100/200 points with every single point displaced; damped zig-zags and inward spirals of every length 20..70, 100 and 200 in both directions (deep interval stacks on either side); every sequence of 3..4 grid points again at three offsets up to 2^38 (one of them stretched by 30; chords stay shorter than 128, so the smallest non-zero distance is 2^8 times the rounding of a projected point at that offset); straight runs with displacements of 2^-21..2^-40 against thresholds around them; x thresholds {0, 1/4, 1/2, 1/sqrt2, 1, sqrt2, 2, 10} x stride 2..5 with NaN extras. Oracle: indexes strictly increasing incl. first and last (all indexes for <3 points); for each omitted point the exact rational squared distance to the segment between its nearest retained neighbours is <= t^2(1+2^-40) (exactly 0 for t = 0); simplifying the selected points again returns all of them. distinct_nontrivial = distinct (sequence, threshold) with >= 3 points Also: every point count 0..260 (zig-zag with one displaced point, lattice walk, collinear run) and, for every case, the returned slice overwritten and appended to by the caller followed by the same call again. Round 8: raster lines (two and three runs of unit steps in all direction pairs / triples with single or doubled joints; a long run with an out-and-back excursion of 1..6 steps in every direction) x 8 thresholds; sequences of 1000, 4097, 10001 (thorough 40000) points. Round 9: every stride > 2 case again with finite extra ordinates and with one NaN / one +Inf extra: the same indexes. Round 12: every 3..4-point sequence of the 3x3 grid scaled by 2^-200, 2^-100, 2^100 and 2^200, thresholds scaled alike. Round 13: 4- and 5-point sequences on coordinates in different binades (x in {0.3,2.3,12.1}, y in {0.7,4.3,18.9}) with thresholds at the distance of each interior point from the end-to-end chord and its float neighbours.",
		Run:         c20Run,
		Replay:      func(c *engine.Ctx, kind string, raw json.RawMessage) { c20Exec(c, decodeCase[c20Case](raw)) },
		Assumptions: []string{"integer-grid inputs (exact distances); thresholds >= 0"},
	})
}

func c20Flat(pts []ref.F, stride int) []float64 {
	n := len(pts) / 2
	out := make([]float64, 0, n*stride)
	for i := 0; i < n; i++ {
		out = append(out, float64(pts[2*i]), float64(pts[2*i+1]))
		for k := 2; k < stride; k++ {
			out = append(out, math.NaN())
		}
	}
	return out
}

func c20Exec(c *engine.Ctx, cs c20Case) {
	c.Count("evaluations", 1)
	n := len(cs.Pts) / 2
	flat := c20Flat(cs.Pts, cs.Stride)
	t := float64(cs.Threshold)
	fail := func(what, desc string) {
		c.Violate("simplify/"+what, fmt.Sprintf("%s; %d points %v threshold %v stride %d", desc, n, clip(cs.Pts, 40), t, cs.Stride), "c20", cs)
	}
	var idx []int
	if pn, stack := engine.Guard(func() { idx = xy.SimplifyFlatCoords(flat, t, cs.Stride) }); pn != nil {
		fail("panic", fmt.Sprintf("panic %v\n%s", pn, firstLines(stack, 10)))
		return
	}
	// the returned slice belongs to the caller: overwrite it (and its spare capacity) and simplify
	// the same input again - the answer must be the same (a result that aliases shared storage,
	// or storage reused by the next call, shows here)
	saved := append([]int{}, idx...)
	if full := idx[:cap(idx)]; len(full) > 0 {
		for i := range full {
			full[i] = -7 - i
		}
		var again []int
		if pn, _ := engine.Guard(func() { again = xy.SimplifyFlatCoords(flat, t, cs.Stride) }); pn != nil {
			fail("panic-after-result-overwritten", fmt.Sprintf("panic %v", pn))
			return
		}
		if fmt.Sprint(again) != fmt.Sprint(saved) {
			fail("result-shared", fmt.Sprintf("after the caller overwrote the returned slice, the same call returns %v instead of %v", again, saved))
			return
		}
		if len(again) > 0 {
			again = append(again[:1], 12345) // appending within spare capacity must be harmless too
		}
		if pn, _ := engine.Guard(func() { again = xy.SimplifyFlatCoords(flat, t, cs.Stride) }); pn != nil || fmt.Sprint(again) != fmt.Sprint(saved) {
			fail("result-shared", fmt.Sprintf("after the caller appended to the returned slice, the same call returns %v instead of %v", again, saved))
			return
		}
	}
	idx = saved
	// extra ordinates are ignored whatever they hold: the same points with finite extras, and with
	// finite extras except for a NaN at one interior point and an infinity at another, select the
	// same indexes as with NaN extras everywhere
	if cs.Stride > 2 && n >= 3 {
		for variant := 0; variant < 2; variant++ {
			alt := append([]float64{}, flat...)
			for i := 0; i < n; i++ {
				for k := 2; k < cs.Stride; k++ {
					alt[i*cs.Stride+k] = float64(100*k + i)
				}
			}
			if variant == 1 {
				alt[(n/2)*cs.Stride+2] = math.NaN()
				alt[(n/3)*cs.Stride+cs.Stride-1] = math.Inf(1)
			}
			var other []int
			if pn, _ := engine.Guard(func() { other = xy.SimplifyFlatCoords(alt, t, cs.Stride) }); pn != nil || fmt.Sprint(other) != fmt.Sprint(saved) {
				fail("extra-ordinates-matter", fmt.Sprintf("indexes %v with NaN in every extra ordinate, %v (panic %v) with finite extras%s", saved, other, pn, map[int]string{0: "", 1: fmt.Sprintf(" except NaN at point %d and +Inf at point %d", n/2, n/3)}[variant]))
				return
			}
		}
	}
	if n < 3 {
		if len(idx) != n {
			fail("short-input", fmt.Sprintf("indexes %v for %d points", idx, n))
			return
		}
		for i, v := range idx {
			if v != i {
				fail("short-input", fmt.Sprintf("indexes %v for %d points", idx, n))
				return
			}
		}
		return
	}
	if len(idx) < 2 || idx[0] != 0 || idx[len(idx)-1] != n-1 {
		fail("endpoints", fmt.Sprintf("indexes %v do not include first and last", idx))
		return
	}
	for i := 1; i < len(idx); i++ {
		if idx[i] <= idx[i-1] || idx[i] >= n {
			fail("not-increasing", fmt.Sprintf("indexes %v", idx))
			return
		}
	}
	pts := toP2(cs.Pts)
	as3 := func(p ref.P2) ref.P3 { return ref.P3{X: p.X, Y: p.Y} }
	t2 := new(big.Rat).Mul(ref.R(t), ref.R(t))
	bound := new(big.Rat).Mul(t2, new(big.Rat).Add(big.NewRat(1, 1), new(big.Rat).SetFrac64(1, 1<<40)))
	for k := 1; k < len(idx); k++ {
		a, b := pts[idx[k-1]], pts[idx[k]]
		for i := idx[k-1] + 1; i < idx[k]; i++ {
			d2 := ref.PointSeg2(as3(pts[i]), as3(a), as3(b))
			if d2.Cmp(bound) > 0 {
				fail("too-far", fmt.Sprintf("omitted point %d %v is at squared distance %s from the segment between retained points %d and %d, threshold^2 = %s; indexes %v", i, pts[i], d2.RatString(), idx[k-1], idx[k], t2.RatString(), idx))
				return
			}
		}
	}
	// idempotence
	sel := make([]ref.F, 0, 2*len(idx))
	for _, i := range idx {
		sel = append(sel, cs.Pts[2*i], cs.Pts[2*i+1])
	}
	var idx2 []int
	if pn, _ := engine.Guard(func() { idx2 = xy.SimplifyFlatCoords(c20Flat(sel, cs.Stride), t, cs.Stride) }); pn != nil {
		fail("panic-second", fmt.Sprintf("panic %v", pn))
		return
	}
	if len(idx2) != len(idx) {
		fail("not-idempotent", fmt.Sprintf("first pass keeps %v, second pass keeps %v of those", idx, idx2))
		return
	}
	if len(idx) < n {
		c.Count("dropped_some", 1)
	} else {
		c.Count("kept_all", 1)
	}
	c.DistinctStr(fmt.Sprint(bitsOf(cs.Pts), t))
	c.Sample(fmt.Sprint("t=", t), 1, map[string]any{"pts": clip(cs.Pts, 30), "threshold": t, "stride": cs.Stride, "kept": idx})
}

func c20Run(c *engine.Ctx) {
	thresholds := []float64{0, 0.25, 0.5, 1 / math.Sqrt2, 1, math.Sqrt2, 2, 10}
	n3, n4, nA := 5, 4, 9
	if c.Thorough() {
		n3, n4, nA = 6, 5, 11
	}
	type job struct {
		grid [][2]float64
		seq  []int
	}
	mkGrid := func(n int) [][2]float64 {
		var g [][2]float64
		for x := 0; x < n; x++ {
			for y := 0; y < n; y++ {
				g = append(g, [2]float64{float64(x), float64(y)})
			}
		}
		return g
	}
	run := func(grid [][2]float64, maxLen int) {
		idx := make([]int, len(grid))
		for i := range idx {
			idx[i] = i
		}
		// shard on the first two points, enumerate the rest recursively (no big slice of sequences)
		var roots [][]int
		for _, a := range idx {
			for _, b := range idx {
				roots = append(roots, []int{a, b})
			}
		}
		for l := 0; l <= 1; l++ {
			for _, s := range ref.Seqs(idx, l) {
				if len(s) == l {
					c20All(c, grid, s, thresholds)
				}
			}
		}
		c.Parallel(len(roots), func(i int) {
			var rec func(cur []int)
			rec = func(cur []int) {
				c20All(c, grid, cur, thresholds)
				if len(cur) == maxLen {
					return
				}
				for _, k := range idx {
					rec(append(cur, k))
				}
			}
			rec(roots[i])
		})
	}
	run(mkGrid(3), n3)
	run(mkGrid(4), n4)
	run([][2]float64{{0, 0}, {2, 1}, {0, 3}}, nA)
	// long runs with every single point displaced
	for _, n := range []int{50, 100, 200} {
		for _, zig := range []bool{false, true} {
			base := make([]ref.F, 0, 2*n)
			for i := 0; i < n; i++ {
				y := 0.0
				if zig && i%2 == 1 {
					y = 1
				}
				base = append(base, ref.F(i), ref.F(y))
			}
			jobs := n
			c.Parallel(jobs, func(i int) {
				for _, dy := range []float64{3, -0.5} {
					p := append([]ref.F{}, base...)
					p[2*i+1] += ref.F(dy)
					for ti, t := range thresholds {
						c20Exec(c, c20Case{Pts: p, Threshold: ref.F(t), Stride: 2 + (i+ti)%4})
					}
				}
			})
		}
	}
	// every point count 0..260 (the quantifier names 0..200; a bit-set, block or table sized by
	// the count shows at its word and block boundaries): a zig-zag with one displaced point, a
	// pseudo-random lattice walk and an exactly collinear run
	c.Parallel(261, func(n int) {
		zig := make([]ref.F, 0, 2*n)
		walk := make([]ref.F, 0, 2*n)
		line := make([]ref.F, 0, 2*n)
		for i := 0; i < n; i++ {
			y := float64(i % 2)
			if i == n/2 {
				y = 3
			}
			zig = append(zig, ref.F(i), ref.F(y))
			walk = append(walk, ref.F((i*7919)%101), ref.F((i*104729+i*i)%97))
			line = append(line, ref.F(3*i), ref.F(-2*i))
		}
		for ti, t := range []float64{0, 0.5, 1, 2.5, 40} {
			c.Count("every_count_cases", 3)
			c20Exec(c, c20Case{Pts: zig, Threshold: ref.F(t), Stride: 2 + (n+ti)%4})
			c20Exec(c, c20Case{Pts: walk, Threshold: ref.F(t), Stride: 2 + (n+ti+1)%4})
			c20Exec(c, c20Case{Pts: line, Threshold: ref.F(t), Stride: 2 + (n+ti+2)%4})
		}
	})
	// raster-like lines: runs of unit steps in the 8 compass directions. (a) two runs, every pair
	// of directions x lengths {1,15,20,70,100}^2, the joint vertex single or doubled; (b) three
	// runs of 20 / 70 steps in every direction triple, each joint single or doubled; (c) a long
	// run, an excursion of 1..6 steps in every direction out and back, the run continued (lengths
	// 10/64/70/100 on either side, so that the input has up to 200 points) - long straight runs,
	// repeated vertices at corners and short diagonal detours inside long intervals
	dirs8 := [][2]float64{{1, 0}, {1, 1}, {0, 1}, {-1, 1}, {-1, 0}, {-1, -1}, {0, -1}, {1, -1}}
	type rasterRun struct {
		d, n int
		dup  bool // the vertex the run starts from is listed twice
	}
	build := func(runs []rasterRun) []ref.F {
		x, y := 0.0, 0.0
		out := []ref.F{0, 0}
		for _, r := range runs {
			if r.dup {
				out = append(out, ref.F(x), ref.F(y))
			}
			for k := 0; k < r.n; k++ {
				x, y = x+dirs8[r.d][0], y+dirs8[r.d][1]
				out = append(out, ref.F(x), ref.F(y))
			}
		}
		return out
	}
	var rasters [][]rasterRun
	for d1 := 0; d1 < 8; d1++ {
		for d2 := 0; d2 < 8; d2++ {
			for _, n1 := range []int{1, 15, 20, 70, 100} {
				for _, n2 := range []int{1, 15, 20, 70, 100} {
					for _, dup := range []bool{false, true} {
						rasters = append(rasters, []rasterRun{{d1, n1, false}, {d2, n2, dup}})
					}
				}
			}
			for d3 := 0; d3 < 8; d3++ {
				for _, n := range []int{20, 70} {
					for dups := 0; dups < 4; dups++ {
						rasters = append(rasters, []rasterRun{{d1, n, false}, {d2, n, dups&1 != 0}, {d3, n, dups&2 != 0}})
					}
				}
			}
			for _, a := range []int{10, 64, 70, 100} {
				for _, b := range []int{10, 64, 70, 100} {
					for e := 1; e <= 6; e++ {
						if a+b+2*e > 199 {
							continue
						}
						rasters = append(rasters, []rasterRun{{d1, a, false}, {d2, e, false}, {(d2 + 4) % 8, e, false}, {d1, b, false}})
					}
				}
			}
		}
	}
	c.Note("raster_lines", len(rasters))
	rasterT := []float64{0, 0.5, 1, 1.5, 2, 3, 4, 5}
	c.Parallel(len(rasters), func(i int) {
		pts := build(rasters[i])
		for ti, t := range rasterT {
			c.Count("raster_line_cases", 1)
			c20Exec(c, c20Case{Pts: pts, Threshold: ref.F(t), Stride: 2 + (i+ti)%4})
		}
	})
	// far beyond the quantifier's 200 points (the statement says "any coordinate sequence"): the
	// same three shapes with 1000, 4097, 10001 (thorough 40000) points - a divided or blocked
	// implementation shows at its seams
	longNs := []int{1000, 4097, 10001}
	if c.Thorough() {
		longNs = append(longNs, 40000)
	}
	c.Parallel(len(longNs), func(k int) {
		n := longNs[k]
		zig := make([]ref.F, 0, 2*n)
		walk := make([]ref.F, 0, 2*n)
		line := make([]ref.F, 0, 2*n)
		for i := 0; i < n; i++ {
			y := float64(i % 2)
			if i%1000 == 499 {
				y = 3
			}
			zig = append(zig, ref.F(i), ref.F(y))
			walk = append(walk, ref.F((i*7919)%101), ref.F((i*104729+i*i)%97))
			line = append(line, ref.F(3*i), ref.F(-2*i))
		}
		for ti, t := range []float64{0, 0.5, 1, 2.5} {
			c.Count("long_sequence_cases", 3)
			c20Exec(c, c20Case{Pts: zig, Threshold: ref.F(t), Stride: 2 + (n+ti)%4})
			c20Exec(c, c20Case{Pts: walk, Threshold: ref.F(t), Stride: 2 + (n+ti+1)%4})
			c20Exec(c, c20Case{Pts: line, Threshold: ref.F(t), Stride: 2 + (n+ti+2)%4})
		}
	})
	// deep interval stacks: damped zig-zags and inward spirals keep one interval pending per point
	deepN := []int{100, 200}
	for n := 20; n <= 70; n++ {
		deepN = append(deepN, n)
	}
	for _, n := range deepN {
		for _, damp := range []float64{0.96875, 0.875, 0.75} {
			zig := make([]ref.F, 0, 2*n)
			spiral := make([]ref.F, 0, 2*n)
			amp := math.Ldexp(1, 40)
			for i := 0; i < n; i++ {
				y := amp
				if i%2 == 1 {
					y = -amp
				}
				zig = append(zig, ref.F(i), ref.F(y))
				ang := float64(i) * 2.4
				spiral = append(spiral, ref.F(math.Round(amp*math.Cos(ang))), ref.F(math.Round(amp*math.Sin(ang))))
				amp = math.Round(amp * damp)
			}
			// and the same point sets traversed the other way (amplitude growing towards the end:
			// the pending intervals pile up on the other side of each split)
			rev := func(p []ref.F) []ref.F {
				out := make([]ref.F, 0, len(p))
				for i := len(p) - 2; i >= 0; i -= 2 {
					out = append(out, p[i], p[i+1])
				}
				return out
			}
			zigR, spiralR := rev(zig), rev(spiral)
			for ti, t := range []float64{0, 0.5, 1, 1000} {
				c.Count("deep_stack_cases", 4)
				c20Exec(c, c20Case{Pts: zig, Threshold: ref.F(t), Stride: 2 + ti%4})
				c20Exec(c, c20Case{Pts: spiral, Threshold: ref.F(t), Stride: 2 + (ti+1)%4})
				c20Exec(c, c20Case{Pts: zigR, Threshold: ref.F(t), Stride: 2 + (ti+2)%4})
				c20Exec(c, c20Case{Pts: spiralR, Threshold: ref.F(t), Stride: 2 + (ti+3)%4})
			}
		}
	}
	// thresholds against tiny deviations: a straight run with one point displaced by delta; the
	// point may only be dropped when it is exactly within the threshold
	for _, delta := range []float64{math.Ldexp(1, -21), math.Ldexp(1, -26), math.Ldexp(1, -30), math.Ldexp(1, -40), 1e-7, 1e-13} {
		for k := 1; k < 6; k++ {
			pts := make([]ref.F, 0, 14)
			for i := 0; i < 7; i++ {
				y := 0.0
				if i == k {
					y = delta
				}
				if i == (k+2)%7 && i != 0 && i != 6 {
					y = -delta / 2
				}
				pts = append(pts, ref.F(float64(i)*0.5+0.25), ref.F(y))
			}
			for _, t := range []float64{0, delta / 4, delta / 2, delta * 0.999999, delta, delta * 1.000001, delta * 2} {
				c.Count("tiny_deviation_cases", 1)
				c20Exec(c, c20Case{Pts: pts, Threshold: ref.F(t), Stride: 2 + k%4})
			}
		}
	}
	// ties on coordinates that are no dyadic fractions: every sequence of 4 and 5 points of the 3x3
	// grid mapped to x in {0.3, 2.3, 12.1}, y in {0.7, 4.3, 18.9}, simplified with the threshold AT the
	// distance of each interior point from the chord between the end points (the exact distance
	// rounded to a float64, and its two neighbours): whatever a rounding decides there, the second
	// pass over the result decides it the same way, and nothing farther than the threshold is lost
	var g3 [][2]float64
	for gx := 0; gx < 3; gx++ {
		for gy := 0; gy < 3; gy++ {
			// (values in different binades: differences and running sums of steps are rounded)
			g3 = append(g3, [2]float64{[]float64{0.3, 2.3, 12.1}[gx], []float64{0.7, 4.3, 18.9}[gy]})
		}
	}
	tieJobs := 9 * 9
	c.Parallel(tieJobs, func(j int) {
		for n := 4; n <= 5; n++ {
			idx := make([]int, n)
			idx[0], idx[1] = j/9, j%9
			var rec func(k int)
			rec = func(k int) {
				if k == n {
					pts := make([]ref.F, 0, 2*n)
					for _, q := range idx {
						pts = append(pts, ref.F(g3[q][0]), ref.F(g3[q][1]))
					}
					p2 := toP2(pts)
					as3 := func(p ref.P2) ref.P3 { return ref.P3{X: p.X, Y: p.Y} }
					for i := 1; i < n-1; i++ {
						d2, _ := ref.PointSeg2(as3(p2[i]), as3(p2[0]), as3(p2[n-1])).Float64()
						t := math.Sqrt(d2)
						if t == 0 {
							continue
						}
						for _, tt := range []float64{t, math.Nextafter(t, 0), math.Nextafter(t, math.Inf(1))} {
							c.Count("decimal_tie_cases", 1)
							c20Exec(c, c20Case{Pts: pts, Threshold: ref.F(tt), Stride: 2 + (i+n)%4})
						}
					}
					return
				}
				for q := 0; q < 9; q++ {
					idx[k] = q
					rec(k + 1)
				}
			}
			rec(2)
		}
	})
	if c.Get("dropped_some") == 0 || c.Get("kept_all") == 0 {
		c.Warn("vacuous: one outcome class is empty")
	}
}

func c20All(c *engine.Ctx, grid [][2]float64, seq []int, thresholds []float64) {
	pts := make([]ref.F, 0, 2*len(seq))
	h := 0
	for _, k := range seq {
		pts = append(pts, ref.F(grid[k][0]), ref.F(grid[k][1]))
		h = h*31 + k
	}
	if h < 0 {
		h = -h
	}
	for ti, t := range thresholds {
		c20Exec(c, c20Case{Pts: pts, Threshold: ref.F(t), Stride: 2 + (h+ti)%4})
	}
	// short sequences again at small and at large magnitudes (scaled by a power of two, so the
	// sequence stays a lattice). The scales stay where even a product of FOUR coordinate
	// differences is an ordinary float64: the property is stated for integer-grid inputs, and the
	// unchanged code itself loses its squared distances to underflow near 2^-540 - a change that
	// is exact on every grid and only fails where a fourth-degree intermediate underflows
	// (cross^2/len^2 below 2^-269) is outside what the property states (DESIGN.md 7.30)
	if len(seq) >= 3 && len(seq) <= 4 && len(grid) == 9 {
		for si, e := range []int{-100, -200, 100, 200} {
			sc := math.Ldexp(1, e)
			q := make([]ref.F, len(pts))
			for i := range pts {
				q[i] = pts[i] * ref.F(sc)
			}
			for ti, t := range thresholds {
				if (ti+si+h)%2 == 0 {
					continue // every second threshold per scale
				}
				c.Count("scaled_magnitude_cases", 1)
				c20Exec(c, c20Case{Pts: q, Threshold: ref.F(t * sc), Stride: 2 + (h+ti)%4})
			}
		}
	}
	// short sequences again far from the origin (integer ordinates, so every difference is still
	// exact; absolute ordinates whose products no longer fit a float64)
	if len(seq) >= 3 && len(seq) <= 4 {
		for oi, off := range [][2]float64{{1<<30 + 83, 1<<30 + 37}, {-(1 << 36) + 1, 1<<33 + 5}, {1 << 38, 3}} {
			q := make([]ref.F, len(pts))
			for i := range pts {
				q[i] = pts[i]*ref.F(1+29*(oi%2)) + ref.F(off[i%2])
			}
			for ti, t := range thresholds {
				c.Count("far_from_origin_cases", 1)
				c20Exec(c, c20Case{Pts: q, Threshold: ref.F(t * float64(1+29*(oi%2))), Stride: 2 + (h+ti)%4})
			}
		}
	}
}
