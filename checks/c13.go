package checks

import (
	"encoding/json"
	"fmt"
	"math"
	"sort"

	"github.com/twpayne/go-geom"
	"github.com/twpayne/go-geom/xy"

	"verif/engine"
	"verif/ref"
)

// C13 — the convex hull is the exact convex hull of the input points.

type c13Case struct {
	Pts    []ref.F     `json:"pts"` // x y pairs
	Layout geom.Layout `json:"layout"`
	Via    string      `json:"via"` // flat | multipoint
	// Ext: the same extra ordinates for every input point (Z = Ext[0], M = Ext[1]; a three-ordinate
	// layout takes Ext[0]) instead of a unique tag per point - values that echo a coordinate of one
	// of the extreme points, so that an ordinate read one slot off looks like a coincidence.
	Ext []ref.F `json:"ext,omitempty"`
}

func init() {
	engine.Register(&engine.Check{
		ID: "C13", Level: "exploration",
		Rule:        "every sequence (order matters to the scan) of 1..6 (quick) / 1..7 (thorough) points on the 3x3 grid and (thorough) every set of <=6 points on the 4x4 grid; layouts XY/XYZ/XYM/XYZM with a unique tag in the extra ordinates of every input point; the >50-point path: each small input padded to 51, 52 and 60 points with copies of one of its own points, with all of its own points in rotation, and with a 4x4 filler grid; every sequence of 4..5 (thorough 6) points on the 6x2 and 2x6 grids (long collinear runs on the lowest row / leftmost column in every input order); plus 51..200-point inputs on lattices from 5x5 (maximally degenerate) to 2^20; plus 51..200 points in convex position (parabola arc, lattice convex chain) listed ascending, descending, outside-in and interleaved under 8 symmetries; plus a 64-point block with every pair of outliers from a half-integer ring around it; ConvexHull (MultiPoint) and ConvexHullFlat. Oracle = strict monotone-chain hull in rational arithmetic: result kind (Point / 2-point LineString / Polygon) from the number of distinct, non-collinear inputs; vertex set = exact extreme points; each vertex bit-equal to an input coordinate incl. tags; ring closed, one orientation for all inputs, no collinear vertex; input slice incl. spare capacity unchanged. distinct_nontrivial = distinct inputs with >=2 distinct points Also: 4-5 point sets whose directions from the lowest point differ by a cross product of 1 or 2 at magnitudes up to 2^20, every permutation x 8 symmetries x 2 translations. Round 7: 60 points in convex position with extra ordinates that echo the coordinates of one directional extreme, for every ordered pair of the eight extremes. Round 9: rays through the lowest point in every primitive direction with 3 or 4 points and one off-ray point, every input order. Round 10: 51 and 60 collinear points in every primitive direction with |dx|,|dy| <= 3, four input orders.",
		Run:         c13Run,
		Replay:      func(c *engine.Ctx, kind string, raw json.RawMessage) { c13Exec(c, decodeCase[c13Case](raw)) },
		Assumptions: []string{"integer / half-integer grid inputs (all predicates exact)"},
	})
}

var c13Orientation = 0 // sign of the exact area of the hull of a reference triangle; set once at start

func hullOf(cs c13Case, flat []float64) geom.T {
	if cs.Via == "multipoint" {
		return xy.ConvexHull(geom.NewMultiPointFlat(cs.Layout, flat))
	}
	return xy.ConvexHullFlat(cs.Layout, flat)
}

func c13Flat(cs c13Case) []float64 {
	st := cs.Layout.Stride()
	n := len(cs.Pts) / 2
	flat := make([]float64, 0, n*st+st+1) // spare capacity on purpose
	for i := 0; i < n; i++ {
		flat = append(flat, float64(cs.Pts[2*i]), float64(cs.Pts[2*i+1]))
		for k := 2; k < st; k++ {
			if cs.Ext != nil {
				flat = append(flat, float64(cs.Ext[(k-2)%len(cs.Ext)]))
				continue
			}
			flat = append(flat, float64(1000*(i+1)+k)) // unique tag per input point and ordinate
		}
	}
	return flat
}

func c13Exec(c *engine.Ctx, cs c13Case) {
	c.Count("evaluations", 1)
	st := cs.Layout.Stride()
	flat := c13Flat(cs)
	full := flat[:cap(flat)]
	for i := len(flat); i < cap(flat); i++ {
		full[i] = -4242
	}
	before := append([]float64{}, full...)
	pts := toP2(cs.Pts)
	want := ref.Hull(pts)
	n := len(pts)
	keyBase := fmt.Sprintf("hull/%s/n%s", cs.Via, sizeClass(n))
	fail := func(what, desc string) {
		c.Violate(keyBase+"/"+what, fmt.Sprintf("%s; %d input points %v layout %v; exact hull %v", desc, n, clip(cs.Pts, 40), cs.Layout, want), "c13", cs)
	}
	var h geom.T
	if pn, stack := engine.Guard(func() { h = hullOf(cs, flat) }); pn != nil {
		fail("panic", fmt.Sprintf("panic %v\n%s", pn, firstLines(stack, 12)))
		return
	}
	if !eqBits(before, full) {
		fail("input-modified", "the input coordinates were modified")
		return
	}
	inputCoord := func(co []float64) bool {
		for i := 0; i < n; i++ {
			if eqBits(co, flat[i*st:(i+1)*st]) {
				return true
			}
		}
		return false
	}
	if h == nil {
		fail("nil", "nil hull for a non-empty input")
		return
	}
	if h.Layout() != cs.Layout {
		fail("layout", fmt.Sprintf("hull layout %v", h.Layout()))
		return
	}
	hf := h.FlatCoords()
	if len(hf)%st != 0 {
		fail("ill-formed", "hull flat coordinates not a whole number of coordinates")
		return
	}
	var verts []ref.P2
	for i := 0; i+st <= len(hf); i += st {
		if !inputCoord(hf[i : i+st]) {
			fail("vertex-not-input", fmt.Sprintf("hull vertex %v is not an input coordinate (extra ordinates must be carried over)", hf[i:i+st]))
			return
		}
		verts = append(verts, ref.P2{X: hf[i], Y: hf[i+1]})
	}
	switch len(want) {
	case 1:
		if _, ok := h.(*geom.Point); !ok || len(verts) != 1 || verts[0] != want[0] {
			fail("kind/want-point", fmt.Sprintf("all points coincide but the hull is %T %v", h, verts))
			return
		}
		c.Count("kind_point", 1)
	case 2:
		ls, ok := h.(*geom.LineString)
		if !ok || len(verts) != 2 {
			fail("kind/want-line", fmt.Sprintf("all points are collinear but the hull is %T %v", h, verts))
			return
		}
		_ = ls
		if !((verts[0] == want[0] && verts[1] == want[1]) || (verts[0] == want[1] && verts[1] == want[0])) {
			fail("line-endpoints", fmt.Sprintf("hull line %v, exact extreme points %v", verts, want))
			return
		}
		c.Count("kind_line", 1)
	default:
		pg, ok := h.(*geom.Polygon)
		if !ok {
			fail("kind/want-polygon", fmt.Sprintf("hull of non-collinear points is %T %v", h, verts))
			return
		}
		if pg.NumLinearRings() != 1 || len(verts) < 4 || verts[0] != verts[len(verts)-1] {
			fail("ring-not-closed", fmt.Sprintf("hull ring %v (rings %d)", verts, pg.NumLinearRings()))
			return
		}
		ring := verts[:len(verts)-1]
		// vertex set = exact extreme points, each once
		if len(ring) != len(want) {
			fail("vertex-set", fmt.Sprintf("hull ring %v has %d vertices, exact hull has %d", ring, len(ring), len(want)))
			return
		}
		ws := map[ref.P2]bool{}
		for _, p := range want {
			ws[p] = true
		}
		seen := map[ref.P2]bool{}
		for _, p := range ring {
			if !ws[p] || seen[p] {
				fail("vertex-set", fmt.Sprintf("hull ring %v, exact extreme points %v", ring, want))
				return
			}
			seen[p] = true
		}
		// strictly convex in one direction
		dir := 0
		for i := range ring {
			o := ref.Orient(ring[i], ring[(i+1)%len(ring)], ring[(i+2)%len(ring)])
			if o == 0 {
				fail("collinear-vertex", fmt.Sprintf("hull ring %v has a vertex collinear with its neighbours", ring))
				return
			}
			if dir == 0 {
				dir = o
			} else if o != dir {
				fail("not-convex", fmt.Sprintf("hull ring %v turns both ways", ring))
				return
			}
		}
		if dir != c13Orientation {
			fail("orientation", fmt.Sprintf("hull ring %v is oriented %d, other hulls %d", ring, dir, c13Orientation))
			return
		}
		c.Count("kind_polygon", 1)
	}
	if len(want) >= 2 {
		c.DistinctStr(fmt.Sprint(cs.Pts, cs.Layout, cs.Via))
	}
	if n > 50 {
		c.Count("over_50_points", 1)
	}
	c.Sample(fmt.Sprintf("%s/%s", cs.Via, sizeClass(n)), 1, map[string]any{"n": n, "layout": cs.Layout.String(), "pts": clip(cs.Pts, 24), "hull": verts})
}

func sizeClass(n int) string {
	switch {
	case n <= 2:
		return fmt.Sprint(n)
	case n <= 50:
		return "3-50"
	}
	return "51+"
}

func clip(v []ref.F, n int) []ref.F {
	if len(v) > n {
		return v[:n]
	}
	return v
}

func c13Run(c *engine.Ctx) {
	// orientation reference
	h := xy.ConvexHullFlat(geom.XY, []float64{0, 0, 4, 0, 0, 4})
	if pg, ok := h.(*geom.Polygon); ok && len(pg.FlatCoords()) >= 6 {
		f := pg.FlatCoords()
		c13Orientation = ref.Orient(ref.P2{X: f[0], Y: f[1]}, ref.P2{X: f[2], Y: f[3]}, ref.P2{X: f[4], Y: f[5]})
	}
	c.Note("hull_orientation_sign", c13Orientation)
	maxLen := 6
	if c.Thorough() {
		maxLen = 7
	}
	var g3 [][2]float64
	for x := 0; x < 3; x++ {
		for y := 0; y < 3; y++ {
			g3 = append(g3, [2]float64{float64(x), float64(y)})
		}
	}
	var filler []ref.F
	for x := 0; x < 4; x++ {
		for y := 0; y < 4; y++ {
			filler = append(filler, ref.F(float64(x)*0.5+0.25), ref.F(float64(y)*0.5+0.25))
		}
	}
	idx := make([]int, 9)
	for i := range idx {
		idx[i] = i
	}
	seqs := ref.Seqs(idx, maxLen)[1:]
	layouts := ref.Layouts4
	c.Note("small_inputs", len(seqs))
	c.Parallel(len(seqs), func(i int) {
		s := seqs[i]
		var pts []ref.F
		for _, k := range s {
			pts = append(pts, ref.F(g3[k][0]), ref.F(g3[k][1]))
		}
		l := layouts[i%4]
		c13Exec(c, c13Case{Pts: pts, Layout: l, Via: "flat"})
		c13Exec(c, c13Case{Pts: pts, Layout: layouts[(i+1)%4], Via: "multipoint"})
		if len(s) > 3 && i%5 != 0 && !(c.Thorough() && len(s) <= 5) {
			return
		}
		// the > 50 points path
		for _, total := range []int{51, 52, 60} {
			padOwnFirst := append([]ref.F{}, pts...)
			padRotate := append([]ref.F{}, pts...)
			padFiller := append([]ref.F{}, pts...)
			for k := 0; len(padOwnFirst) < 2*total; k++ {
				padOwnFirst = append(padOwnFirst, pts[0], pts[1])
				j := (k % len(s)) * 2
				padRotate = append(padRotate, pts[j], pts[j+1])
				f := (k % 16) * 2
				padFiller = append(padFiller, filler[f], filler[f+1])
			}
			c13Exec(c, c13Case{Pts: padOwnFirst, Layout: l, Via: "flat"})
			c13Exec(c, c13Case{Pts: padRotate, Layout: l, Via: "flat"})
			c13Exec(c, c13Case{Pts: padFiller, Layout: layouts[(i+2)%4], Via: "multipoint"})
		}
	})
	// long rows and columns: every sequence of 5 (thorough 6) points on the 6x2 and the 2x6 grid -
	// up to six collinear points on the lowest row / leftmost column (where the focal point of the
	// radial sort lies) in every input order, with one or more points off the row
	var wide, tall [][2]float64
	for a := 0; a < 6; a++ {
		for b := 0; b < 2; b++ {
			wide = append(wide, [2]float64{float64(a), float64(b)})
			tall = append(tall, [2]float64{float64(b), float64(a)})
		}
	}
	idx12 := make([]int, 12)
	for i := range idx12 {
		idx12[i] = i
	}
	rowLen := 5
	if c.Thorough() {
		rowLen = 6
	}
	var rowSeqs [][]int
	for _, sq := range ref.Seqs(idx12, rowLen) {
		if len(sq) >= 4 {
			rowSeqs = append(rowSeqs, sq)
		}
	}
	c.Note("row_inputs", 2*len(rowSeqs))
	c.Parallel(len(rowSeqs), func(i int) {
		for gi, g := range [][][2]float64{wide, tall} {
			var pts []ref.F
			for _, k := range rowSeqs[i] {
				pts = append(pts, ref.F(g[k][0]), ref.F(g[k][1]))
			}
			c13Exec(c, c13Case{Pts: pts, Layout: layouts[(i+gi)%4], Via: "flat"})
			c.Count("row_cases", 1)
		}
	})
	// 64-point block + outlier pairs from a half-integer ring around it
	var block []ref.F
	for rep := 0; rep < 4; rep++ {
		for x := 0; x < 4; x++ {
			for y := 0; y < 4; y++ {
				block = append(block, ref.F(x), ref.F(y))
			}
		}
	}
	var ringPts [][2]float64
	for x := -1.0; x <= 4.0; x += 0.5 {
		for y := -1.0; y <= 4.0; y += 0.5 {
			if x < 0 || x > 3 || y < 0 || y > 3 {
				ringPts = append(ringPts, [2]float64{x, y})
			}
		}
	}
	sort.Slice(ringPts, func(i, j int) bool {
		return ringPts[i][0] < ringPts[j][0] || (ringPts[i][0] == ringPts[j][0] && ringPts[i][1] < ringPts[j][1])
	})
	c.Note("outlier_candidates", len(ringPts))
	c.Parallel(len(ringPts), func(i int) {
		a := ringPts[i]
		one := append(append([]ref.F{}, block...), ref.F(a[0]), ref.F(a[1]))
		c13Exec(c, c13Case{Pts: one, Layout: geom.XY, Via: "flat"})
		// outlier first in the input (the octagon seeds from the first point)
		first := append([]ref.F{ref.F(a[0]), ref.F(a[1])}, block...)
		c13Exec(c, c13Case{Pts: first, Layout: geom.XYZ, Via: "flat"})
		step := 1
		if !c.Thorough() {
			step = 3
		}
		for j := i + 1; j < len(ringPts); j += step {
			b := ringPts[j]
			two := append(append([]ref.F{}, one...), ref.F(b[0]), ref.F(b[1]))
			c13Exec(c, c13Case{Pts: two, Layout: geom.XY, Via: "flat"})
		}
	})
	// larger inputs (up to 200 points) on lattices from maximally degenerate (5x5) to 2^20
	type latJob struct{ n, m, a, b int }
	var lj []latJob
	for _, n := range []int{51, 60, 100, 200} {
		for _, m := range []int{5, 37, 1009, 1<<20 - 3} {
			for k, ab := range [][2]int{{1, 1}, {7919, 104729}, {3, 5}, {12345, 1}, {2, 1}, {999983, 314159}, {17, 4}, {1, 0}} {
				if !c.Thorough() && k%2 == 1 && n != 200 {
					continue
				}
				lj = append(lj, latJob{n, m, ab[0], ab[1]})
			}
		}
	}
	c.Note("lattice_inputs", len(lj))
	c.Parallel(len(lj), func(i int) {
		j := lj[i]
		var pts []ref.F
		for k := 0; k < j.n; k++ {
			x := (k*j.a + k*k*(i%3)) % j.m
			y := (k*j.b + 7*(k/3)) % j.m
			pts = append(pts, ref.F(x), ref.F(y))
		}
		c13Exec(c, c13Case{Pts: pts, Layout: layouts[i%4], Via: "flat"})
		c13Exec(c, c13Case{Pts: pts, Layout: layouts[(i+1)%4], Via: "multipoint"})
	})
	// many points in convex position (every one of them a hull vertex, so the interior-point
	// reduction keeps them all): arcs of the parabola y = x^2 and of a lattice "circle", 51..200
	// points, listed ascending, descending, from the outside in, and interleaved; 8 symmetries
	type arcJob struct {
		n, order, sym, shape int
	}
	var arcs []arcJob
	for _, n := range []int{51, 64, 65, 66, 100, 130, 200} {
		for order := 0; order < 4; order++ {
			for sym := 0; sym < 8; sym++ {
				for shape := 0; shape < 2; shape++ {
					arcs = append(arcs, arcJob{n, order, sym, shape})
				}
			}
		}
	}
	c.Note("convex_position_inputs", len(arcs))
	c.Parallel(len(arcs), func(i int) {
		j := arcs[i]
		base := make([][2]float64, j.n)
		for k := range base {
			x := float64(k)
			if j.shape == 0 {
				base[k] = [2]float64{x, x * x}
			} else {
				// convex chain with slopes 1, 2, 3, ... then mirrored: a lattice polygon
				base[k] = [2]float64{x, x * (x + 1) / 2}
				if k%2 == 1 {
					base[k] = [2]float64{-x, x * (x + 1) / 2}
				}
			}
		}
		idx := make([]int, j.n)
		for k := range idx {
			switch j.order {
			case 0:
				idx[k] = k
			case 1:
				idx[k] = j.n - 1 - k
			case 2: // outside in
				if k%2 == 0 {
					idx[k] = k / 2
				} else {
					idx[k] = j.n - 1 - k/2
				}
			default: // stride 7 (coprime to the counts used)
				idx[k] = (k*7 + 3) % j.n
			}
		}
		if j.order == 3 && (j.n%7 == 0) {
			for k := range idx {
				idx[k] = (k*11 + 3) % j.n
			}
		}
		var pts []ref.F
		for _, k := range idx {
			x, y := base[k][0], base[k][1]
			if j.sym&1 != 0 {
				x = -x
			}
			if j.sym&2 != 0 {
				y = -y
			}
			if j.sym&4 != 0 {
				x, y = y, x
			}
			pts = append(pts, ref.F(x), ref.F(y))
		}
		c.Count("convex_position_cases", 1)
		c13Exec(c, c13Case{Pts: pts, Layout: layouts[i%4], Via: "flat"})
	})
	// more than 50 points that are ALL collinear, in every primitive direction with |dx|,|dy| <= 3
	// (all octants), 51 and 60 points, listed ascending, descending, from the middle outwards and
	// in steps of 7: the answer is the two-point line between the ends
	var colDirs [][2]int
	for dx := -3; dx <= 3; dx++ {
		for dy := -3; dy <= 3; dy++ {
			if (dx != 0 || dy != 0) && gcdInt(absInt(dx), absInt(dy)) == 1 {
				colDirs = append(colDirs, [2]int{dx, dy})
			}
		}
	}
	c.Parallel(len(colDirs), func(i int) {
		d := colDirs[i]
		for _, n := range []int{51, 60} {
			for order := 0; order < 4; order++ {
				var pts []ref.F
				for k := 0; k < n; k++ {
					j := k
					switch order {
					case 1:
						j = n - 1 - k
					case 2:
						j = n/2 + (k+1)/2*(1-2*(k%2))
						if j < 0 || j >= n {
							j = k
						}
					case 3:
						j = (k*7 + 3) % n
					}
					pts = append(pts, ref.F(100+j*d[0]), ref.F(200+j*d[1]))
				}
				c.Count("all_collinear_large_inputs", 1)
				c13Exec(c, c13Case{Pts: pts, Layout: layouts[(i+order)%4], Via: []string{"flat", "multipoint"}[order%2]})
			}
		}
	})
	// collinear runs THROUGH THE LOWEST POINT in every direction (the radial sort's tie-break): the
	// lowest point F, three or four further points on one ray from F (every primitive direction
	// with |dx| <= 3, 0 <= dy <= 3 that keeps F lowest-leftmost), and one point off the ray - every
	// input order of these 5 / 6 points. A 3x3 grid has no ray with three lattice points beyond F.
	type rayJob struct {
		dx, dy, k int
		off       [2]float64
	}
	var rays []rayJob
	for dy := 0; dy <= 3; dy++ {
		for dx := -3; dx <= 3; dx++ {
			if (dy == 0 && dx != 1) || (dy > 0 && gcdInt(absInt(dx), dy) != 1) {
				continue
			}
			for _, k := range []int{3, 4} {
				for _, off := range [][2]float64{{20, 1}, {-1, 20}} {
					rays = append(rays, rayJob{dx, dy, k, off})
				}
			}
		}
	}
	c.Note("rays_through_the_lowest_point", len(rays))
	c.Parallel(len(rays), func(i int) {
		j := rays[i]
		base := [][2]float64{{0, 0}}
		for m := 1; m <= j.k; m++ {
			base = append(base, [2]float64{float64(m * j.dx), float64(m * j.dy)})
		}
		base = append(base, j.off)
		if j.off[1] < 0 || (j.dy == 0 && j.off[1] == 0) {
			return
		}
		idx := make([]int, len(base))
		for x := range idx {
			idx[x] = x
		}
		permute(idx, func(pm []int) {
			var pts []ref.F
			for _, x := range pm {
				pts = append(pts, ref.F(base[x][0]+7), ref.F(base[x][1]+5))
			}
			c.Count("ray_permutation_cases", 1)
			c13Exec(c, c13Case{Pts: pts, Layout: layouts[(i+pm[0])%4], Via: "flat"})
		})
	})
	// extra ordinates that echo coordinates: 60 points in convex position (both shapes, 8
	// symmetries); for every ordered pair (P, Q) of the eight directional extremes (min/max of x, y,
	// x+y, x-y) (a) the set shifted along x so that P.x = Q.y, in XYZ and XYM with Z = M = P.y for
	// every point - (y, z) of Q then reads like (x, y) of P; (b) in XYZM with Z = P.x, M = P.y
	// - (z, m) of every point reads like P
	type echoJob struct{ sym, shape int }
	var echoes []echoJob
	for sym := 0; sym < 8; sym++ {
		for shape := 0; shape < 2; shape++ {
			echoes = append(echoes, echoJob{sym, shape})
		}
	}
	c.Parallel(len(echoes), func(i int) {
		j := echoes[i]
		const n = 60
		var set [][2]float64
		for k := 0; k < n; k++ {
			x := float64(k)
			y := x * x
			if j.shape == 1 {
				y = x * (x + 1) / 2
				if k%2 == 1 {
					x = -x
				}
			}
			if j.sym&1 != 0 {
				x = -x
			}
			if j.sym&2 != 0 {
				y = -y
			}
			if j.sym&4 != 0 {
				x, y = y, x
			}
			set = append(set, [2]float64{x, y})
		}
		keys := []func(p [2]float64) float64{
			func(p [2]float64) float64 { return p[0] }, func(p [2]float64) float64 { return -p[0] },
			func(p [2]float64) float64 { return p[1] }, func(p [2]float64) float64 { return -p[1] },
			func(p [2]float64) float64 { return p[0] + p[1] }, func(p [2]float64) float64 { return -p[0] - p[1] },
			func(p [2]float64) float64 { return p[0] - p[1] }, func(p [2]float64) float64 { return p[1] - p[0] },
		}
		var ext [][2]float64
		for _, key := range keys {
			best := set[0]
			for _, p := range set {
				if key(p) < key(best) {
					best = p
				}
			}
			ext = append(ext, best)
		}
		for _, P := range ext {
			for _, Q := range ext {
				if P == Q {
					continue
				}
				tx := Q[1] - P[0]
				var shifted, plain []ref.F
				for _, p := range set {
					shifted = append(shifted, ref.F(p[0]+tx), ref.F(p[1]))
					plain = append(plain, ref.F(p[0]), ref.F(p[1]))
				}
				c.Count("coordinate_echo_cases", 3)
				c13Exec(c, c13Case{Pts: shifted, Layout: geom.XYZ, Via: "flat", Ext: []ref.F{ref.F(P[1])}})
				c13Exec(c, c13Case{Pts: shifted, Layout: geom.XYM, Via: "flat", Ext: []ref.F{ref.F(P[1])}})
				c13Exec(c, c13Case{Pts: plain, Layout: geom.XYZM, Via: "flat", Ext: []ref.F{ref.F(P[0]), ref.F(P[1])}})
			}
		}
	})
	// few points whose directions from the lowest point differ by a cross product of +-1 or +-2
	// at magnitudes up to 2^20 (lattice neighbours (n,n-1),(n+1,n); consecutive Fibonacci pairs):
	// a radial sort that compares angles with a tolerance, or in rounded arithmetic, misorders them.
	// Every permutation of the input, 8 symmetries of the plane, two translations.
	type nc struct{ pts [][2]float64 }
	var ncs []nc
	M := float64(1<<20 - 1)
	for _, n := range []float64{1000, 65535, 262144, 524287, 740000, 1<<20 - 3} {
		ncs = append(ncs,
			nc{[][2]float64{{0, 0}, {n, n - 1}, {n + 1, n}, {0, n}}},
			nc{[][2]float64{{0, 0}, {n + 1, n}, {n, n - 1}, {n - 5, 3}}},
			nc{[][2]float64{{0, 0}, {n, n - 1}, {n + 1, n}, {2*n + 1, 2*n - 1 - 0}}},
			nc{[][2]float64{{0, 0}, {n, 1}, {n - 1, 1}, {M, 2}, {3, n}}},
			nc{[][2]float64{{0, 0}, {n - 1, n}, {n, n + 1}, {n, 0}}},
		)
	}
	fibs := []float64{1, 2}
	for fibs[len(fibs)-1] < 1<<20 {
		fibs = append(fibs, fibs[len(fibs)-1]+fibs[len(fibs)-2])
	}
	for k := 8; k+2 < len(fibs); k++ {
		a, b, d := fibs[k], fibs[k+1], fibs[k+2]
		if d > 1<<20 {
			break
		}
		ncs = append(ncs, nc{[][2]float64{{0, 0}, {b, a}, {d, b}, {0, b}}}, nc{[][2]float64{{0, 0}, {d, b}, {b, a}, {a, b}, {d, 0}}})
	}
	c.Note("near_collinear_large_configurations", len(ncs))
	c.Parallel(len(ncs), func(i int) {
		base := ncs[i].pts
		idx := make([]int, len(base))
		for k := range idx {
			idx[k] = k
		}
		var perms [][]int
		var permute func(k int)
		permute = func(k int) {
			if k == len(idx) {
				perms = append(perms, append([]int{}, idx...))
				return
			}
			for j := k; j < len(idx); j++ {
				idx[k], idx[j] = idx[j], idx[k]
				permute(k + 1)
				idx[k], idx[j] = idx[j], idx[k]
			}
		}
		permute(0)
		for sym := 0; sym < 8; sym++ {
			for _, off := range [][2]float64{{0, 0}, {12345, 777}} {
				for pi, pm := range perms {
					if len(base) > 4 && pi%5 != 0 {
						continue
					}
					var pts []ref.F
					for _, k := range pm {
						x, y := base[k][0], base[k][1]
						if sym&1 != 0 {
							x = -x
						}
						if sym&2 != 0 {
							y = -y
						}
						if sym&4 != 0 {
							x, y = y, x
						}
						pts = append(pts, ref.F(x+off[0]), ref.F(y+off[1]))
					}
					c.Count("near_collinear_large_cases", 1)
					c13Exec(c, c13Case{Pts: pts, Layout: layouts[(pi+sym)%4], Via: "flat"})
				}
			}
		}
	})
	if c.Thorough() {
		// every set of <= 6 points on the 4x4 grid, in lexicographic and reversed order
		var g4 [][2]float64
		for x := 0; x < 4; x++ {
			for y := 0; y < 4; y++ {
				g4 = append(g4, [2]float64{float64(x), float64(y)})
			}
		}
		var sets [][]int
		var rec func(start int, cur []int)
		rec = func(start int, cur []int) {
			if len(cur) >= 3 {
				sets = append(sets, append([]int{}, cur...))
			}
			if len(cur) == 6 {
				return
			}
			for k := start; k < 16; k++ {
				rec(k+1, append(cur, k))
			}
		}
		rec(0, nil)
		c.Note("sets_4x4", len(sets))
		c.Parallel(len(sets), func(i int) {
			var pts, rev []ref.F
			for _, k := range sets[i] {
				pts = append(pts, ref.F(g4[k][0]), ref.F(g4[k][1]))
			}
			for k := len(sets[i]) - 1; k >= 0; k-- {
				rev = append(rev, ref.F(g4[sets[i][k]][0]), ref.F(g4[sets[i][k]][1]))
			}
			c13Exec(c, c13Case{Pts: pts, Layout: layouts[i%4], Via: "flat"})
			c13Exec(c, c13Case{Pts: rev, Layout: layouts[(i+1)%4], Via: "multipoint"})
		})
	}
	for _, k := range []string{"kind_point", "kind_line", "kind_polygon", "over_50_points"} {
		if c.Get(k) == 0 {
			c.Warn("vacuous: class " + k + " is empty")
		}
	}
	_ = math.Abs
}

func gcdInt(a, b int) int {
	for b != 0 {
		a, b = b, a%b
	}
	return a
}

func absInt(a int) int {
	if a < 0 {
		return -a
	}
	return a
}
