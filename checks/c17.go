//go:build verif

package checks

import (
	"bytes"
	"encoding/json"
	"fmt"
	"os"
	"os/exec"
	"path/filepath"
	"regexp"
	"strings"

	"verif/engine"
	"verif/pure"
	"verif/ref"
)

// C17 — queries, encoders and decoders are pure and safe to call concurrently.
//  (A) purity, exhaustive over registry x inputs, in process;
//  (B) cooperative-scheduler exploration of all interleavings within the preemption bound, in
//      the binary built from instrumented copies of the current sources (.build/vc17s);
//  (C) free-running pass of the same scenarios under the race detector (.build/vc17r).

type c17Case struct {
	Part    string   `json:"part"` // purity | sched | race
	Fns     []string `json:"fns"`
	Inputs  []string `json:"inputs"`
	Choices []int    `json:"choices,omitempty"`
	Limits  int      `json:"limits,omitempty"` // sched / race: element limits configured for the scenario (cmd/vc17)
}

// c17LiveCase is one query / in-place change / query history of part (A3).
type c17LiveCase struct {
	G    *ref.G   `json:"g"`
	Step liveStep `json:"step"`
	Fn   string   `json:"fn"`
}

func init() {
	engine.Register(&engine.Check{
		ID: "C17", Level: "model_checking",
		Rule:   "registry F of exported non-mutating functions (measures, bounds, accessors, clone, hull, centroids, ring predicates, point location, distances, angles, simplification, orientation, intersectors, all encoders and decoders incl. hex/SQL/KML/IGC) x shared inputs (geometries of every kind in four layouts with non-round coordinates, near-collinear and >50-point inputs, collections, coordinate tuples, encodings). (A) every f x input: bitwise snapshot of all argument storage incl. spare capacity and a generated dump of every package-level variable before/after (after one call on another input, so that a table built once on first use is not mistaken for mutable state), second call equals first. (B) every unordered pair (f,g) on a shared input and every f on pairs of distinct inputs, as 2 threads (thorough: also a 3-thread scenario) under a cooperative scheduler: ALL interleavings with <=2 (thorough 3) preemptions at the scheduling points that an AST pass inserts - from the current sources - before every statement of every function that mentions a package-level variable with a write site; each call must return its solo result, arguments and globals unchanged. (C) the same scenarios free-running x4 under the race detector. states = scheduling points visited, transitions = schedules executed Also: (A1b) every coordinate-taking function on every 4-tuple of the 3x3 grid, overflow-scaled and nearly coincident tuples; (A2) two-call histories for every ordered pair (f,g): the live results of f are kept, g runs twice, the kept values are rendered again; then the kept values are overwritten by the 'caller' and g must still return its solo result (solo results taken before any overwrite); (A3) f(g), one in-place operation on g, f(g) again must equal f on a freshly built geometry; (B) and (C) render the kept result before and after a scheduling point; inputs include non-canonical spellings (lower/mixed case, re-spaced WKT, upper-case hex). Round 7: Marshal/Encode with package-level option lists shared by all calls. Round 8: bulk coordinate tuples with NaN third ordinates in one segment / at one end of each. Round 9: hex text (as bytes) handed to the binary Unmarshal and Scan entry points; polygons with a ring without positions after a ring with positions. Round 10: an IGC track with positions and altitudes out of range. Round 11: the accessor entry pushes a ring numbered per call into every polygon handed out for a ring-less multipolygon member. Round 12: coordinate tuples spanning 400 decades; every scenario of two binary decoders again with element limits {0,4,4,4} configured before the calls (scheduler exploration and race pass).",
		Run:    c17Run,
		Replay: c17Replay,
		Assumptions: []string{
			"Calls can only interact through argument storage or package-level state; (A) shows that no call running alone writes either, the static scan shows there is no goroutine/channel/sync use, so scheduling points at functions touching written package-level variables are sufficient; aliases that escape a function are left to (A) and (C)",
			"Memory-model effects below Go's happens-before are not modelled",
		},
	})
}

func c17Purity(c *engine.Ctx, fnName, inName string) {
	fns := pure.Registry()
	var fn *pure.Fn
	for i := range fns {
		if fns[i].Name == fnName {
			fn = &fns[i]
		}
	}
	in := pure.BuildByName(inName)
	if fn == nil || in == nil {
		panic("c17: unknown function or input " + fnName + " / " + inName)
	}
	c17PurityOne(c, fn, in)
}

func c17PurityOne(c *engine.Ctx, fn *pure.Fn, in *pure.Input) {
	c.Count("evaluations", 1)
	cs := c17Case{Part: "purity", Fns: []string{fn.Name}, Inputs: []string{in.Name}}
	// One call on ANOTHER input first: a table that is built once, on first use, is initialised by
	// it (that is not a state change of the call under test); a scratch buffer, a memo or a
	// counter at package level is left holding the other input's traces and will change again.
	engine.Guard(func() {
		for i := 0; i < pure.NumInputs(); i++ {
			if pure.InputName(i) == in.Name {
				continue
			}
			if w := pure.BuildInput(i); fn.Applies(w) {
				fn.Call(w)
				return
			}
		}
		fn.Call(pure.BuildByName(in.Name))
	})
	snap := in.Snapshot()
	glob := pure.Globals()
	var r1, r2 string
	if p, _ := engine.Guard(func() { r1 = fn.Call(in); r2 = fn.Call(in) }); p != nil {
		c.Count("purity_panics", 1)
		c.Sample("panic", 3, fmt.Sprintf("%s(%s): %v", fn.Name, in.Name, p))
		return
	}
	fail := func(what, desc string) {
		c.Violate("purity/"+fn.Name+"/"+what, fmt.Sprintf("%s on input %s: %s", fn.Name, in.Name, desc), "purity", cs)
	}
	if s2 := in.Snapshot(); s2 != snap {
		fail("argument-modified", "argument storage changed: "+diffAt(snap, s2))
		return
	}
	if g2 := pure.Globals(); g2 != glob {
		fail("global-state-changed", "package-level state changed: "+diffAt(glob, g2))
		return
	}
	if r1 != r2 {
		fail("not-repeatable", "second call returned a different result: "+diffAt(r1, r2))
		return
	}
	c.Count("purity_ok", 1)
	c.DistinctStr(fn.Name + "|" + in.Name)
}

// c17Retained is the two-call history check: the live result values of f(in) are retained,
// rendered, then g(in2) runs, and the retained values are rendered again. A result that aliases
// hidden shared state (a pooled or cached buffer, a reused scratch slice) changes under the later
// call although each call, compared immediately, returns the right value.
// c17Solo holds the results every function returns when run alone, computed before any result
// is overwritten (an overwritten result that aliases package-level storage corrupts it for the
// rest of the process, so a solo value taken later would already be wrong).
var c17Solo = map[string]string{}

func c17Retained(c *engine.Ctx, fn, gn *pure.Fn, inName, in2Name string) {
	c.Count("evaluations", 1)
	in, in2 := pure.BuildByName(inName), pure.BuildByName(in2Name)
	cs := c17Case{Part: "retained", Fns: []string{fn.Name, gn.Name}, Inputs: []string{inName, in2Name}}
	var before, after string
	if p, _ := engine.Guard(func() {
		in.ResetKept()
		fn.Call(in)
		before = in.Rerender()
		gn.Call(in2)
		gn.Call(in2)
		after = in.Rerender()
	}); p != nil {
		c.Count("purity_panics", 1)
		return
	}
	// the results of f belong to the caller: overwrite them, then g (on fresh storage) must still
	// return what it returns when run alone
	if fn.Name != "T.Coords+accessors" { // accessor results are documented views of the argument
		var solo, got string
		if p, _ := engine.Guard(func() {
			var have bool
			if solo, have = c17Solo[gn.Name+"|"+in2Name]; !have {
				solo = gn.Call(pure.BuildByName(in2Name))
			}
			in3 := pure.BuildByName(inName)
			fn.Call(in3)
			in3.ScribbleKept()
			got = gn.Call(pure.BuildByName(in2Name))
		}); p == nil && solo != got {
			c.Violate("retained/"+fn.Name+"/result-overwritten-then/"+gn.Name, fmt.Sprintf("after the caller overwrote the result of %s(%s), %s(%s) returns %s instead of %s", fn.Name, inName, gn.Name, in2Name, clipStr(got, 200), clipStr(solo, 200)), "retained", cs)
			return
		}
	}
	if before != after {
		c.Violate("retained/"+fn.Name+"/changed-by/"+gn.Name, fmt.Sprintf("the result of %s(%s), kept by the caller, changed when %s(%s) was called afterwards: %s", fn.Name, inName, gn.Name, in2Name, diffAt(before, after)), "retained", cs)
		return
	}
	c.Count("retained_ok", 1)
}

func diffAt(a, b string) string {
	i := 0
	for i < len(a) && i < len(b) && a[i] == b[i] {
		i++
	}
	lo := max(0, i-40)
	return fmt.Sprintf("...%s  ->  ...%s", clipStr(a[lo:], 120), clipStr(b[lo:], 120))
}

type vc17Out struct {
	Mode       string `json:"mode"`
	Scenarios  int64  `json:"scenarios"`
	Schedules  int64  `json:"schedules"`
	Points     int64  `json:"scheduling_points"`
	MaxPoints  int    `json:"max_points_in_one_schedule"`
	Outcomes   int    `json:"distinct_outcomes"`
	Capped     bool   `json:"capped"`
	Hooked     bool   `json:"instrumented_build"`
	SelfTest   string `json:"scheduler_self_test"`
	Violations []struct {
		Key  string  `json:"key"`
		Desc string  `json:"desc"`
		Case c17Case `json:"case"`
	} `json:"violations"`
	Samples []any `json:"samples"`
}

var raceFrameRe = regexp.MustCompile(`(?m)^\s+(github\.com/twpayne/go-geom[^\s(]*)\(`)

func c17Run(c *engine.Ctx) {
	// static precondition, re-checked from the current sources by the instrumenter
	if b, err := os.ReadFile(Home() + "/.build/scan_sched.json"); err == nil {
		var scan map[string]any
		if json.Unmarshal(b, &scan) == nil {
			c.Note("static_scan", map[string]any{"go_statements": scan["go_statements"], "channel_operations": scan["channel_operations"],
				"sync_or_atomic_imports": scan["sync_or_atomic_imports"], "vars_with_write_sites": scan["vars_with_write_sites"], "instrumented_functions": scan["instrumented_functions"]})
		}
	}
	// (A)
	fns := pure.Registry()
	c.Note("registry_functions", len(fns))
	nIn := pure.NumInputs()
	c.Note("inputs", nIn)
	// sequential: the global-state dump is process-wide
	for f := range fns {
		for i := 0; i < nIn; i++ {
			in := pure.BuildInput(i)
			if fns[f].Applies(in) {
				c17PurityOne(c, &fns[f], in)
			}
		}
	}
	// (A1b) exhaustive low-level family: every coordinate-taking function on every tuple of
	// pure.BulkTuples (all configurations of two segments on the 3x3 grid: disjoint, crossing,
	// touching at each end, collinear with every overlap pattern, zero-length, parallel; the
	// overflow and the nearly-coincident families that reach the fallback paths). Argument
	// storage is compared per call; the package-level state once per function.
	tuples := pure.BulkTuples()
	c.Note("bulk_tuples", len(tuples))
	for f := range fns {
		probe := pure.TupleInput("probe", tuples[0])
		if !fns[f].Applies(probe) || probe.T != nil {
			continue
		}
		if fns[f].Applies(&pure.Input{Name: "none"}) {
			continue // does not look at the coordinates
		}
		engine.Guard(func() { fns[f].Call(pure.TupleInput("warm-up", tuples[len(tuples)/2])) }) // one-time initialisation, see c17PurityOne
		glob := pure.Globals()
		for ti, tp := range tuples {
			name := fmt.Sprintf("tuple%d", ti)
			in := pure.TupleInput(name, tp)
			if !fns[f].Applies(in) {
				continue
			}
			c.Count("evaluations", 1)
			snap := in.CoordSnapshot()
			var r1, r2 string
			if p, _ := engine.Guard(func() { r1 = fns[f].Call(in); r2 = fns[f].Call(in) }); p != nil {
				c.Count("purity_panics", 1)
				continue
			}
			cs := c17Case{Part: "tuple", Fns: []string{fns[f].Name}, Inputs: []string{name}}
			if s2 := in.CoordSnapshot(); s2 != snap {
				c.Violate("purity/"+fns[f].Name+"/argument-modified", fmt.Sprintf("%s on coordinates %v: argument storage changed: %s", fns[f].Name, tp, diffAt(snap, s2)), "tuple", cs)
				break
			}
			if r1 != r2 {
				c.Violate("purity/"+fns[f].Name+"/not-repeatable", fmt.Sprintf("%s on coordinates %v: second call returned a different result: %s", fns[f].Name, tp, diffAt(r1, r2)), "tuple", cs)
				break
			}
			c.Count("tuple_purity_ok", 1)
		}
		if g2 := pure.Globals(); g2 != glob {
			c.Violate("purity/"+fns[f].Name+"/global-state-changed", "package-level state changed during the tuple family: "+diffAt(glob, g2), "tuple", c17Case{Part: "tuple", Fns: []string{fns[f].Name}, Inputs: []string{"tuple0"}})
		}
	}
	// (A3) hidden per-object state: f(g); an in-place change of g through the public API; f(g)
	// again must equal f on a geometry freshly built with the coordinates g has now (a cached
	// bound, measure or encoding inside the geometry survives the in-place change)
	for _, g0 := range liveStarts() {
		alpha := liveAlphabet(g0)
		probe := pure.InputForModel("live", g0.Clone())
		for f := range fns {
			if !fns[f].Applies(probe) {
				continue
			}
			for _, st := range alpha {
				if st.Op == "Q" {
					continue
				}
				m := g0.Clone()
				live := pure.InputForModel("live", m)
				var rLive, rFresh string
				applied := false
				p, _ := engine.Guard(func() {
					fns[f].Call(live)
					if !applyStep(st, live.T, m, 0) {
						return
					}
					applied = true
					after := pure.InputForModel("live", m)
					if !fns[f].Applies(after) {
						applied = false
						return
					}
					fresh := pure.InputForModel("live", m)
					after.T = live.T
					if live.T != nil && m.Kind != ref.Collection {
						after.Flat = append([]float64{}, live.T.FlatCoords()...)
					}
					rLive = fns[f].Call(after)
					rFresh = fns[f].Call(fresh)
				})
				if p != nil || !applied {
					continue
				}
				c.Count("evaluations", 1)
				if rLive != rFresh {
					c.Violate("hidden-object-state/"+fns[f].Name+"/after-"+st.Op, fmt.Sprintf("%s on a %s %s that was queried, changed in place by %v and queried again returns %s; a geometry freshly built with the same coordinates gives %s", fns[f].Name, g0.Kind, g0.Layout, st, clipStr(rLive, 200), clipStr(rFresh, 200)), "live", c17LiveCase{G: g0, Step: st, Fn: fns[f].Name})
					continue
				}
				c.Count("live_differential_ok", 1)
			}
		}
	}
	// solo results of every function on every input, taken before anything is overwritten
	for g := range fns {
		for j := 0; j < nIn; j++ {
			if in := pure.BuildInput(j); fns[g].Applies(in) {
				engine.Guard(func() { c17Solo[fns[g].Name+"|"+pure.InputName(j)] = fns[g].Call(in) })
			}
		}
	}
	// (A2) two-call histories with the first result retained: every ordered pair (f, g) on the
	// same input and on up to two other inputs g accepts
	for f := range fns {
		for i := 0; i < nIn; i++ {
			if !fns[f].Applies(pure.BuildInput(i)) {
				continue
			}
			for g := range fns {
				// g on the same input when it accepts it, else on the first input it accepts;
				// f after itself additionally on two other inputs (quick) / every g on three (thorough)
				want := 1
				if g == f || c.Tier == "thorough" {
					want = 3
				}
				others := 0
				for d := 0; d < nIn && others < want; d++ {
					j := (i + d) % nIn
					if !fns[g].Applies(pure.BuildInput(j)) {
						continue
					}
					others++
					c17Retained(c, &fns[f], &fns[g], pure.InputName(i), pure.InputName(j))
				}
			}
		}
	}
	// (B) and (C)
	for _, part := range []struct{ bin, mode string }{{Home() + "/.build/vc17s", "sched"}, {Home() + "/.build/vc17r", "race"}} {
		if c.ViolTotal() > 0 && part.mode == "race" {
			// keep going: the race pass is independent evidence
		}
		if _, err := os.Stat(part.bin); err != nil {
			c.SetCapped("binary " + part.bin + " not built: part " + part.mode + " skipped")
			continue
		}
		outPath := filepath.Join(Home()+"/.build", fmt.Sprintf("c17-%s-%d.json", part.mode, os.Getpid()))
		cmd := exec.Command(part.bin, part.mode, c.Tier, outPath)
		var stderr bytes.Buffer
		cmd.Stderr = &stderr
		cmd.Env = append(os.Environ(), "GORACE=halt_on_error=0 exitcode=0 history_size=2", "GOTRACEBACK=single")
		err := cmd.Run()
		var out vc17Out
		b, rerr := os.ReadFile(outPath)
		os.Remove(outPath)
		if rerr != nil || json.Unmarshal(b, &out) != nil {
			cs := c17Case{Part: part.mode}
			c.Violate(part.mode+"/crashed", fmt.Sprintf("%s did not finish (%v): %s", part.bin, err, clipStr(stderr.String(), 1500)), part.mode, cs)
			continue
		}
		c.Count("evaluations", out.Schedules)
		if part.mode == "sched" {
			c.Count("states", max64(out.Points, out.Schedules))
			c.Count("transitions", out.Schedules)
			c.Count("traces_validated_against_impl", out.Schedules)
			c.Note("sched", map[string]any{"scenarios": out.Scenarios, "schedules": out.Schedules, "scheduling_points": out.Points,
				"max_points_in_one_schedule": out.MaxPoints, "distinct_outcomes": out.Outcomes, "instrumented_build": out.Hooked, "scheduler_self_test": out.SelfTest})
			if !out.Hooked {
				c.SetCapped("scheduler binary was built without the instrumentation hook")
			}
			for _, s := range out.Samples {
				c.Sample("schedule", 4, s)
			}
		} else {
			c.Note("race_pass", map[string]any{"scenarios": out.Scenarios, "runs": out.Schedules})
		}
		if out.Capped {
			c.SetCapped(part.mode + " exploration capped (deadline, horizon or enough counterexamples)")
		}
		for _, v := range out.Violations {
			cs := v.Case
			cs.Part = part.mode
			c.Violate(v.Key, v.Desc, part.mode, cs)
		}
		if part.mode == "race" {
			c17RaceReports(c, stderr.String())
		}
	}
	c.Count("distinct_nontrivial", c.Get("transitions"))
}

func max64(a, b int64) int64 {
	if a > b {
		return a
	}
	return b
}

// c17RaceReports turns race-detector reports into violations, attributed to the scenario marker
// that precedes them.
func c17RaceReports(c *engine.Ctx, stderr string) {
	if !strings.Contains(stderr, "WARNING: DATA RACE") {
		c.Count("race_free_runs", 1)
		return
	}
	scenario := c17Case{Part: "race"}
	blocks := strings.Split(stderr, "SCENARIO ")
	for _, b := range blocks {
		nl := strings.IndexByte(b, '\n')
		if nl < 0 {
			continue
		}
		head := b[:nl]
		if sp := strings.IndexByte(head, ' '); sp > 0 {
			var sc c17Case
			if json.Unmarshal([]byte(head[sp+1:]), &sc) == nil {
				scenario = sc
				scenario.Part = "race"
			}
		}
		rest := b[nl:]
		for _, rep := range strings.Split(rest, "WARNING: DATA RACE")[1:] {
			frames := raceFrameRe.FindAllStringSubmatch(rep, 4)
			site := "unknown"
			if len(frames) > 0 {
				site = frames[0][1]
			}
			c.Violate("race/"+site, fmt.Sprintf("data race between concurrent calls %v on inputs %v:%s", scenario.Fns, scenario.Inputs, clipStr(rep, 1200)), "race", scenario)
		}
	}
}

func c17Replay(c *engine.Ctx, kind string, raw json.RawMessage) {
	cs := decodeCase[c17Case](raw)
	switch kind {
	case "purity":
		c17Purity(c, cs.Fns[0], cs.Inputs[0])
	case "live":
		lc := decodeCase[c17LiveCase](raw)
		fns := pure.Registry()
		for i := range fns {
			if fns[i].Name != lc.Fn {
				continue
			}
			m := lc.G.Clone()
			live := pure.InputForModel("live", m)
			var rLive, rFresh string
			ok := false
			engine.Guard(func() {
				fns[i].Call(live)
				if !applyStep(lc.Step, live.T, m, 0) {
					return
				}
				after, fresh := pure.InputForModel("live", m), pure.InputForModel("live", m)
				after.T = live.T
				if live.T != nil && m.Kind != ref.Collection {
					after.Flat = append([]float64{}, live.T.FlatCoords()...)
				}
				rLive, rFresh, ok = fns[i].Call(after), fns[i].Call(fresh), true
			})
			if ok && rLive != rFresh {
				c.Violate("hidden-object-state/"+lc.Fn+"/after-"+lc.Step.Op, "queried, changed in place, queried again: "+clipStr(rLive, 200)+" vs fresh "+clipStr(rFresh, 200), "live", lc)
			}
		}
	case "tuple":
		var ti int
		fmt.Sscanf(cs.Inputs[0], "tuple%d", &ti)
		tuples := pure.BulkTuples()
		fns := pure.Registry()
		for i := range fns {
			if fns[i].Name != cs.Fns[0] || ti >= len(tuples) {
				continue
			}
			in := pure.TupleInput(cs.Inputs[0], tuples[ti])
			snap := in.CoordSnapshot()
			var r1, r2 string
			if p, _ := engine.Guard(func() { r1 = fns[i].Call(in); r2 = fns[i].Call(in) }); p != nil {
				return
			}
			if in.CoordSnapshot() != snap {
				c.Violate("purity/"+fns[i].Name+"/argument-modified", fmt.Sprintf("%s on coordinates %v: argument storage changed", fns[i].Name, tuples[ti]), "tuple", cs)
			} else if r1 != r2 {
				c.Violate("purity/"+fns[i].Name+"/not-repeatable", "second call differs", "tuple", cs)
			}
		}
	case "retained":
		fns := pure.Registry()
		var f, g *pure.Fn
		for i := range fns {
			if fns[i].Name == cs.Fns[0] {
				f = &fns[i]
			}
			if fns[i].Name == cs.Fns[1] {
				g = &fns[i]
			}
		}
		if f == nil || g == nil {
			panic("c17: unknown function in replay")
		}
		c17Retained(c, f, g, cs.Inputs[0], cs.Inputs[1])
	case "sched":
		tmp := filepath.Join(Home()+"/.build", fmt.Sprintf("c17-replay-%d.json", os.Getpid()))
		b, _ := json.Marshal(cs)
		os.WriteFile(tmp, b, 0o644)
		defer os.Remove(tmp)
		out, err := exec.Command(Home()+"/.build/vc17s", "replay", tmp).CombinedOutput()
		if ee, ok := err.(*exec.ExitError); ok && ee.ExitCode() == 1 {
			c.Violate("sched/replay", strings.TrimSpace(string(out)), "sched", cs)
		}
	case "race":
		tmp := filepath.Join(Home()+"/.build", fmt.Sprintf("c17-replay-%d.json", os.Getpid()))
		b, _ := json.Marshal(cs)
		os.WriteFile(tmp, b, 0o644)
		defer os.Remove(tmp)
		cmd := exec.Command(Home()+"/.build/vc17r", "race-one", tmp)
		cmd.Env = append(os.Environ(), "GORACE=halt_on_error=0 exitcode=0")
		out, _ := cmd.CombinedOutput()
		if strings.Contains(string(out), "WARNING: DATA RACE") || strings.Contains(string(out), "violated:") {
			c.Violate("race/replay", clipStr(string(out), 1500), "race", cs)
		}
	}
}
