package checks

import (
	"encoding/json"
	"fmt"
	"math"
	"math/big"

	"github.com/twpayne/go-geom"
	"github.com/twpayne/go-geom/xy"

	"verif/engine"
	"verif/ref"
)

// C14 — centroids, ring direction and signed area match exact geometry.

type c14Case struct {
	Mode   string      `json:"mode"` // points | lines | ring | polygons
	Layout geom.Layout `json:"layout"`
	// Parts: points mode: one list of points; lines: list of polylines; ring: one ring;
	// polygons: list of polygons, each a list of rings (first = shell), flattened with Counts
	Rings  [][]ref.F `json:"rings"`
	Counts []int     `json:"ring_counts,omitempty"` // polygons mode: number of rings per polygon
}

func init() {
	engine.Register(&engine.Check{
		ID: "C14", Level: "exploration",
		Rule:        "point sets of 1..4 points on the 4x4 grid; polylines of 2..4 vertices (repeated points allowed) and pairs of them; every SIMPLE ring (simplicity decided exactly) of 3..5 (thorough 6) vertices on the 4x4 grid in both directions and from every start vertex; polygons = every axis-parallel rectangle and lattice triangle on the 6x6 grid (thorough 8x8) as shell x lattice triangles / unit squares strictly inside as holes (<=1 quick, <=2 thorough), rings in every direction combination; multipolygons = pairs and triples of disjoint polygons, also handed to PolygonsCentroid as the member views of one multipolygon in every order (storage must stay bit-identical); zero-area polygons for the length-weighted fallback; offsets {0,1e5,2^30}; layouts with extra ordinates. Oracle: rational mean / length-weighted (256-bit sqrt) / area-weighted centroid within a forward error bound; IsRingCounterClockwise <=> exact signed area > 0; SignedArea = -(exact ccw area). distinct_nontrivial = distinct inputs with non-zero length or area Also: point sets and polylines with every count 1..70 and counts around powers of two, 4096/3 and 8192/3 up to 8193 (thorough 65537) in all four layouts. Round 7: two and three holes in every direction combination also in the quick tier; zero-area polygons that are not collinear (a bent path walked out and back) alone and beside a collinear member. Round 8: point sets also as MultiPoints with members without a position; geometries carry SRID 4326/3857 in half of the cases; tower rings of 4103 and 20003 (thorough 66003) coordinates as ring, polygon, polygon with hole and polyline. Round 9: every point set of 2..70 points also as Point values in XY/XYZ/XYZM/five ordinates in turn. Round 10: multi-lines of three and four members in which one member starts where the previous ends (every chain on the 3x3 grid). Round 12: every simple ring of 3..5 vertices on the 4x4 grid as the hole of a square shell.",
		Run:         c14Run,
		Replay:      func(c *engine.Ctx, kind string, raw json.RawMessage) { c14Exec(c, decodeCase[c14Case](raw)) },
		Assumptions: []string{"valid polygons only (simple rings, holes strictly inside, disjoint members); polylines of non-zero total length"},
	})
}

func flatOf(v []ref.F, l geom.Layout, tag float64) []float64 {
	st := l.Stride()
	out := make([]float64, 0, len(v)/2*st)
	for i := 0; i+1 < len(v); i += 2 {
		out = append(out, float64(v[i]), float64(v[i+1]))
		for k := 2; k < st; k++ {
			out = append(out, tag+float64(k)*1e7)
		}
	}
	return out
}

func scaleOf(rs [][]ref.F) float64 {
	s := 1.0
	for _, r := range rs {
		for _, v := range r {
			s = math.Max(s, math.Abs(float64(v)))
		}
	}
	return s
}

func closeTo(got float64, want *big.Float, tol float64) bool { return ref.AbsDiffLE(got, want, tol) }

func c14Exec(c *engine.Ctx, cs c14Case) {
	c.Count("evaluations", 1)
	l := cs.Layout
	u := math.Ldexp(1, -52)
	scale := scaleOf(cs.Rings)
	// the geometries handed over carry an SRID in about half of the cases (longitude/latitude,
	// web mercator): centroids are those of the coordinates as plain numbers whatever it says
	srid := []int{0, 4326, 0, 3857}[(len(cs.Rings)+len(cs.Rings[0])/2)%4]
	fail := func(what, desc string) {
		c.Violate(cs.Mode+"/"+what, clipStr(fmt.Sprintf("%s; layout %v counts %v input %v", desc, l, cs.Counts, cs.Rings), 2500), "c14", cs)
	}
	checkXY := func(what string, got geom.Coord, wx, wy *big.Float, tol float64) bool {
		if len(got) < 2 || !closeTo(got[0], wx, tol) || !closeTo(got[1], wy, tol) {
			fail(what, fmt.Sprintf("centroid %v, exact (%s, %s), tolerance %g", got, wx.Text('g', 20), wy.Text('g', 20), tol))
			return false
		}
		return true
	}
	bf := func(r *big.Rat) *big.Float { return ref.RatToFloat(r) }
	switch cs.Mode {
	case "points":
		pts := toP2(cs.Rings[0])
		sx, sy := new(big.Rat), new(big.Rat)
		for _, p := range pts {
			sx.Add(sx, ref.R(p.X))
			sy.Add(sy, ref.R(p.Y))
		}
		n := big.NewRat(int64(len(pts)), 1)
		wx, wy := bf(new(big.Rat).Quo(sx, n)), bf(new(big.Rat).Quo(sy, n))
		flat := flatOf(cs.Rings[0], l, 5)
		tol := float64(len(pts)+4) * u * scale
		var g1, g2, g3 geom.Coord
		if pn, _ := engine.Guard(func() {
			g1 = xy.PointsCentroidFlat(l, flat)
			g2 = xy.MultiPointCentroid(geom.NewMultiPointFlat(l, flat).SetSRID(srid))
			var ps []*geom.Point
			for i := 0; i < len(pts); i++ {
				ps = append(ps, geom.NewPointFlat(l, flat[i*l.Stride():(i+1)*l.Stride()]).SetSRID(srid))
			}
			g3 = xy.PointsCentroid(ps[0], ps[1:]...)
		}); pn != nil {
			fail("panic", fmt.Sprintf("panic %v", pn))
			return
		}
		if !checkXY("flat", g1, wx, wy, tol) || !checkXY("multipoint", g2, wx, wy, tol) || !checkXY("points", g3, wx, wy, tol) {
			return
		}
		// the same points as separate Point values in DIFFERENT layouts (XY, XYZ, XYZM, five ordinates
		// in turn, starting with each): only X and Y count
		if len(pts) >= 2 && len(pts) <= 70 {
			st := l.Stride()
			mixed := []geom.Layout{geom.XY, geom.XYZ, geom.XYZM, geom.Layout(5)}
			for shift := 0; shift < 4; shift++ {
				var ps []*geom.Point
				for i := range pts {
					ml := mixed[(i+shift)%4]
					co := make([]float64, ml.Stride())
					co[0], co[1] = flat[i*st], flat[i*st+1]
					for k := 2; k < len(co); k++ {
						co[k] = float64(1000*k + i)
					}
					ps = append(ps, geom.NewPointFlat(ml, co).SetSRID(srid))
				}
				var g6 geom.Coord
				if pn, _ := engine.Guard(func() { g6 = xy.PointsCentroid(ps[0], ps[1:]...) }); pn != nil {
					fail("points-in-mixed-layouts/panic", fmt.Sprintf("PointsCentroid over points in layouts XY/XYZ/XYZM/5 (starting with %v) panicked: %v", mixed[shift], pn))
					return
				}
				if !checkXY("points-in-mixed-layouts", g6, wx, wy, tol) {
					return
				}
				c.Count("point_sets_in_mixed_layouts", 1)
			}
		}
		// the same points as a MultiPoint that also has members WITHOUT a position (first, in the
		// middle, last): the mean is taken over the points there are
		if len(pts) <= 70 {
			st := l.Stride()
			for _, at := range []int{0, len(pts) / 2, len(pts)} {
				coords := make([]geom.Coord, 0, len(pts)+2)
				for i := 0; i <= len(pts); i++ {
					if i == at {
						coords = append(coords, nil)
						if at == len(pts)/2 {
							coords = append(coords, nil)
						}
					}
					if i < len(pts) {
						coords = append(coords, geom.Coord(flat[i*st:(i+1)*st]))
					}
				}
				var g4, g5 geom.Coord
				var err5 error
				if pn, _ := engine.Guard(func() {
					mp := geom.NewMultiPoint(l).MustSetCoords(coords).SetSRID(srid)
					g4 = xy.MultiPointCentroid(mp)
					g5, err5 = xy.Centroid(mp)
				}); pn != nil || err5 != nil {
					fail("multipoint-with-empty-members/panic", fmt.Sprintf("panic %v error %v with an empty member at %d", pn, err5, at))
					return
				}
				if !checkXY("multipoint-with-empty-members", g4, wx, wy, tol) || !checkXY("centroid-of-multipoint-with-empty-members", g5, wx, wy, tol) {
					return
				}
				c.Count("multipoints_with_empty_members", 1)
			}
		}
		c.Count("point_centroids", 1)
		c.DistinctStr(fmt.Sprint("p", cs.Rings, l))
	case "lines":
		total := new(big.Float).SetPrec(ref.Prec)
		mx, my := new(big.Float).SetPrec(ref.Prec), new(big.Float).SetPrec(ref.Prec)
		nseg := 0
		for _, r := range cs.Rings {
			pts := toP2(r)
			for i := 1; i < len(pts); i++ {
				ln := ref.SqrtRat(ref.Dist2(pts[i-1], pts[i]))
				total.Add(total, ln)
				hx := bf(new(big.Rat).Quo(new(big.Rat).Add(ref.R(pts[i-1].X), ref.R(pts[i].X)), big.NewRat(2, 1)))
				hy := bf(new(big.Rat).Quo(new(big.Rat).Add(ref.R(pts[i-1].Y), ref.R(pts[i].Y)), big.NewRat(2, 1)))
				mx.Add(mx, hx.Mul(hx, ln))
				my.Add(my, hy.Mul(hy, ln))
				nseg++
			}
		}
		if total.Sign() == 0 {
			return // centroid of a zero-length polyline is undefined
		}
		wx, wy := new(big.Float).SetPrec(ref.Prec).Quo(mx, total), new(big.Float).SetPrec(ref.Prec).Quo(my, total)
		tol := float64(3*nseg+8) * u * scale
		var lines []*geom.LineString
		var endsFlat []float64
		var ends []int
		for i, r := range cs.Rings {
			f := flatOf(r, l, float64(i))
			lines = append(lines, geom.NewLineStringFlat(l, f).SetSRID(srid))
			endsFlat = append(endsFlat, f...)
			ends = append(ends, len(endsFlat))
		}
		var g1, g2, g3 geom.Coord
		if pn, _ := engine.Guard(func() {
			g1 = xy.LinesCentroid(lines[0], lines[1:]...)
			g2 = xy.MultiLineCentroid(geom.NewMultiLineStringFlat(l, endsFlat, ends).SetSRID(srid))
			var rings []*geom.LinearRing
			for _, ln := range lines {
				rings = append(rings, geom.NewLinearRingFlat(l, ln.FlatCoords()).SetSRID(srid))
			}
			g3 = xy.LinearRingsCentroid(rings[0], rings[1:]...)
		}); pn != nil {
			fail("panic", fmt.Sprintf("panic %v", pn))
			return
		}
		if !checkXY("lines", g1, wx, wy, tol) || !checkXY("multiline", g2, wx, wy, tol) || !checkXY("linearrings", g3, wx, wy, tol) {
			return
		}
		c.Count("line_centroids", 1)
		c.DistinctStr(fmt.Sprint("l", cs.Rings, l))
	case "ring":
		pts := toP2(cs.Rings[0])
		a2, _, _ := ref.RingMoments(pts)
		flat := flatOf(cs.Rings[0], l, 3)
		var ccw bool
		var sa float64
		if pn, _ := engine.Guard(func() {
			ccw = xy.IsRingCounterClockwise(l, flat)
			sa = xy.SignedArea(l, flat)
		}); pn != nil {
			fail("panic", fmt.Sprintf("panic %v", pn))
			return
		}
		if ccw != (a2.Sign() > 0) {
			fail("direction", fmt.Sprintf("IsRingCounterClockwise=%v, exact signed area*2 = %s", ccw, a2.RatString()))
			return
		}
		wantSA := bf(new(big.Rat).Quo(new(big.Rat).Neg(a2), big.NewRat(2, 1)))
		if !closeTo(sa, wantSA, 4*u*(math.Abs(ref.F64(wantSA))+scale)) {
			fail("signed-area", fmt.Sprintf("SignedArea=%v exact %s", sa, wantSA.Text('g', 20)))
			return
		}
		c.Count("rings", 1)
		c.DistinctStr(fmt.Sprint("r", cs.Rings, l))
	case "polygons":
		// area-weighted centroid over all polygons: shells add, holes subtract
		totalA2, mx, my := new(big.Rat), new(big.Rat), new(big.Rat)
		k := 0
		var polys []*geom.Polygon
		var mpFlat []float64
		var endss [][]int
		nseg := 0
		for pi, cnt := range cs.Counts {
			var flat []float64
			var ends []int
			var mpEnds []int
			for ri := 0; ri < cnt; ri++ {
				r := cs.Rings[k]
				k++
				pts := toP2(r)
				nseg += len(pts)
				a2, rx, ry := ref.RingMoments(pts)
				sign := int64(1)
				if ri > 0 {
					sign = -1
				}
				if a2.Sign() < 0 { // make the ring's contribution direction-independent
					a2.Neg(a2)
					rx.Neg(rx)
					ry.Neg(ry)
				}
				s := big.NewRat(sign, 1)
				totalA2.Add(totalA2, new(big.Rat).Mul(s, a2))
				mx.Add(mx, new(big.Rat).Mul(s, rx))
				my.Add(my, new(big.Rat).Mul(s, ry))
				f := flatOf(r, l, float64(10*pi+ri))
				flat = append(flat, f...)
				ends = append(ends, len(flat))
				mpFlat = append(mpFlat, f...)
				mpEnds = append(mpEnds, len(mpFlat))
			}
			polys = append(polys, geom.NewPolygonFlat(l, flat, ends).SetSRID(srid))
			endss = append(endss, mpEnds)
		}
		var wx, wy *big.Float
		zeroArea := totalA2.Sign() == 0
		if !zeroArea {
			// centroid = (sum of 6A*c) / (3 * sum of 2A)
			den := new(big.Rat).Mul(totalA2, big.NewRat(3, 1))
			wx, wy = bf(new(big.Rat).Quo(mx, den)), bf(new(big.Rat).Quo(my, den))
		} else {
			// fallback: length-weighted centroid of all ring segments
			total := new(big.Float).SetPrec(ref.Prec)
			lx, ly := new(big.Float).SetPrec(ref.Prec), new(big.Float).SetPrec(ref.Prec)
			for _, r := range cs.Rings {
				pts := toP2(r)
				for i := 1; i < len(pts); i++ {
					ln := ref.SqrtRat(ref.Dist2(pts[i-1], pts[i]))
					total.Add(total, ln)
					hx := bf(new(big.Rat).Quo(new(big.Rat).Add(ref.R(pts[i-1].X), ref.R(pts[i].X)), big.NewRat(2, 1)))
					hy := bf(new(big.Rat).Quo(new(big.Rat).Add(ref.R(pts[i-1].Y), ref.R(pts[i].Y)), big.NewRat(2, 1)))
					lx.Add(lx, hx.Mul(hx, ln))
					ly.Add(ly, hy.Mul(hy, ln))
				}
			}
			if total.Sign() == 0 {
				return
			}
			wx, wy = new(big.Float).SetPrec(ref.Prec).Quo(lx, total), new(big.Float).SetPrec(ref.Prec).Quo(ly, total)
		}
		tol := float64(3*nseg+8) * u * scale
		var g1, g2, g3 geom.Coord
		var err error
		if pn, stack := engine.Guard(func() {
			g1 = xy.PolygonsCentroid(polys[0], polys[1:]...)
			g2 = xy.MultiPolygonCentroid(geom.NewMultiPolygonFlat(l, mpFlat, endss).SetSRID(srid))
			if len(polys) == 1 {
				g3, err = xy.Centroid(polys[0])
			} else {
				g3, err = xy.Centroid(geom.NewMultiPolygonFlat(l, mpFlat, endss).SetSRID(srid))
			}
		}); pn != nil {
			fail("panic", fmt.Sprintf("panic %v\n%s", pn, firstLines(stack, 10)))
			return
		}
		if err != nil {
			fail("centroid-error", err.Error())
			return
		}
		tag := "area"
		if zeroArea {
			tag = "zero-area-fallback"
		}
		if !checkXY(tag+"/polygons", g1, wx, wy, tol) || !checkXY(tag+"/multipolygon", g2, wx, wy, tol) || !checkXY(tag+"/centroid", g3, wx, wy, tol) {
			return
		}
		// the members of ONE multipolygon (views of its storage, each with the others' coordinates in
		// its spare capacity) handed to PolygonsCentroid in every order: same centroid, and the
		// multipolygon's storage is the caller's - it must be bit-identical afterwards
		// (only inside the quantifier's grid extent of 10^5: beyond it the answer of the fan-of-
		// triangles algorithm legitimately depends on which member supplies the base point)
		ext := 0.0
		for _, r := range cs.Rings {
			for i := range r {
				for j := range cs.Rings[0] {
					if i%2 == j%2 {
						ext = math.Max(ext, math.Abs(float64(r[i])-float64(cs.Rings[0][j])))
					}
				}
			}
		}
		if len(polys) >= 2 && len(polys) <= 3 && ext <= 1e5 {
			mp := geom.NewMultiPolygonFlat(l, append([]float64{}, mpFlat...), endss)
			before := append([]float64{}, mp.FlatCoords()...)
			perms := [][]int{{0, 1}, {1, 0}}
			if len(polys) == 3 {
				perms = [][]int{{0, 1, 2}, {0, 2, 1}, {1, 0, 2}, {1, 2, 0}, {2, 0, 1}, {2, 1, 0}}
			}
			for _, pm := range perms {
				var gv geom.Coord
				if pn, _ := engine.Guard(func() {
					views := make([]*geom.Polygon, len(pm))
					for i, k := range pm {
						views[i] = mp.Polygon(k)
					}
					gv = xy.PolygonsCentroid(views[0], views[1:]...)
				}); pn != nil {
					fail("views-panic", fmt.Sprintf("PolygonsCentroid on member views %v panicked: %v", pm, pn))
					return
				}
				if !eqBits(mp.FlatCoords(), before) {
					fail("views-input-modified", fmt.Sprintf("PolygonsCentroid(mp.Polygon(i) in order %v) changed the multipolygon's coordinates", pm))
					return
				}
				if !checkXY(fmt.Sprintf("%s/member-views", tag), gv, wx, wy, tol) {
					return
				}
				c.Count("member_view_orders", 1)
			}
		}
		if zeroArea {
			c.Count("zero_area_fallbacks", 1)
		} else {
			c.Count("area_centroids", 1)
			if len(cs.Rings) > len(cs.Counts) {
				c.Count("with_holes", 1)
			}
		}
		c.DistinctStr(fmt.Sprint("P", cs.Rings, cs.Counts, l))
	}
	c.Sample(cs.Mode, 2, cs)
}

func ringF(pts []ref.P2, off float64) []ref.F {
	out := make([]ref.F, 0, 2*len(pts)+2)
	for _, p := range pts {
		out = append(out, ref.F(p.X+off), ref.F(p.Y+off))
	}
	return out
}

func rot(pts []ref.P2, k int, reverse bool) []ref.P2 {
	n := len(pts)
	out := make([]ref.P2, 0, n+1)
	for i := 0; i < n; i++ {
		j := (k + i) % n
		if reverse {
			j = ((k-i)%n + n) % n
		}
		out = append(out, pts[j])
	}
	return append(out, out[0])
}

func c14Run(c *engine.Ctx) {
	offsets := []float64{0, 1e5, math.Ldexp(1, 30)}
	layouts := []geom.Layout{geom.XY, geom.XYZ, geom.XYZM, geom.Layout(5)}
	var g4 []ref.P2
	for x := 0; x < 4; x++ {
		for y := 0; y < 4; y++ {
			g4 = append(g4, ref.P2{X: float64(x), Y: float64(y)})
		}
	}
	idx := make([]int, 16)
	for i := range idx {
		idx[i] = i
	}
	maxPts := 4
	maxRing := 5
	if c.Thorough() {
		maxPts, maxRing = 4, 6
	}
	seqs := ref.Seqs(idx, maxPts)[1:]
	c.Parallel(len(seqs), func(i int) {
		var pts []ref.P2
		for _, k := range seqs[i] {
			pts = append(pts, g4[k])
		}
		off := offsets[i%3]
		l := layouts[i%4]
		c14Exec(c, c14Case{Mode: "points", Layout: l, Rings: [][]ref.F{ringF(pts, off)}})
		if len(pts) >= 2 {
			c14Exec(c, c14Case{Mode: "lines", Layout: l, Rings: [][]ref.F{ringF(pts, off)}})
			// a pair: this polyline and a fixed second one
			c14Exec(c, c14Case{Mode: "lines", Layout: layouts[(i+1)%4], Rings: [][]ref.F{ringF(pts, off), ringF([]ref.P2{{X: 1, Y: 0}, {X: 3, Y: 2}, {X: 3, Y: 2}, {X: 0, Y: 3}}, off)}})
		}
	})
	// simple rings: enumerate vertex sequences with a canonical start (smallest index first) and
	// generate every rotation and both directions explicitly
	var rings [][]ref.P2
	var rec func(cur []int, n int)
	rec = func(cur []int, n int) {
		if len(cur) == n {
			pts := make([]ref.P2, n)
			for i, k := range cur {
				pts[i] = g4[k]
			}
			closed := append(append([]ref.P2{}, pts...), pts[0])
			if ref.SimpleRing(closed) {
				rings = append(rings, pts)
			}
			return
		}
		for k := 0; k < 16; k++ {
			if len(cur) > 0 && k <= cur[0] {
				continue // canonical: first vertex has the smallest index
			}
			dup := false
			for _, q := range cur {
				if q == k {
					dup = true
				}
			}
			if !dup {
				rec(append(cur, k), n)
			}
		}
	}
	for n := 3; n <= maxRing; n++ {
		for first := 0; first < 16; first++ {
			rec([]int{first}, n)
		}
	}
	c.Note("simple_rings_canonical", len(rings))
	c.Parallel(len(rings), func(i int) {
		r := rings[i]
		for k := range r {
			for _, rev := range []bool{false, true} {
				closed := rot(r, k, rev)
				off := offsets[(i+k)%3]
				l := layouts[(i+k)%4]
				c14Exec(c, c14Case{Mode: "ring", Layout: l, Rings: [][]ref.F{ringF(closed[:len(closed)], off)}})
				c14Exec(c, c14Case{Mode: "polygons", Layout: l, Rings: [][]ref.F{ringF(closed, off)}, Counts: []int{1}})
				// the same ring as a HOLE (convex or not, either direction, every start vertex) of a
				// square shell around the grid, the shell in either direction
				shell := rot([]ref.P2{{X: -1, Y: -1}, {X: 4, Y: -1}, {X: 4, Y: 4}, {X: -1, Y: 4}}, (i+k)%4, (i+k)%2 == 0)
				c.Count("simple_rings_as_holes", 1)
				c14Exec(c, c14Case{Mode: "polygons", Layout: l, Rings: [][]ref.F{ringF(shell, off), ringF(closed, off)}, Counts: []int{2}})
			}
		}
	})
	// many points / long polylines: every count 1..70, and counts around powers of two and around
	// 4096/3 and 8192/3 (a sum that is blocked or unrolled by ordinates instead of by coordinates
	// misaligns for strides that do not divide the block), in all four layouts
	var bigCounts []int
	for n := 1; n <= 70; n++ {
		bigCounts = append(bigCounts, n)
	}
	for _, n := range []int{100, 127, 128, 129, 255, 256, 257, 511, 512, 513, 682, 683, 1000, 1023, 1024, 1025, 1365, 1366, 1367, 2047, 2048, 2049, 2730, 2731, 4095, 4096, 4097, 5000, 8191, 8192, 8193} {
		bigCounts = append(bigCounts, n)
	}
	if c.Thorough() {
		bigCounts = append(bigCounts, 16383, 16384, 16385, 32769, 65537)
	}
	c.Note("big_point_counts", len(bigCounts))
	c.Parallel(len(bigCounts)*4, func(i int) {
		n, l := bigCounts[i/4], layouts[i%4]
		pts := make([]ref.P2, n)
		for k := range pts {
			pts[k] = ref.P2{X: float64((k*7919)%1009) - 300, Y: float64((k*104729+k*k)%997) + 0.5*float64(k%2)}
		}
		off := offsets[i%3]
		c14Exec(c, c14Case{Mode: "points", Layout: l, Rings: [][]ref.F{ringF(pts, off)}})
		c.Count("big_point_sets", 1)
		if n >= 2 && n <= 4097 {
			c14Exec(c, c14Case{Mode: "lines", Layout: l, Rings: [][]ref.F{ringF(pts, off)}})
			c.Count("big_polylines", 1)
		}
	})
	// rings with many vertices: convex lattice hulls (up to ~40 vertices from 200 points) around
	// each offset, every start vertex, both directions
	for _, m := range []int{37, 1009, 65521} {
		var pts []ref.P2
		for k := 0; k < 200; k++ {
			pts = append(pts, ref.P2{X: float64((k * 7919) % m), Y: float64((k*104729 + k*k) % m)})
		}
		h := ref.Hull(pts)
		if len(h) < 3 {
			continue
		}
		for k := range h {
			for _, rev := range []bool{false, true} {
				closed := rot(h, k, rev)
				off := offsets[k%3]
				l := layouts[k%4]
				c.Count("large_rings", 1)
				c14Exec(c, c14Case{Mode: "ring", Layout: l, Rings: [][]ref.F{ringF(closed, off)}})
				c14Exec(c, c14Case{Mode: "polygons", Layout: l, Rings: [][]ref.F{ringF(closed, off)}, Counts: []int{1}})
				c14Exec(c, c14Case{Mode: "lines", Layout: l, Rings: [][]ref.F{ringF(closed, off)}})
			}
		}
	}
	// three and four polylines in one multi-line: every chain A = (p0 p1), B = (p1 p2) starting
	// where A ends, C = (q0 q1) anywhere on the 3x3 grid (touching, crossing, apart, zero length),
	// in the orders A B C, C A B, A C B, and with a fourth member that starts where C ends
	var g3c []ref.P2
	for x := 0; x < 3; x++ {
		for y := 0; y < 3; y++ {
			g3c = append(g3c, ref.P2{X: float64(x), Y: float64(y)})
		}
	}
	c.Parallel(81, func(i int) {
		p0, p1 := g3c[i/9], g3c[i%9]
		for _, p2 := range g3c {
			for _, q0 := range g3c {
				for _, q1 := range g3c {
					if p0 == p1 && p1 == p2 && q0 == q1 {
						continue // no length at all
					}
					off := offsets[(i+int(q0.X))%3]
					l := layouts[(i+int(q1.Y))%4]
					a, b, cc := ringF([]ref.P2{p0, p1}, off), ringF([]ref.P2{p1, p2}, off), ringF([]ref.P2{q0, q1}, off)
					d := ringF([]ref.P2{q1, p0, p2}, off)
					for _, rs := range [][][]ref.F{{a, b, cc}, {cc, a, b}, {a, cc, b}, {a, b, cc, d}} {
						c.Count("chained_multi_lines", 1)
						c14Exec(c, c14Case{Mode: "lines", Layout: l, Rings: rs})
					}
				}
			}
		}
	})
	// very large rings (beyond any block size a divided sum might use): the zig-zag tower of C11
	// with 4103, 20003 (thorough 66003) coordinates, both directions, two start vertices; as a
	// ring (direction, signed area), as a polygon, and as a polygon with a unit-square hole
	towerNs := []int{2050, 10000}
	if c.Thorough() {
		towerNs = append(towerNs, 33000)
	}
	type towerJob struct{ n, rev, rot int }
	var towers []towerJob
	for _, n := range towerNs {
		for rev := 0; rev < 2; rev++ {
			for _, rot := range []int{0, n + 7} {
				towers = append(towers, towerJob{n, rev, rot})
			}
		}
	}
	c.Parallel(len(towers), func(i int) {
		j := towers[i]
		ring := c11Tower(j.n, j.rev, j.rot)
		l := layouts[i%4]
		hole := ringF(rot([]ref.P2{{X: 4, Y: 1}, {X: 5, Y: 1}, {X: 5, Y: 2}, {X: 4, Y: 2}}, i%4, j.rev == 0), 0)
		c.Count("tower_rings", 1)
		c14Exec(c, c14Case{Mode: "ring", Layout: l, Rings: [][]ref.F{ring}})
		c14Exec(c, c14Case{Mode: "polygons", Layout: l, Rings: [][]ref.F{ring}, Counts: []int{1}})
		c14Exec(c, c14Case{Mode: "polygons", Layout: l, Rings: [][]ref.F{ring, hole}, Counts: []int{2}})
		c14Exec(c, c14Case{Mode: "lines", Layout: l, Rings: [][]ref.F{ring}})
	})
	// slivers: valid polygons whose area is tiny relative to their perimeter (the zero-area
	// fallback must not be taken for them)
	for _, N := range []float64{10, 1000, 1e5, 1 << 20, 1 << 26} {
		for _, tri := range [][]ref.P2{
			{{X: 0, Y: 0}, {X: N, Y: 1}, {X: N - 1, Y: 1}},
			{{X: 0, Y: 0}, {X: N, Y: 0}, {X: N, Y: 1}},
			{{X: 3, Y: 7}, {X: 3 + N, Y: 7 + N}, {X: 3 + N - 1, Y: 7 + N}},
		} {
			for k := range tri {
				for _, rev := range []bool{false, true} {
					c.Count("slivers", 1)
					c14Exec(c, c14Case{Mode: "polygons", Layout: layouts[k%4], Rings: [][]ref.F{ringF(rot(tri, k, rev), 0)}, Counts: []int{1}})
					// as a multipolygon member next to a unit square far away
					sq := []ref.P2{{X: -10, Y: -10}, {X: -9, Y: -10}, {X: -9, Y: -9}, {X: -10, Y: -9}}
					c14Exec(c, c14Case{Mode: "polygons", Layout: geom.XY, Rings: [][]ref.F{ringF(rot(tri, k, rev), 0), ringF(rot(sq, 0, !rev), 0)}, Counts: []int{1, 1}})
				}
			}
		}
	}
	// polygons with holes on a larger grid
	n := 6
	if c.Thorough() {
		n = 8
	}
	type shape struct{ pts []ref.P2 }
	var shells []shape
	for x0 := 0; x0 < n; x0++ {
		for y0 := 0; y0 < n; y0++ {
			for x1 := x0 + 2; x1 < n; x1++ {
				for y1 := y0 + 2; y1 < n; y1++ {
					shells = append(shells, shape{[]ref.P2{{X: float64(x0), Y: float64(y0)}, {X: float64(x1), Y: float64(y0)}, {X: float64(x1), Y: float64(y1)}, {X: float64(x0), Y: float64(y1)}}})
				}
			}
		}
	}
	// big lattice triangles
	for _, t := range [][3][2]int{{{0, 0}, {n - 1, 0}, {0, n - 1}}, {{0, 0}, {n - 1, 1}, {1, n - 1}}, {{n - 1, n - 1}, {0, n - 2}, {n - 2, 0}}} {
		shells = append(shells, shape{[]ref.P2{{X: float64(t[0][0]), Y: float64(t[0][1])}, {X: float64(t[1][0]), Y: float64(t[1][1])}, {X: float64(t[2][0]), Y: float64(t[2][1])}}})
	}
	// candidate holes: half-size triangles and quarter squares on the half-integer lattice
	strictlyInside := func(hole, shell []ref.P2) bool {
		sc := append(append([]ref.P2{}, shell...), shell[0])
		for _, p := range hole {
			if ref.Locate(p, sc) != 0 {
				return false
			}
		}
		return true
	}
	var holeCands [][]ref.P2
	for x := 0.5; x < float64(n-1); x += 1 {
		for y := 0.5; y < float64(n-1); y += 1 {
			holeCands = append(holeCands, []ref.P2{{X: x, Y: y}, {X: x + 0.25, Y: y}, {X: x, Y: y + 0.25}})
			holeCands = append(holeCands, []ref.P2{{X: x, Y: y}, {X: x + 0.25, Y: y}, {X: x + 0.25, Y: y + 0.25}, {X: x, Y: y + 0.25}})
		}
	}
	c.Note("shells", len(shells))
	c.Parallel(len(shells), func(i int) {
		sh := shells[i].pts
		var holes [][]ref.P2
		for _, h := range holeCands {
			if strictlyInside(h, sh) {
				holes = append(holes, h)
			}
		}
		off := offsets[i%3]
		l := layouts[i%4]
		for _, srev := range []bool{false, true} {
			shell := ringF(rot(sh, i%len(sh), srev), off)
			c14Exec(c, c14Case{Mode: "polygons", Layout: l, Rings: [][]ref.F{shell}, Counts: []int{1}})
			for hi, h := range holes {
				for _, hrev := range []bool{false, true} {
					h1 := ringF(rot(h, hi%len(h), hrev), off)
					c14Exec(c, c14Case{Mode: "polygons", Layout: l, Rings: [][]ref.F{shell, h1}, Counts: []int{2}})
					// a second hole (quick: the next two candidates; thorough: every second one) in
					// both directions, so that holes of one polygon wind alike and differently, and
					// for the first pair a third hole
					last := len(holes)
					step := 2
					if !c.Thorough() {
						last, step = hi+3, 1
					}
					for hj := hi + 1; hj < len(holes) && hj < last; hj += step {
						// disjoint: distinct cells of the half-integer lattice never touch
						if holes[hj][0] == h[0] {
							continue
						}
						for _, h2rev := range []bool{false, true} {
							h2 := ringF(rot(holes[hj], 0, h2rev), off)
							c.Count("two_hole_polygons", 1)
							c14Exec(c, c14Case{Mode: "polygons", Layout: l, Rings: [][]ref.F{shell, h1, h2}, Counts: []int{3}})
							if hk := hj + 2; hj == hi+1 && hk < len(holes) && holes[hk][0] != h[0] && holes[hk][0] != holes[hj][0] {
								for _, h3rev := range []bool{false, true} {
									h3 := ringF(rot(holes[hk], 1, h3rev), off)
									c14Exec(c, c14Case{Mode: "polygons", Layout: l, Rings: [][]ref.F{shell, h1, h2, h3}, Counts: []int{4}})
								}
							}
						}
					}
				}
			}
			// multipolygon: this shell (with its first hole) and a disjoint copy shifted right by n+1
			shifted := make([]ref.P2, len(sh))
			for k, p := range sh {
				shifted[k] = ref.P2{X: p.X + float64(n+1), Y: p.Y + 1}
			}
			rs := [][]ref.F{shell}
			counts := []int{1}
			if len(holes) > 0 {
				rs = append(rs, ringF(rot(holes[0], 0, srev), off))
				counts = []int{2}
			}
			rs = append(rs, ringF(rot(shifted, 1%len(shifted), !srev), off))
			counts = append(counts, 1)
			c14Exec(c, c14Case{Mode: "polygons", Layout: l, Rings: rs, Counts: counts})
			// and a third member: a lattice triangle further right
			far := float64(2*n + 3)
			tri := []ref.P2{{X: far, Y: 0}, {X: far + 2, Y: 1}, {X: far + 1, Y: 3}}
			rs3 := append(append([][]ref.F{}, rs...), ringF(rot(tri, 0, srev), off))
			c14Exec(c, c14Case{Mode: "polygons", Layout: l, Rings: rs3, Counts: append(append([]int{}, counts...), 1)})
		}
	})
	// zero-area polygons: collinear rings (need >= 3 distinct points for the direction test)
	for _, r := range [][]ref.P2{
		{{X: 0, Y: 0}, {X: 2, Y: 2}, {X: 1, Y: 1}},
		{{X: 0, Y: 0}, {X: 3, Y: 0}, {X: 1, Y: 0}},
		{{X: 1, Y: 3}, {X: 1, Y: 0}, {X: 1, Y: 2}, {X: 1, Y: 1}},
	} {
		for k := range r {
			for _, rev := range []bool{false, true} {
				for _, off := range offsets {
					c14Exec(c, c14Case{Mode: "polygons", Layout: geom.XY, Rings: [][]ref.F{ringF(rot(r, k, rev), off)}, Counts: []int{1}})
				}
			}
		}
	}
	// zero-area polygons that are not collinear: a bent path walked out and back (A B C B A and
	// A B C D C B A), every path of 3 vertices and every fourth path of 4 vertices on the 3x3 grid with
	// distinct consecutive vertices, from either end; alone and next to a collinear zero-area member
	var g3 []ref.P2
	for x := 0; x < 3; x++ {
		for y := 0; y < 3; y++ {
			g3 = append(g3, ref.P2{X: float64(x), Y: float64(y)})
		}
	}
	var paths [][]ref.P2
	for _, a := range g3 {
		for _, b := range g3 {
			for _, cc := range g3 {
				if a == b || b == cc {
					continue
				}
				paths = append(paths, []ref.P2{a, b, cc})
				for k, d := range g3 {
					if d != cc && (k+len(paths))%4 == 0 {
						paths = append(paths, []ref.P2{a, b, cc, d})
					}
				}
			}
		}
	}
	c.Note("out_and_back_paths", len(paths))
	c.Parallel(len(paths), func(i int) {
		pth := paths[i]
		ring := append([]ref.P2{}, pth...)
		for k := len(pth) - 2; k >= 1; k-- {
			ring = append(ring, pth[k])
		}
		off := offsets[i%3]
		l := layouts[i%4]
		c.Count("out_and_back_rings", 1)
		c14Exec(c, c14Case{Mode: "polygons", Layout: l, Rings: [][]ref.F{ringF(append(ring, ring[0]), off)}, Counts: []int{1}})
		flatLine := []ref.P2{{X: 5, Y: 5}, {X: 8, Y: 5}, {X: 6, Y: 5}, {X: 5, Y: 5}}
		c14Exec(c, c14Case{Mode: "polygons", Layout: l, Rings: [][]ref.F{ringF(append(ring, ring[0]), off), ringF(flatLine, off)}, Counts: []int{1, 1}})
	})
	for _, k := range []string{"point_centroids", "line_centroids", "rings", "area_centroids", "with_holes", "zero_area_fallbacks"} {
		if c.Get(k) == 0 {
			c.Warn("vacuous: class " + k + " is empty")
		}
	}
}
