package checks

import (
	"encoding/json"
	"fmt"
	"math"
	"strings"

	"github.com/twpayne/go-geom"

	"verif/engine"
	"verif/ref"
)

// C16 — Clone returns an equal geometry that shares no storage.

type c16Case struct {
	G     *ref.G   `json:"g,omitempty"`
	Build string   `json:"build"` // setcoords | flatcap | emptyslices | bounds | coord
	Ops   []int    `json:"ops"`
	Names []string `json:"op_names,omitempty"`
	// Pre (bounds only): operations applied to the original BEFORE it is cloned, so that values
	// reached by a history (layout promoted by Extend, more dimensions than the layout after Set)
	// are cloned too
	Pre []int `json:"pre_ops,omitempty"`
}

func init() {
	engine.Register(&engine.Check{
		ID: "C16", Level: "model_checking",
		Rule:   "for every geometry of the universe U (7 cloneable types x 6 layouts, built by SetCoords, by New*Flat with spare capacity, and with empty-but-non-nil slices) plus points, lines and multipoints whose ordinates are all (or singly) one of 9 special floats, plus larger structures (6..33 polygons / 12..66 parts / 18..99 points), Coord and Bounds: c=g.Clone(); equality of type/layout/SRID/structure/bits; then every mutation history of depth <=2 (quick) / <=3 (thorough) over {overwrite all ordinates incl. spare capacity, overwrite all end offsets incl. spare capacity, Push, Reverse, SetCoords, SetSRID, TransformInPlace} x {original, clone}; after every transition the full state (incl. capacity contents) of the side not operated on must be unchanged. state = (geometry, construction, history) Also: Bounds cloned after every pre-history of <=2 operations (layout promoted by Extend, more stored dimensions than the layout after Set). Round 7: every layout-less (NoLayout) empty geometry in all three constructions, compared through the flat accessors, Reverse under a watchdog. Round 8: clone of a geometry whose last end offset was made smaller through Ends()/Endss() before cloning. Round 10: multipolygons and polygons with 65..129 rings (rows of end offsets beyond a small block).",
		Run:    c16Run,
		Replay: func(c *engine.Ctx, kind string, raw json.RawMessage) { c16Exec(c, decodeCase[c16Case](raw)) },
		Assumptions: []string{
			"nil-versus-empty identity of the clone's slices is not demanded (the property asks for equal structure and bits)",
			"GeometryCollection has no Clone method and is outside the quantifier",
		},
	})
}

// fullKey is the complete storage state reachable through the accessors, including the
// contents of spare capacity.
func fullKey(t geom.T) string {
	var sb strings.Builder
	fc := t.FlatCoords()
	fmt.Fprintf(&sb, "%T l=%d st=%d srid=%d len=%d cap=%d f=", t, t.Layout(), t.Stride(), t.SRID(), len(fc), cap(fc))
	for _, v := range fc[:cap(fc)] {
		fmt.Fprintf(&sb, "%x,", math.Float64bits(v))
	}
	e := t.Ends()
	fmt.Fprintf(&sb, " e(len=%d)=%v", len(e), e[:cap(e)])
	ee := t.Endss()
	fmt.Fprintf(&sb, " ee(len=%d)=", len(ee))
	for _, row := range ee[:cap(ee)] {
		fmt.Fprintf(&sb, "[%d]%v", len(row), row[:cap(row)])
	}
	return sb.String()
}

// structKey is the structure of a geometry through the flat accessors (no capacity, no nil-versus-empty).
func structKey(t geom.T) string {
	var sb strings.Builder
	fmt.Fprintf(&sb, "%T l=%d st=%d srid=%d f=", t, t.Layout(), t.Stride(), t.SRID())
	for _, v := range t.FlatCoords() {
		fmt.Fprintf(&sb, "%x,", math.Float64bits(v))
	}
	fmt.Fprintf(&sb, " e=%v ee=", t.Ends())
	for _, row := range t.Endss() {
		fmt.Fprintf(&sb, "%v", row)
	}
	return sb.String()
}

func withCap(fs []float64, extra int) []float64 {
	out := make([]float64, len(fs), len(fs)+extra)
	copy(out, fs)
	spare := out[len(fs):cap(out)]
	for i := range spare {
		spare[i] = 4242
	}
	return out
}

func intsCap(is []int, extra int) []int {
	out := make([]int, len(is), len(is)+extra)
	copy(out, is)
	spare := out[len(is):cap(out)]
	for i := range spare {
		spare[i] = 4242
	}
	return out
}

func c16Build(cs c16Case) geom.T {
	g := cs.G
	var t geom.T
	switch cs.Build {
	case "setcoords":
		t = g.MustBuild()
	case "flatcap", "emptyslices", "shortend":
		flat, ends, endss := g.Flat()
		extra := g.Layout.Stride() + 1
		if cs.Build == "emptyslices" {
			extra = 0
			if flat == nil {
				flat = []float64{}
			}
			if ends == nil {
				ends = []int{}
			}
			if endss == nil {
				endss = [][]int{}
			}
		} else {
			flat = withCap(flat, extra)
			if ends != nil {
				ends = intsCap(ends, 2)
			}
			if endss != nil {
				n := make([][]int, len(endss), len(endss)+1)
				for i, r := range endss {
					n[i] = intsCap(r, 2)
				}
				endss = n
			}
		}
		switch g.Kind {
		case ref.Point:
			t = geom.NewPointFlat(g.Layout, flat)
		case ref.LineString:
			t = geom.NewLineStringFlat(g.Layout, flat)
		case ref.LinearRing:
			t = geom.NewLinearRingFlat(g.Layout, flat)
		case ref.Polygon:
			t = geom.NewPolygonFlat(g.Layout, flat, ends)
		case ref.MultiLineString:
			t = geom.NewMultiLineStringFlat(g.Layout, flat, ends)
		case ref.MultiPoint:
			if ends == nil {
				ends = []int{}
			}
			t = geom.NewMultiPointFlat(g.Layout, flat, geom.NewMultiPointFlatOptionWithEnds(ends))
		case ref.MultiPolygon:
			t = geom.NewMultiPolygonFlat(g.Layout, flat, endss)
		}
	}
	if cs.Build == "shortend" {
		// the caller wrote a smaller last end offset through Ends()/Endss() (one of the mutations the
		// property names) BEFORE cloning: one coordinate now lies behind the last end
		st := g.Layout.Stride()
		if e := t.Ends(); len(e) > 0 && e[len(e)-1] >= st && (len(e) == 1 || e[len(e)-1]-st >= e[len(e)-2]) {
			e[len(e)-1] -= st
		}
		if ee := t.Endss(); len(ee) > 0 {
			if e := ee[len(ee)-1]; len(e) > 0 && e[len(e)-1] >= st && (len(e) == 1 || e[len(e)-1]-st >= e[len(e)-2]) {
				e[len(e)-1] -= st
			}
		}
	}
	if _, err := geom.SetSRID(t, 4326); err != nil {
		panic(err)
	}
	return t
}

type c16Op struct {
	name  string
	apply func(t geom.T, other geom.T, otherKey func() string) string
}

const sentinel = -777.25

func c16Ops() []c16Op {
	return []c16Op{
		{"overwrite ordinates (incl. spare capacity)", func(t, _ geom.T, _ func() string) string {
			fc := t.FlatCoords()
			fc = fc[:cap(fc)]
			for i := range fc {
				fc[i] = sentinel
			}
			return ""
		}},
		{"overwrite end offsets (incl. spare capacity), check, restore", func(t, _ geom.T, otherKey func() string) string {
			before := otherKey()
			var saved [][]int
			var slices [][]int
			e := t.Ends()
			slices = append(slices, e[:cap(e)])
			ee := t.Endss()
			for _, r := range ee[:cap(ee)] {
				slices = append(slices, r[:cap(r)])
			}
			for _, s := range slices {
				saved = append(saved, append([]int{}, s...))
				for i := range s {
					s[i] = -5
				}
			}
			res := ""
			if otherKey() != before {
				res = "writing end offsets through Ends()/Endss() is visible through the other value"
			}
			for k, s := range slices {
				copy(s, saved[k])
			}
			return res
		}},
		{"Push(part)", func(t, _ geom.T, _ func() string) string {
			l := t.Layout()
			n, m := 2, 1 // a geometry without a layout can only take parts without coordinates
			if l == geom.NoLayout {
				n, m = 0, 0
			}
			switch t := t.(type) {
			case *geom.Polygon:
				_ = t.Push(ref.NewLine(ref.LinearRing, l, n, ref.CounterFrom(900)).MustBuild().(*geom.LinearRing))
			case *geom.MultiPoint:
				_ = t.Push(ref.NewPoint(l, l != geom.NoLayout, ref.CounterFrom(900)).MustBuild().(*geom.Point))
			case *geom.MultiLineString:
				_ = t.Push(ref.NewLine(ref.LineString, l, n, ref.CounterFrom(900)).MustBuild().(*geom.LineString))
			case *geom.MultiPolygon:
				_ = t.Push(ref.NewParts(ref.Polygon, l, []int{n, m}, ref.CounterFrom(900)).MustBuild().(*geom.Polygon))
			}
			return ""
		}},
		{"Reverse", func(t, _ geom.T, _ func() string) string {
			rev := func() {
				switch t := t.(type) {
				case *geom.LineString:
					t.Reverse()
				case *geom.LinearRing:
					t.Reverse()
				case *geom.Polygon:
					t.Reverse()
				case *geom.MultiPoint:
					t.Reverse()
				case *geom.MultiLineString:
					t.Reverse()
				case *geom.MultiPolygon:
					t.Reverse()
				}
			}
			if t.Stride() == 0 {
				return reverseReturns(rev)
			}
			rev()
			return ""
		}},
		{"SetCoords(new)", func(t, _ geom.T, _ func() string) string {
			l := t.Layout()
			f := ref.CounterFrom(500)
			n := 2 // a geometry without a layout can only take coordinate lists without coordinates
			if l == geom.NoLayout {
				n = 0
			}
			switch t := t.(type) {
			case *geom.Point:
				t.MustSetCoords(ref.NewPoint(l, l != geom.NoLayout, f).C0.Floats())
			case *geom.LineString:
				t.MustSetCoords(coordsOf1(ref.NewLine(ref.LineString, l, n, f).C1))
			case *geom.LinearRing:
				t.MustSetCoords(coordsOf1(ref.NewLine(ref.LinearRing, l, n, f).C1))
			case *geom.Polygon:
				t.MustSetCoords([][]geom.Coord{coordsOf1(ref.NewLine(ref.LinearRing, l, n, f).C1)})
			case *geom.MultiPoint:
				t.MustSetCoords(coordsOf1(ref.NewLine(ref.LineString, l, n, f).C1))
			case *geom.MultiLineString:
				t.MustSetCoords([][]geom.Coord{coordsOf1(ref.NewLine(ref.LineString, l, n, f).C1)})
			case *geom.MultiPolygon:
				t.MustSetCoords([][][]geom.Coord{{coordsOf1(ref.NewLine(ref.LinearRing, l, n, f).C1)}})
			}
			return ""
		}},
		{"SetSRID(1)", func(t, _ geom.T, _ func() string) string {
			if _, err := geom.SetSRID(t, 1); err != nil {
				return err.Error()
			}
			return ""
		}},
		{"TransformInPlace(negate)", func(t, _ geom.T, _ func() string) string {
			if t.Stride() == 0 {
				return ""
			}
			geom.TransformInPlace(t, func(c geom.Coord) {
				for i := range c {
					c[i] = -c[i] - 1
				}
			})
			return ""
		}},
	}
}

func coordsOf1(cs []ref.C) []geom.Coord {
	out := make([]geom.Coord, len(cs))
	for i, c := range cs {
		out[i] = c.Floats()
	}
	return out
}

func c16Exec(c *engine.Ctx, cs c16Case) {
	c.Count("evaluations", 1)
	if cs.Build == "bounds" || cs.Build == "coord" {
		c16ExecOther(c, cs)
		return
	}
	ops := c16Ops()
	names := make([]string, len(cs.Ops))
	for i, o := range cs.Ops {
		side := "orig"
		if o%2 == 1 {
			side = "clone"
		}
		names[i] = side + ": " + ops[o/2].name
	}
	cs.Names = names
	keyBase := fmt.Sprintf("%s/%s/%s", cs.G.Kind, cs.G.Layout, cs.Build)
	fail := func(what, desc string) {
		c.Violate(keyBase+"/"+what, fmt.Sprintf("%s; history %v; model=%s", desc, names, cs.G), "c16", cs)
	}
	p, stack := engine.Guard(func() {
		a := c16Build(cs)
		b := cloneOf(a)
		if len(cs.Ops) == 0 {
			// equality right after Clone
			if fmt.Sprintf("%T", a) != fmt.Sprintf("%T", b) {
				fail("type", "clone has a different type")
				return
			}
			if b.Layout() != a.Layout() || b.Stride() != a.Stride() || b.SRID() != a.SRID() {
				fail("header", fmt.Sprintf("clone layout/stride/srid %v/%d/%d, original %v/%d/%d", b.Layout(), b.Stride(), b.SRID(), a.Layout(), a.Stride(), a.SRID()))
				return
			}
			if a.Layout() == geom.NoLayout || cs.Build == "shortend" {
				// nested coordinates are not read for a geometry without a layout (Coords() divides
				// by the stride; DESIGN.md section 7, item 1): the structure is compared through the flat accessors
				if structKey(a) != structKey(b) {
					fail("unequal", fmt.Sprintf("clone differs from original: %s vs %s", structKey(b), structKey(a)))
					return
				}
				if err := ref.WellFormed(b); err != nil && cs.Build != "shortend" {
					fail("ill-formed", err.Error())
				}
				return
			}
			want, _ := ref.Observe(a)
			want2 := cs.G.Clone()
			want2.SRID = 4326
			if d := observeEq(b, want, ref.EqualOpt{}); d != "" {
				fail("unequal", "clone differs from original: "+d)
				return
			}
			if d := observeEq(b, want2, ref.EqualOpt{}); d != "" {
				fail("unequal-model", "clone differs from model: "+d)
				return
			}
			if err := ref.WellFormed(b); err != nil {
				fail("ill-formed", err.Error())
			}
			return
		}
		for i, o := range cs.Ops {
			t, other := a, b
			if o%2 == 1 {
				t, other = b, a
			}
			before := fullKey(other)
			if d := ops[o/2].apply(t, other, func() string { return fullKey(other) }); d != "" {
				fail(classify(ops[o/2].name)+"/op", d)
				return
			}
			if fullKey(other) != before {
				fail(classify(ops[o/2].name)+"/aliased", fmt.Sprintf("step %d (%s) changed the other value: before %s after %s", i, names[i], before, fullKey(other)))
				return
			}
		}
	})
	if p != nil {
		fail("panic", fmt.Sprintf("panic %v\n%s", p, firstLines(stack, 14)))
		return
	}
	c.Count("transitions", int64(len(cs.Ops)))
	if cs.G.NumOrdinates() > 0 {
		c.DistinctStr(mustJSON(cs))
	}
	if len(cs.Ops) > 0 {
		c.Sample(cs.Build, 1, cs)
	}
}

type boundsKey struct {
	Layout   geom.Layout
	Min, Max []uint64
}

func bKey(b *geom.Bounds) string {
	k := boundsKey{Layout: b.Layout()}
	// every stored dimension, which can be more than the layout names (Set extends the stored
	// minima and maxima without touching the layout)
	for i := 0; i < 12; i++ {
		var lo, hi float64
		if p, _ := engine.Guard(func() { lo, hi = b.Min(i), b.Max(i) }); p != nil {
			break
		}
		k.Min = append(k.Min, math.Float64bits(lo))
		k.Max = append(k.Max, math.Float64bits(hi))
	}
	return mustJSON(k)
}

// c16BoundsOps is the mutation alphabet of Bounds.
func c16BoundsOps(layout geom.Layout) []func(x *geom.Bounds) {
	return []func(x *geom.Bounds){
		func(x *geom.Bounds) { x.Extend(ref.NewPoint(layout, true, ref.CounterFrom(-50)).MustBuild()) },
		func(x *geom.Bounds) {
			args := make([]float64, 2*layout.Stride())
			for i := range args {
				args[i] = float64(1000 + i)
			}
			x.Set(args...)
		},
		func(x *geom.Bounds) {
			n := x.Layout().Stride()
			lo, hi := make(geom.Coord, n), make(geom.Coord, n)
			for i := range lo {
				lo[i], hi[i] = -9, 9
			}
			x.SetCoords(lo, hi)
		},
		func(x *geom.Bounds) { x.Extend(ref.NewPoint(geom.XYZM, true, ref.CounterFrom(70)).MustBuild()) },
		// Set with one more dimension than the layout has: the stored minima/maxima grow
		func(x *geom.Bounds) {
			n := x.Layout().Stride() + 1
			args := make([]float64, 2*n)
			for i := range args {
				args[i] = float64(-0.5 + float64(3*i))
			}
			x.Set(args...)
		},
	}
}

// c16ExecOther handles Bounds and Coord: ops 0..: side = o%2.
func c16ExecOther(c *engine.Ctx, cs c16Case) {
	layout := cs.G.Layout
	fail := func(what, desc string) {
		c.Violate(fmt.Sprintf("%s/%s/%s", cs.Build, layout, what), fmt.Sprintf("%s; pre-ops %v ops %v", desc, cs.Pre, cs.Ops), "c16", cs)
	}
	p, _ := engine.Guard(func() {
		if cs.Build == "coord" {
			a := ref.NewPoint(layout, true, ref.Counter()).C0.Floats()
			a = append(make(geom.Coord, 0, len(a)+2), a...)
			b := a.Clone()
			if !eqBits(a, b) {
				fail("unequal", "Coord.Clone differs")
				return
			}
			for _, o := range cs.Ops {
				t, other := a, b
				if o%2 == 1 {
					t, other = b, a
				}
				before := append(geom.Coord{}, other[:cap(other)]...)
				full := t[:cap(t)]
				for i := range full {
					full[i] = sentinel
				}
				if !eqBits(before, other[:cap(other)]) {
					fail("aliased", "writing a Coord is visible through its clone")
					return
				}
			}
			return
		}
		g := cs.G.MustBuild()
		a := geom.NewBounds(layout).Extend(g)
		bops := c16BoundsOps(layout)
		for _, o := range cs.Pre {
			bops[o](a)
		}
		b := a.Clone()
		if bKey(a) != bKey(b) {
			fail("unequal", "Bounds.Clone differs: "+bKey(a)+" vs "+bKey(b))
			return
		}
		for _, o := range cs.Ops {
			t, other := a, b
			if o%2 == 1 {
				t, other = b, a
			}
			before := bKey(other)
			bops[o/2](t)
			if bKey(other) != before {
				fail("aliased", fmt.Sprintf("Bounds op %d visible through the other value: %s -> %s", o/2, before, bKey(other)))
				return
			}
		}
	})
	if p != nil {
		fail("panic", fmt.Sprintf("panic %v", p))
		return
	}
	c.Count("transitions", int64(len(cs.Ops)))
	c.DistinctStr(mustJSON(cs))
}

func eqBits(a, b []float64) bool {
	if len(a) != len(b) {
		return false
	}
	for i := range a {
		if math.Float64bits(a[i]) != math.Float64bits(b[i]) {
			return false
		}
	}
	return true
}

func c16Run(c *engine.Ctx) {
	depth := 2
	if c.Thorough() {
		depth = 3
	}
	c.Note("max_depth", depth)
	var bases []*ref.G
	for _, l := range ref.LayoutsAll {
		ref.ForEachBase(l, 2, func(g *ref.G) { bases = append(bases, g) })
	}
	// NoLayout: its only well-formed geometries are the empty ones of every type (no coordinates,
	// zero-length parts and members at any position)
	ref.ForEachBase(geom.NoLayout, 2, func(g *ref.G) {
		if g.NumOrdinates() == 0 {
			bases = append(bases, g)
		}
	})
	// larger structures (allocation strategies that only change beyond a few rows/parts)
	for _, l := range []geom.Layout{geom.XY, geom.XYZM} {
		for _, np := range []int{6, 9, 17, 33} {
			var shape [][]int
			for i := 0; i < np; i++ {
				shape = append(shape, [][]int{{2, 1, 2}, {1}, {}, {2, 2}}[i%4])
			}
			bases = append(bases, ref.NewMultiPolygon(l, shape, ref.Counter()))
			sizes := make([]int, np*2)
			for i := range sizes {
				sizes[i] = (i*3 + 1) % 4
			}
			bases = append(bases, ref.NewParts(ref.Polygon, l, sizes, ref.Counter()), ref.NewParts(ref.MultiLineString, l, sizes, ref.Counter()))
			pat := make([]int, np*3)
			for i := range pat {
				pat[i] = (i + 1) % 3
			}
			bases = append(bases, ref.NewMultiPoint(l, pat, ref.Counter()), ref.NewLine(ref.LineString, l, np*5, ref.Counter()))
		}
	}
	// polygons with many rings (a row of end offsets that does not fit a small block): multipolygons
	// with ring counts 60+20, 30+30+30, 3+70+1, 65, 17 x 4, 129, one position per ring
	for _, counts := range [][]int{{60, 20}, {30, 30, 30}, {3, 70, 1}, {65}, {17, 17, 17, 17}, {129}, {1, 16, 17, 64}} {
		var shape [][]int
		for _, n := range counts {
			rings := make([]int, n)
			for i := range rings {
				rings[i] = 1
			}
			shape = append(shape, rings)
		}
		bases = append(bases, ref.NewMultiPolygon(geom.XY, shape, ref.Counter()))
		if len(counts) == 1 {
			bases = append(bases, ref.NewParts(ref.Polygon, geom.XYZ, shape[0], ref.Counter()))
		}
	}
	// special floats: every ordinate of a point, of a 2-point line and of a multipoint set to the
	// same special value (a point whose ordinates all carry the canonical quiet-NaN pattern is the
	// WIRE form of the empty point, but in memory it is a point with coordinates), and one at a time
	for _, l := range ref.Layouts4 {
		for _, sv := range ref.SpecialFloats {
			for _, g := range []*ref.G{ref.NewPoint(l, true, ref.Counter()), ref.NewLine(ref.LineString, l, 2, ref.Counter()), ref.NewMultiPoint(l, []int{1, 0, 1}, ref.Counter())} {
				all := g.Clone()
				all.Ordinates(func(p *ref.F) { *p = ref.F(sv) })
				one := g.Clone()
				k := 0
				one.Ordinates(func(p *ref.F) {
					if k == 1 {
						*p = ref.F(sv)
					}
					k++
				})
				bases = append(bases, all, one)
			}
		}
	}
	nops := 2 * len(c16Ops())
	idx := make([]int, nops)
	for i := range idx {
		idx[i] = i
	}
	hist := ref.Seqs(idx, depth)
	c.Note("histories_per_geometry", len(hist))
	c.Parallel(len(bases), func(i int) {
		g := bases[i]
		if g.NumOrdinates() > 0 && g.Layout != geom.NoLayout {
			c16Exec(c, c16Case{G: g, Build: "shortend"})
		}
		for _, build := range []string{"setcoords", "flatcap", "emptyslices"} {
			if build == "emptyslices" && g.NumOrdinates() > 0 {
				continue
			}
			for _, h := range hist {
				c16Exec(c, c16Case{G: g, Build: build, Ops: h})
			}
		}
	})
	// Bounds and Coord
	bidx := []int{0, 1, 2, 3, 4, 5, 6, 7, 8, 9}
	for _, l := range []geom.Layout{geom.XY, geom.XYZ, geom.XYM, geom.XYZM, geom.Layout(5)} {
		for _, h := range ref.Seqs(bidx, depth) {
			c16Exec(c, c16Case{G: ref.NewLine(ref.LineString, l, 2, ref.Counter()), Build: "bounds", Ops: h})
		}
		// values reached by a history are cloned too: every pre-history of <= 2 operations
		for _, pre := range ref.Seqs([]int{0, 1, 2, 3, 4}, 2)[1:] {
			for _, h := range ref.Seqs(bidx, 1) {
				c16Exec(c, c16Case{G: ref.NewLine(ref.LineString, l, 2, ref.Counter()), Build: "bounds", Pre: pre, Ops: h})
			}
		}
		for _, h := range ref.Seqs([]int{0, 1}, depth) {
			c16Exec(c, c16Case{G: ref.NewPoint(l, true, ref.Counter()), Build: "coord", Ops: h})
		}
	}
	c.Count("states", c.Get("evaluations"))
	c.Count("traces_validated_against_impl", c.Get("evaluations"))
}

var _ = json.Marshal
