package checks

import (
	"encoding/json"
	"fmt"
	"math"

	"github.com/twpayne/go-geom"
	"github.com/twpayne/go-geom/encoding/wkt"

	"verif/engine"
	"verif/ref"
)

// C05 — WKT output round-trips and reads the same in an independent WKT reader; every
// standard spelling parses to the same geometry.

type c05Case struct {
	G     *ref.G        `json:"g"`
	Style *ref.WKTStyle `json:"style,omitempty"` // nil: the library's own encoder output
	// Share: the tree handed to the encoder holds ONE object for all members that are equal
	// (the same *Point, *GeometryCollection ... appears at several places of the tree).
	Share bool `json:"share,omitempty"`
}

// sharedTree rebuilds a collection so that members with the same observable state are one object.
func sharedTree(t geom.T, seen map[string]geom.T) geom.T {
	if gc, ok := t.(*geom.GeometryCollection); ok && gc.NumGeoms() > 0 {
		n := geom.NewGeometryCollection().SetSRID(gc.SRID())
		for _, m := range gc.Geoms() {
			n.MustPush(sharedTree(m, seen))
		}
		t = n
	}
	k := stateKey(t)
	if old, ok := seen[k]; ok {
		return old
	}
	seen[k] = t
	return t
}

func init() {
	engine.Register(&engine.Check{
		ID: "C05", Level: "exploration",
		Rule:   "WKT-expressible corpus: per layout XY/XYZ/XYM/XYZM every Point (empty/1), LineString (0,2,3 points), Polygon (0..3 closed rings of 4/5 points, closing point differing in M), MultiPoint (every present/EMPTY pattern of length 0..6, thorough 7), MultiLineString (every sequence of 0..5 (thorough 6) lines of 0/2/3 points), MultiPolygon (every sequence of 0..5 (thorough 6) polygons over {EMPTY, 1 ring, 2 rings, 3 rings}), collections of 0..3 members over a 9-member menu incl. empty members and nested collections to depth 3, empty collections with a fixed layout; plus a float lattice (+-2^k for all k, +-1 ulp neighbours, 10^k and neighbours, all-ones mantissas, -0) placed in points. (a) wkt.Marshal text (each call preceded by an encode that fails after partial output) parsed by wkt.Unmarshal and by the independent reference reader equals the model bit for bit; (b) every combination of 144 spelling variants (3 cases x 3 whitespace styles x bare/parenthesised multipoint members x attached/detached suffix x 4 number notations) written by the reference writer parses with wkt.Unmarshal to the model. distinct_nontrivial = distinct (geometry, spelling) pairs with at least one coordinate Also: lines that return to their first position in X,Y only or in every ordinate, lines, rings and multilinestring members whose closing position is +0 where the first is -0 (and the reverse) in one ordinate, and the same positions handed to the encoder as a LinearRing (must give the LINESTRING text). Round 7: trees in which equal members are ONE object (the same *GeometryCollection / *Point at several places), and 16 spellings in which all whitespace is one of TAB, LF, CR alone, CRLF. Round 8: lines, multipoints and polygons of 1000 and 20000 positions. Round 9: a point inside 10..500 collections (every depth around 16, 32, 64) in three member shapes; geometries with an SRID set. Round 10: rings and lines whose positions coincide (one-point rings, out-and-back rings, collapsed holes, lines a-a and a-b-a).",
		Run:    c05Run,
		Replay: func(c *engine.Ctx, kind string, raw json.RawMessage) { c05Exec(c, decodeCase[c05Case](raw)) },
		Assumptions: []string{
			"The reference reader/writer (ref/wkt.go) follows the OGC WKT grammar with the dimensionality conventions documented in the library's lexer comments",
		},
	})
}

// closedRing returns a ring of n points (n >= 4) whose last point repeats X,Y,Z of the first but
// carries a fresh M value.
func closedRing(l geom.Layout, n int, f ref.Filler) []ref.C {
	cs := ref.NewLine(ref.LinearRing, l, n, f).C1
	last := cs[n-1]
	copy(last, cs[0])
	if mi := l.MIndex(); mi >= 0 {
		last[mi] = f()
	}
	return cs
}

func wktPolygon(l geom.Layout, ringSizes []int, f ref.Filler) [][]ref.C {
	out := [][]ref.C{}
	for _, n := range ringSizes {
		out = append(out, closedRing(l, n, f))
	}
	return out
}

// wktCorpus: level 0 = the corpus C06 mutates, 1 = C05 quick, 2 = C05 thorough.
func wktCorpus(level int) []*ref.G {
	thorough := level >= 1
	var out []*ref.G
	for _, l := range ref.Layouts4 {
		var simple []*ref.G
		simple = append(simple, ref.NewPoint(l, false, ref.Counter()), ref.NewPoint(l, true, ref.Counter()))
		for _, n := range []int{0, 2, 3} {
			simple = append(simple, ref.NewLine(ref.LineString, l, n, ref.Counter()))
		}
		// lines that return to their first position: in X and Y only, and in every ordinate
		for _, n := range []int{4, 5} {
			loose := ref.NewLine(ref.LineString, l, n, ref.Counter())
			loose.C1[n-1][0], loose.C1[n-1][1] = loose.C1[0][0], loose.C1[0][1]
			full := ref.NewLine(ref.LineString, l, n, ref.Counter())
			copy(full.C1[n-1], full.C1[0])
			simple = append(simple, loose, full)
			// closing position equal to the first one as a number but not as a bit pattern:
			// +0 at the start and -0 at the end of the same ordinate, and the other way round
			for k := 0; k < l.Stride(); k++ {
				for _, neg := range []bool{false, true} {
					z := ref.NewLine(ref.LineString, l, n, ref.Counter())
					copy(z.C1[n-1], z.C1[0])
					z.C1[0][k], z.C1[n-1][k] = 0, ref.F(math.Copysign(0, -1))
					if neg {
						z.C1[0][k], z.C1[n-1][k] = z.C1[n-1][k], z.C1[0][k]
					}
					simple = append(simple, z)
					ring := append([]ref.C{}, z.C1...)
					simple = append(simple, &ref.G{Kind: ref.Polygon, Layout: l, C2: [][]ref.C{ring}},
						&ref.G{Kind: ref.MultiLineString, Layout: l, C2: [][]ref.C{ring, ring}})
				}
			}
		}
		for _, rs := range ref.Seqs([]int{4, 5}, 3) {
			simple = append(simple, &ref.G{Kind: ref.Polygon, Layout: l, C2: wktPolygon(l, rs, ref.Counter())})
		}
		// positions that coincide: a ring whose four positions are one point, a ring that goes out
		// and back (a b b a), a proper shell with such a hole; a line of two equal positions, a line
		// a b a, a line whose two positions differ in the last ordinate only; as multi-geometry members
		{
			pa, pb := ref.NewPoint(l, true, ref.CounterFrom(3)).C0, ref.NewPoint(l, true, ref.CounterFrom(40)).C0
			cp := func(c ref.C) ref.C { return append(ref.C{}, c...) }
			dot := []ref.C{cp(pa), cp(pa), cp(pa), cp(pa)}
			outBack := []ref.C{cp(pa), cp(pb), cp(pb), cp(pa)}
			shell := wktPolygon(l, []int{5}, ref.CounterFrom(100))[0]
			last := cp(pa)
			last[len(last)-1] += 10
			simple = append(simple,
				&ref.G{Kind: ref.Polygon, Layout: l, C2: [][]ref.C{dot}},
				&ref.G{Kind: ref.Polygon, Layout: l, C2: [][]ref.C{outBack}},
				&ref.G{Kind: ref.Polygon, Layout: l, C2: [][]ref.C{shell, dot, outBack}},
				&ref.G{Kind: ref.MultiPolygon, Layout: l, C3: [][][]ref.C{{}, {outBack}, {shell, dot}}},
				&ref.G{Kind: ref.LineString, Layout: l, C1: []ref.C{cp(pa), cp(pa)}},
				&ref.G{Kind: ref.LineString, Layout: l, C1: []ref.C{cp(pa), cp(pb), cp(pa)}},
				&ref.G{Kind: ref.LineString, Layout: l, C1: []ref.C{cp(pa), last}},
				&ref.G{Kind: ref.MultiLineString, Layout: l, C2: [][]ref.C{{}, {cp(pa), cp(pb), cp(pa)}, {cp(pb), cp(pb)}}},
			)
		}
		multiLen := 4 + level
		for _, p := range ref.Seqs([]int{0, 1}, multiLen+1) {
			simple = append(simple, ref.NewMultiPoint(l, p, ref.Counter()))
		}
		for _, s := range ref.Seqs([]int{0, 2, 3}, multiLen) {
			simple = append(simple, ref.NewParts(ref.MultiLineString, l, s, ref.Counter()))
		}
		polyMenu := [][]int{{}, {4}, {4, 5}, {5, 4, 4}}
		for _, s := range ref.SeqsOf(polyMenu, multiLen) {
			f := ref.Counter()
			g := &ref.G{Kind: ref.MultiPolygon, Layout: l, C3: [][][]ref.C{}}
			for _, rs := range s {
				g.C3 = append(g.C3, wktPolygon(l, rs, f))
			}
			simple = append(simple, g)
		}
		out = append(out, simple...)
		for _, dg := range deepCollections(l, 8) {
			fixAll(dg, l)
			out = append(out, dg)
		}
		// collections
		members := wktCollectionMembers(l)
		idx := make([]int, len(members))
		for i := range idx {
			idx[i] = i
		}
		maxLen := 2
		if thorough {
			maxLen = 3
		}
		for _, seq := range ref.Seqs(idx, maxLen) {
			var kids []*ref.G
			for _, i := range seq {
				kids = append(kids, members[i].Clone())
			}
			g := ref.NewCollection(l, kids...)
			out = append(out, g)
			if len(seq) <= 1 || thorough {
				// nest: depth 2 and 3
				d2 := ref.NewCollection(l, g.Clone(), members[0].Clone())
				out = append(out, d2)
				if len(seq) <= 1 {
					out = append(out, ref.NewCollection(l, members[1].Clone(), ref.NewCollection(l, d2.Clone())))
				}
			}
		}
	}
	return out
}

// wktCollectionMembers is the member menu of the collection families.
func wktCollectionMembers(l geom.Layout) []*ref.G {
	return []*ref.G{
		ref.NewPoint(l, true, ref.CounterFrom(10)),
		ref.NewPoint(l, false, ref.Counter()),
		ref.NewLine(ref.LineString, l, 2, ref.CounterFrom(20)),
		ref.NewLine(ref.LineString, l, 0, ref.Counter()),
		{Kind: ref.Polygon, Layout: l, C2: wktPolygon(l, []int{4}, ref.CounterFrom(30))},
		ref.NewMultiPoint(l, []int{0, 1}, ref.CounterFrom(50)),
		ref.NewParts(ref.MultiLineString, l, []int{0, 2}, ref.CounterFrom(60)),
		{Kind: ref.MultiPolygon, Layout: l, C3: [][][]ref.C{{}, wktPolygon(l, []int{4}, ref.CounterFrom(70))}},
		ref.NewCollection(l),
	}
}

// fixAll marks every collection of a model as having the fixed layout l (what the WKT parser produces).
func fixAll(g *ref.G, l geom.Layout) {
	if g.Kind != ref.Collection {
		return
	}
	g.Fixed, g.Layout = l, l
	for _, k := range g.Kids {
		fixAll(k, l)
	}
}

// floatLattice returns the formatting boundary floats.
func floatLattice(thorough bool) []float64 {
	var out []float64
	add := func(v float64) {
		if !math.IsNaN(v) && !math.IsInf(v, 0) {
			out = append(out, v, -v)
		}
	}
	step := 7
	if thorough {
		step = 1
	}
	for k := -1074; k <= 1023; k++ {
		v := math.Ldexp(1, k)
		add(v)
		if k%step == 0 || (k >= 30 && k <= 65) || (k >= -5 && k <= 5) {
			add(math.Nextafter(v, math.Inf(1)))
			add(math.Nextafter(v, 0))
		}
	}
	for k := -323; k <= 308; k += step {
		v := math.Pow(10, float64(k))
		add(v)
		add(math.Nextafter(v, math.Inf(1)))
		add(math.Nextafter(v, 0))
	}
	for e := uint64(1); e < 2047; e += uint64(64 * step) {
		add(math.Float64frombits(e<<52 | (1<<52 - 1)))
	}
	add(0)
	add(math.MaxFloat64)
	add(math.SmallestNonzeroFloat64)
	for _, v := range []float64{0.1, 0.2, 0.3, 1.0 / 3, 2.0 / 3, 5e-324, 1.7976931348623157e308, 9007199254740993, 123456789.123456789, 8.41e21, 2.2250738585072011e-308, 4.35, 0.000001, 1e21, 1e20, 123456789012345680000} {
		add(v)
	}
	return out
}

func c05Exec(c *engine.Ctx, cs c05Case) {
	c.Count("evaluations", 1)
	g := cs.G
	mode := "marshal"
	if cs.Style != nil {
		mode = "spelling"
	}
	keyBase := fmt.Sprintf("%s/%s/%s", mode, g.Kind, g.Layout)
	fail := func(what, desc string) { c.Violate(keyBase+"/"+what, desc+" model="+g.String(), "c05", cs) }
	var text string
	if cs.Style == nil {
		t := g.MustBuild()
		if cs.Share {
			t = sharedTree(t, map[string]geom.T{})
		}
		if g.NumOrdinates()%2 == 1 {
			// WKT carries no SRID: one set on the geometry (here on every second case) changes nothing
			if _, err := geom.SetSRID(t, 4326); err != nil {
				panic(err)
			}
		}
		var err error
		failWKT(-1) // two-call history: a failed encode first (see poison.go)
		if p, _ := engine.Guard(func() { text, err = wkt.Marshal(t) }); p != nil {
			fail("marshal-panic", fmt.Sprintf("Marshal panicked: %v", p))
			return
		}
		if err != nil {
			fail("marshal-error", err.Error())
			return
		}
		rg, rerr := ref.ParseWKT(text)
		if rerr != nil {
			fail("ref-rejects", fmt.Sprintf("independent reader rejects encoder output %q: %v", text, rerr))
			return
		}
		if !ref.Equal(rg, g, ref.EqualOpt{}) {
			fail("ref-unequal", fmt.Sprintf("independent reader reads %q as %s", text, rg))
			return
		}
		// WKT has no LINEARRING: the encoder writes a LinearRing as the LINESTRING of the same
		// positions, so the same coordinates handed over as a ring must give the same text
		if g.Kind == ref.LineString {
			ring := &ref.G{Kind: ref.LinearRing, Layout: g.Layout, C1: g.C1}
			var rtext string
			var rerr error
			if p, _ := engine.Guard(func() { rtext, rerr = wkt.Marshal(ring.MustBuild()) }); p != nil || rerr != nil || rtext != text {
				fail("linearring-text", fmt.Sprintf("the same positions as a LinearRing encode to %q (err %v, panic %v), as a LineString to %q", rtext, rerr, p, text))
				return
			}
			c.Count("linearring_texts", 1)
		}
	} else {
		text = ref.WriteWKT(g, *cs.Style)
		rg, rerr := ref.ParseWKT(text)
		if rerr != nil || !ref.Equal(rg, g, ref.EqualOpt{}) {
			panic(fmt.Sprintf("harness error: reference writer/reader disagree on %q: %v %v", text, rg, rerr))
		}
	}
	var back geom.T
	var err error
	if p, stack := engine.Guard(func() { back, err = wkt.Unmarshal(text) }); p != nil {
		fail("unmarshal-panic", fmt.Sprintf("Unmarshal(%q) panicked: %v\n%s", text, p, firstLines(stack, 12)))
		return
	}
	if err != nil {
		fail("unmarshal-error", fmt.Sprintf("Unmarshal(%q): %v", text, err))
		return
	}
	if werr := ref.WellFormed(back); werr != nil {
		fail("ill-formed", werr.Error())
		return
	}
	if d := observeEq(back, g, ref.EqualOpt{}); d != "" {
		fail("unequal", fmt.Sprintf("text %q: %s", text, d))
		return
	}
	c.Count("roundtrips_ok", 1)
	if g.NumOrdinates() > 0 {
		c.DistinctStr(text)
	}
	c.Sample(mode, 3, map[string]any{"text": text, "model": g})
}

func c05Run(c *engine.Ctx) {
	level := 1
	if c.Thorough() {
		level = 2
	}
	corpus := wktCorpus(level)
	c.Note("corpus", len(corpus))
	styles := append(ref.AllWKTStyles(), ref.OneSpaceWKTStyles()...)
	c.Note("spellings", len(styles))
	c.Parallel(len(corpus), func(i int) {
		g := corpus[i]
		c05Exec(c, c05Case{G: g})
		for si := range styles {
			c05Exec(c, c05Case{G: g, Style: &styles[si]})
		}
	})
	// trees in which one object stands at several places: the same member twice side by side, once
	// beside and once inside a nested collection, inside two different nested collections
	c.Parallel(len(ref.Layouts4), func(li int) {
		l := ref.Layouts4[li]
		for _, m := range wktCollectionMembers(l) {
			in := func() *ref.G { return ref.NewCollection(l, m.Clone()) }
			for _, g := range []*ref.G{
				ref.NewCollection(l, m.Clone(), m.Clone()),
				ref.NewCollection(l, m.Clone(), in()),
				ref.NewCollection(l, in(), in()),
				ref.NewCollection(l, in(), m.Clone(), ref.NewCollection(l, in())),
			} {
				c.Count("shared_object_trees", 1)
				c05Exec(c, c05Case{G: g, Share: true})
			}
		}
	})
	// very long texts (beyond any buffer or block of a lexer, parser stack or writer): one line of
	// 1000 / 20000 positions, a multipoint with as many members (every seventh EMPTY), a polygon
	// with a quarter as many 4-position rings, in XY and XYZM
	for _, n := range []int{1000, 20000} {
		for _, l := range []geom.Layout{geom.XY, geom.XYZM} {
			pat := make([]int, n)
			for i := range pat {
				if i%7 != 3 {
					pat[i] = 1
				}
			}
			rs := make([]int, n/4)
			for i := range rs {
				rs[i] = 4
			}
			for _, g := range []*ref.G{
				ref.NewLine(ref.LineString, l, n, ref.Counter()),
				ref.NewMultiPoint(l, pat, ref.Counter()),
				{Kind: ref.Polygon, Layout: l, C2: wktPolygon(l, rs, ref.Counter())},
			} {
				c.Count("very_long_texts", 1)
				c05Exec(c, c05Case{G: g})
				c05Exec(c, c05Case{G: g, Style: &ref.WKTStyle{Space: 2, MPParens: true, Detached: true, Num: 1}})
			}
		}
	}
	// collections nested to any depth: a point inside 10..500 collections (every depth around 16,
	// 32, 64 - the initial sizes of parser and writer stacks), the nested collection as the only
	// member, after a point, and between two points
	for _, d := range []int{10, 14, 15, 16, 17, 18, 19, 30, 31, 32, 33, 34, 63, 64, 65, 66, 100, 129, 200, 500} {
		for _, l := range []geom.Layout{geom.XY, geom.XYZM} {
			for shape := 0; shape < 3; shape++ {
				g := ref.NewCollection(l, ref.NewPoint(l, true, ref.CounterFrom(5)))
				for k := 1; k < d; k++ {
					switch shape {
					case 0:
						g = ref.NewCollection(l, g)
					case 1:
						g = ref.NewCollection(l, ref.NewPoint(l, true, ref.CounterFrom(float64(k))), g)
					default:
						g = ref.NewCollection(l, ref.NewPoint(l, true, ref.CounterFrom(float64(k))), g, ref.NewLine(ref.LineString, l, 2, ref.CounterFrom(float64(2*k))))
					}
				}
				fixAll(g, l)
				c.Count("deeply_nested_collections", 1)
				c05Exec(c, c05Case{G: g})
				c05Exec(c, c05Case{G: g, Style: &ref.WKTStyle{Space: 1, Case: 1}})
			}
		}
	}
	// float lattice: values placed in XYZM points (4 per point) and as closing ordinates of a ring
	lat := floatLattice(true)
	c.Note("float_lattice", len(lat))
	var pts []*ref.G
	for i := 0; i+4 <= len(lat); i += 4 {
		pts = append(pts, &ref.G{Kind: ref.Point, Layout: geom.XYZM, C0: ref.FromFloats(lat[i : i+4])})
	}
	for i := 0; i+2 <= len(lat); i += 2 {
		a, b := ref.F(lat[i]), ref.F(lat[i+1])
		ring := []ref.C{{a, b}, {1, 2}, {3, 4}, {a, b}}
		pts = append(pts, &ref.G{Kind: ref.Polygon, Layout: geom.XY, C2: [][]ref.C{ring}})
	}
	numStyles := []ref.WKTStyle{{Num: 0}, {Num: 1}, {Num: 2}, {Num: 3}, {Num: 1, Case: 1, Space: 2}}
	c.Parallel(len(pts), func(i int) {
		c05Exec(c, c05Case{G: pts[i]})
		for si := range numStyles {
			c05Exec(c, c05Case{G: pts[i], Style: &numStyles[si]})
		}
	})
	if c.Get("roundtrips_ok") == 0 {
		c.Warn("vacuous: nothing compared")
	}
}
