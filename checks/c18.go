package checks

import (
	"bytes"
	"encoding/json"
	"fmt"
	"math"
	"math/big"
	"regexp"
	"strings"

	"github.com/twpayne/go-geom"
	"github.com/twpayne/go-geom/encoding/geojson"
	"github.com/twpayne/go-geom/encoding/wkt"

	"verif/engine"
	"verif/ref"
)

// C18 — decimal-digit limits round correctly and keep output well formed.

type c18Case struct {
	Codec string `json:"codec"` // wkt | geojson
	G     *ref.G `json:"g"`
	D     int    `json:"max_decimal_digits"`
	BBox  int    `json:"bbox,omitempty"` // geojson: 0 none, 1 digits option first, 2 bbox option first
}

func init() {
	engine.Register(&engine.Check{
		ID: "C18", Level: "exploration",
		Rule:        "d in 0..15 x float lattice (every float with <=7 (quick) / <=9 (thorough) significant mantissa bits and exponent in [-70,70] / [-100,100], both signs; 8 decimal mantissas x 10^-8..10^12) placed in points; for every d in 0..15 and m in [-30,30] the decimal tie (m+1/2)*10^-d rounded to float64 and its +-1,+-2 ulp neighbours; 10^k-eps values, +-0, min denormal, 1e300; x one valid geometry per kind and six geometries with empty members (MultiPoint with an empty point in the middle / at the end, MultiLineString and MultiPolygon with an empty member, empty LineString and Polygon) in XY/XYZ/XYM/XYZM (WKT) and XY/XYZ/XYZM (GeoJSON, without bbox and with bbox in both option orders) filled from the tie values. Every encode under test is the second call of a two-call history whose first call fails after partial output. Oracle: every emitted number matches -?digits(.digits{1,d})? with no trailing zero; as an exact rational it differs from the exact input ordinate by <= 1/2*10^-d; the output parses (wkt.Unmarshal / JSON) to the same type, structure and number of ordinates; bbox numbers likewise against the exact min/max. distinct_nontrivial = distinct (codec, geometry, d, bbox) tuples Also: LinearRing values given to the WKT encoder directly (closed in X,Y only, fully closed, open) and polygon rings whose closing position carries its own M. Round 7: every GeoJSON case calls a second time with the same option slice (identical output); every tuple of 2..4 values over a 12-value magnitude menu (integral, fractional, tiny, 2^52-0.5, 2^52, 2^53+2, 1e20, 1e300) as points and two-vertex lines. Round 10: collection shapes (flat, nested, with an empty nested collection), the tree of geometry types compared. Round 12: WKT output compared in shape (keywords, tags, EMPTY, parentheses, numbers per position) with the reference writer; collections whose members have different layouts (every ordered pair of layouts x every ordered pair of shapes, flat and nested).",
		Run:         c18Run,
		Replay:      func(c *engine.Ctx, kind string, raw json.RawMessage) { c18Exec(c, decodeCase[c18Case](raw)) },
		Assumptions: []string{"finite ordinates; math/big decimal parsing exact"},
	})
}

var strictRe = func() map[int]*regexp.Regexp {
	m := map[int]*regexp.Regexp{0: regexp.MustCompile(`^-?[0-9]+$`)}
	for d := 1; d <= 20; d++ {
		m[d] = regexp.MustCompile(fmt.Sprintf(`^-?[0-9]+(\.[0-9]{1,%d})?$`, d))
	}
	return m
}()

var numTokRe = regexp.MustCompile(`-?[0-9]+(?:\.[0-9]*)?(?:[eE][-+]?[0-9]+)?|-?\.[0-9]+`)

// checkNumber validates one emitted number against the exact ordinate.
func c18CheckNumber(tok string, x float64, d int) string {
	strict := strictRe[d]
	if !strict.MatchString(tok) {
		return fmt.Sprintf("number %q is not of the form -?digits(.digits{1,%d})?", tok, d)
	}
	if strings.Contains(tok, ".") && strings.HasSuffix(tok, "0") {
		return fmt.Sprintf("number %q has a trailing zero after the decimal point", tok)
	}
	r, ok := new(big.Rat).SetString(tok)
	if !ok {
		return fmt.Sprintf("number %q does not parse", tok)
	}
	diff := new(big.Rat).Sub(r, ref.R(x))
	diff.Abs(diff)
	half := new(big.Rat).SetFrac(big.NewInt(1), new(big.Int).Mul(big.NewInt(2), new(big.Int).Exp(big.NewInt(10), big.NewInt(int64(d)), nil)))
	if diff.Cmp(half) > 0 {
		return fmt.Sprintf("number %q differs from the exact ordinate %v (%s) by more than half a unit in decimal place %d", tok, x, ref.R(x).FloatString(20), d)
	}
	return ""
}

func ordinatesOf(g *ref.G) []float64 {
	var out []float64
	g.Ordinates(func(p *ref.F) { out = append(out, float64(*p)) })
	return out
}

// jsonNumbers collects the number literals of a decoded (UseNumber) JSON value in document order.
func jsonNumbers(v any, out *[]string) {
	switch t := v.(type) {
	case json.Number:
		*out = append(*out, string(t))
	case []any:
		for _, x := range t {
			jsonNumbers(x, out)
		}
	}
}

// modelTree / jsonTree: the tree of geometry types, e.g. GC(Point,GC(LineString,Point),Point).
func modelTree(g *ref.G) string {
	if g.Kind != ref.Collection {
		k := g.Kind
		if k == ref.LinearRing {
			k = ref.LineString
		}
		return k.String()
	}
	var kids []string
	for _, k := range g.Kids {
		kids = append(kids, modelTree(k))
	}
	return "GC(" + strings.Join(kids, ",") + ")"
}

func jsonTree(v any, nums *[]string) string {
	m, _ := v.(map[string]any)
	ty, _ := m["type"].(string)
	if ty != "GeometryCollection" {
		jsonNumbers(m["coordinates"], nums)
		return ty
	}
	var kids []string
	gs, _ := m["geometries"].([]any)
	for _, k := range gs {
		kids = append(kids, jsonTree(k, nums))
	}
	return "GC(" + strings.Join(kids, ",") + ")"
}

func c18Exec(c *engine.Ctx, cs c18Case) {
	c.Count("evaluations", 1)
	g := cs.G
	key := fmt.Sprintf("%s/%s/%s/d%d", cs.Codec, g.Kind, g.Layout, cs.D)
	fail := func(what, desc string) { c.Violate(key+"/"+what, desc+" model="+g.String(), "c18", cs) }
	t := g.MustBuild()
	if cs.D%2 == 1 {
		// neither format writes the SRID: one set on the geometry (for odd d) changes nothing
		if _, err := geom.SetSRID(t, 4326); err != nil {
			panic(err)
		}
	}
	want := ordinatesOf(g)
	if len(want) == 0 && cs.BBox != 0 {
		return // the quantifier asks for a bounding box for non-empty geometries only
	}
	switch cs.Codec {
	case "wkt":
		var s string
		var err error
		failWKT(cs.D) // two-call history: a failed encode first (see poison.go)
		if p, _ := engine.Guard(func() { s, err = wkt.Marshal(t, wkt.EncodeOptionWithMaxDecimalDigits(cs.D)) }); p != nil {
			fail("panic", fmt.Sprintf("panic %v", p))
			return
		}
		if err != nil {
			fail("error", err.Error())
			return
		}
		toks := numTokRe.FindAllString(s, -1)
		if len(toks) != len(want) {
			fail("ordinate-count", fmt.Sprintf("%d numbers in %q, geometry has %d ordinates", len(toks), s, len(want)))
			return
		}
		for i, tok := range toks {
			if d := c18CheckNumber(tok, want[i], cs.D); d != "" {
				fail("number", d+" in "+clipStr(s, 200))
				return
			}
		}
		// the text has the shape of the geometry: the same keywords, dimension tags, EMPTYs,
		// parentheses and numbers per position as the reference writer's text (a collection's own
		// tag aside, and a multipoint's positions with or without their own parentheses)
		if sh := wktShape(s); sh != wktShape(ref.WriteWKT(g, ref.WKTStyle{Detached: true})) && sh != wktShape(ref.WriteWKT(g, ref.WKTStyle{Detached: true, MPParens: true})) {
			fail("shape", fmt.Sprintf("output %q has the shape %s, the geometry %s", clipStr(s, 300), clipStr(sh, 300), clipStr(wktShape(ref.WriteWKT(g, ref.WKTStyle{Detached: true})), 300)))
			return
		}
		if g.Kind == ref.Collection && c18MixedLayouts(g) {
			// (members of different dimensions: the library's own parser refuses such a text, the
			// shape comparison above stands in for it)
			break
		}
		// still valid WKT of the same type, structure and ordinate count
		back, perr := wkt.Unmarshal(s)
		if perr != nil {
			fail("invalid-wkt", fmt.Sprintf("output %q does not parse: %v", clipStr(s, 200), firstLine(perr)))
			return
		}
		bm, _ := ref.Observe(back)
		wantKind := g.Kind
		if wantKind == ref.LinearRing {
			wantKind = ref.LineString // WKT has no LINEARRING: the encoder writes a ring as a LINESTRING
		}
		if g.Kind == ref.Collection {
			if bm == nil || modelTree(bm) != modelTree(g) {
				fail("structure", fmt.Sprintf("output %q parses to another tree of geometries: %s, the geometry is %s", clipStr(s, 200), modelTree(bm), modelTree(g)))
				return
			}
		} else if bm == nil || bm.Kind != wantKind || bm.Layout != g.Layout || !sameStructure(bm, g) {
			fail("structure", fmt.Sprintf("output %q parses to a different type/structure: %s", clipStr(s, 200), bm))
			return
		}
	case "geojson":
		var opts []geojson.EncodeGeometryOption
		switch cs.BBox {
		case 0:
			opts = []geojson.EncodeGeometryOption{geojson.EncodeGeometryWithMaxDecimalDigits(cs.D)}
		case 1:
			opts = []geojson.EncodeGeometryOption{geojson.EncodeGeometryWithMaxDecimalDigits(cs.D), geojson.EncodeGeometryWithBBox()}
		case 2:
			opts = []geojson.EncodeGeometryOption{geojson.EncodeGeometryWithBBox(), geojson.EncodeGeometryWithMaxDecimalDigits(cs.D)}
		}
		var data []byte
		var err error
		failGeoJSON(opts...) // two-call history: a failed encode first
		if p, _ := engine.Guard(func() { data, err = geojson.Marshal(t, opts...) }); p != nil {
			fail("panic", fmt.Sprintf("panic %v", p))
			return
		}
		if err != nil {
			fail("error", err.Error())
			return
		}
		// the option list is the caller's slice: handed over a second time it gives the same output
		var data2 []byte
		var err2 error
		if p, _ := engine.Guard(func() { data2, err2 = geojson.Marshal(t, opts...) }); p != nil || err2 != nil || !bytes.Equal(data, data2) {
			fail("second-call", fmt.Sprintf("the same call with the same option slice a second time: %s (error %v, panic %v); the first time: %s", clipStr(string(data2), 200), err2, p, clipStr(string(data), 200)))
			return
		}
		dec := json.NewDecoder(bytes.NewReader(data))
		dec.UseNumber()
		var doc map[string]any
		if jerr := dec.Decode(&doc); jerr != nil {
			fail("invalid-json", fmt.Sprintf("output %s is not valid JSON: %v", clipStr(string(data), 200), jerr))
			return
		}
		var toks []string
		if g.Kind == ref.Collection {
			if tree := jsonTree(map[string]any(doc), &toks); tree != modelTree(g) {
				fail("structure", fmt.Sprintf("output %s is the tree %s, the geometry is %s", clipStr(string(data), 200), tree, modelTree(g)))
				return
			}
		} else {
			jsonNumbers(doc["coordinates"], &toks)
		}
		if len(toks) != len(want) {
			fail("ordinate-count", fmt.Sprintf("%d numbers in %s, geometry has %d ordinates", len(toks), clipStr(string(data), 200), len(want)))
			return
		}
		for i, tok := range toks {
			if d := c18CheckNumber(tok, want[i], cs.D); d != "" {
				fail("number", d+" in "+clipStr(string(data), 200))
				return
			}
		}
		if g.Kind == ref.Collection {
			// (the tree of types was compared above; the members' own nesting is covered as stand-alone shapes)
		} else if c18HasEmptyMember(g) {
			var sb strings.Builder
			jsonShape(doc["coordinates"], &sb)
			if ty, _ := doc["type"].(string); ty != g.Kind.String() || sb.String() != modelShape(g) {
				fail("structure", fmt.Sprintf("output %s has type %q and nesting %s, the geometry is a %s with nesting %s", clipStr(string(data), 200), ty, sb.String(), g.Kind, modelShape(g)))
				return
			}
		} else if rg, rerr := ref.ParseGeoJSON(data); rerr != nil || rg.Kind != g.Kind || !sameStructure(rg, g) {
			fail("structure", fmt.Sprintf("output %s reads as a different type/structure: %v %v", clipStr(string(data), 200), rg, rerr))
			return
		}
		if cs.BBox != 0 {
			var bb []string
			jsonNumbers(doc["bbox"], &bb)
			acc := dimAcc{}
			foldModel(g, acc)
			exp := []float64{acc["x"][0], acc["y"][0], acc["x"][1], acc["y"][1]}
			if g.Layout.ZIndex() >= 0 {
				exp = []float64{acc["x"][0], acc["y"][0], acc["z"][0], acc["x"][1], acc["y"][1], acc["z"][1]}
			}
			if len(bb) != len(exp) {
				fail("bbox-count", fmt.Sprintf("bbox %v, expected %d numbers", bb, len(exp)))
				return
			}
			for i, tok := range bb {
				if d := c18CheckNumber(tok, exp[i], cs.D); d != "" {
					fail("bbox-number", d+" in "+clipStr(string(data), 200))
					return
				}
			}
			c.Count("bboxes_checked", 1)
		}
	}
	c.Count("numbers_checked", int64(len(want)))
	c.DistinctStr(mustJSON(cs))
	c.Sample(fmt.Sprintf("%s/d=%d", cs.Codec, cs.D), 1, cs)
}

var wktTokRe = regexp.MustCompile(`[A-Za-z]+|[(),]|[-+]?(?:[0-9]+\.?[0-9]*|\.[0-9]+)(?:[eE][-+]?[0-9]+)?`)

// wktShape reduces a WKT text to its structure: keywords (type names split from attached
// dimension tags, a collection's own tag dropped), EMPTY, parentheses, commas and the number of
// numbers of every position.
func wktShape(s string) string {
	var out []string
	n := 0
	flush := func() {
		if n > 0 {
			out = append(out, fmt.Sprintf("n%d", n))
			n = 0
		}
	}
	names := []string{"GEOMETRYCOLLECTION", "MULTILINESTRING", "MULTIPOLYGON", "MULTIPOINT", "LINESTRING", "POLYGON", "POINT"}
	for _, tok := range wktTokRe.FindAllString(s, -1) {
		c := tok[0]
		switch {
		case c >= 'A' && c <= 'Z' || c >= 'a' && c <= 'z':
			flush()
			w := strings.ToUpper(tok)
			for _, nm := range names {
				if strings.HasPrefix(w, nm) {
					if rest := w[len(nm):]; rest == "Z" || rest == "M" || rest == "ZM" {
						out = append(out, nm)
						w = rest
					}
					break
				}
			}
			if (w == "Z" || w == "M" || w == "ZM") && len(out) > 0 && out[len(out)-1] == "GEOMETRYCOLLECTION" {
				continue
			}
			out = append(out, w)
		case c == '(' || c == ')' || c == ',':
			flush()
			out = append(out, tok)
		default:
			n++
		}
	}
	flush()
	return strings.Join(out, " ")
}

func c18MixedLayouts(g *ref.G) bool {
	ls := map[geom.Layout]bool{}
	var walk func(*ref.G)
	walk = func(x *ref.G) {
		if x.Kind == ref.Collection {
			for _, k := range x.Kids {
				walk(k)
			}
			return
		}
		ls[x.Layout] = true
	}
	walk(g)
	return len(ls) > 1
}

func clipStr(s string, n int) string {
	if len(s) > n {
		return s[:n] + "…"
	}
	return s
}

// sameStructure compares nesting sizes only (type and number of ordinates per position).
func sameStructure(a, b *ref.G) bool {
	sz := func(g *ref.G) string {
		var sb strings.Builder
		k := g.Kind
		if k == ref.LinearRing {
			k = ref.LineString // written and read back as a LINESTRING
		}
		fmt.Fprintf(&sb, "%d|%d|", k, len(g.C0))
		for _, c := range g.C1 {
			fmt.Fprintf(&sb, "%d,", len(c))
		}
		sb.WriteString("|")
		for _, x := range g.C2 {
			sb.WriteString("[")
			for _, c := range x {
				fmt.Fprintf(&sb, "%d,", len(c))
			}
			sb.WriteString("]")
		}
		sb.WriteString("|")
		for _, x := range g.C3 {
			sb.WriteString("{")
			for _, y := range x {
				sb.WriteString("[")
				for _, c := range y {
					fmt.Fprintf(&sb, "%d,", len(c))
				}
				sb.WriteString("]")
			}
			sb.WriteString("}")
		}
		return sb.String()
	}
	return sz(a) == sz(b)
}

// c18Shapes builds one valid geometry per kind for a layout from a value source.
func c18Shapes(l geom.Layout, next func() ref.F) []*ref.G {
	st := l.Stride()
	co := func() ref.C {
		c := make(ref.C, st)
		for i := range c {
			c[i] = next()
		}
		return c
	}
	// polygon rings close in X, Y and Z; the M of the closing position is a value of its own
	ring := func() []ref.C {
		a := co()
		z := append(ref.C{}, a...)
		if mi := l.MIndex(); mi >= 0 {
			z[mi] = next() // the WKT parser compares X, Y and Z for closure; M is a measure
		}
		return []ref.C{a, co(), co(), z}
	}
	// a LinearRing handed to the encoder directly is written as a LINESTRING, which need not close
	// at all: its last position agrees with the first in X and Y only
	looseRing := func() []ref.C {
		a := co()
		z := co()
		z[0], z[1] = a[0], a[1]
		return []ref.C{a, co(), co(), z}
	}
	return []*ref.G{
		{Kind: ref.LinearRing, Layout: l, C1: ring()},
		{Kind: ref.LinearRing, Layout: l, C1: looseRing()},
		{Kind: ref.LinearRing, Layout: l, C1: []ref.C{co(), co(), co()}},
		{Kind: ref.Point, Layout: l, C0: co()},
		{Kind: ref.LineString, Layout: l, C1: []ref.C{co(), co()}},
		{Kind: ref.Polygon, Layout: l, C2: [][]ref.C{ring(), ring()}},
		{Kind: ref.MultiPoint, Layout: l, C1: []ref.C{co(), co()}},
		{Kind: ref.MultiLineString, Layout: l, C2: [][]ref.C{{co(), co()}, {co(), co(), co()}}},
		{Kind: ref.MultiPolygon, Layout: l, C3: [][][]ref.C{{ring()}, {ring()}}},
		// empty members: the text must stay well formed around them (EMPTY in WKT, [] in JSON)
		{Kind: ref.MultiPoint, Layout: l, C1: []ref.C{co(), nil, co()}},
		{Kind: ref.MultiPoint, Layout: l, C1: []ref.C{co(), co(), nil}},
		{Kind: ref.MultiLineString, Layout: l, C2: [][]ref.C{{co(), co()}, {}, {co(), co()}}},
		{Kind: ref.MultiPolygon, Layout: l, C3: [][][]ref.C{{ring()}, {}, {ring(), ring()}}},
		{Kind: ref.LineString, Layout: l, C1: []ref.C{}},
		{Kind: ref.Polygon, Layout: l, C2: [][]ref.C{}},
		// collections, also nested and with an empty nested collection
		ref.NewCollection(l, &ref.G{Kind: ref.Point, Layout: l, C0: co()}, &ref.G{Kind: ref.LineString, Layout: l, C1: []ref.C{co(), co()}}),
		ref.NewCollection(l, &ref.G{Kind: ref.Point, Layout: l, C0: co()},
			ref.NewCollection(l, &ref.G{Kind: ref.LineString, Layout: l, C1: []ref.C{co(), co()}}, &ref.G{Kind: ref.Point, Layout: l, C0: co()}),
			ref.NewCollection(l), &ref.G{Kind: ref.Point, Layout: l, C0: co()}),
	}
}

// c18HasEmptyMember: shapes whose JSON form contains an empty array where RFC 7946 wants a
// position or a member; the independent reader is not asked about those, the nesting of the
// emitted arrays is compared with the model directly.
func c18HasEmptyMember(g *ref.G) bool {
	for _, c := range g.C1 {
		if c == nil && g.Kind == ref.MultiPoint {
			return true
		}
	}
	for _, x := range g.C2 {
		if len(x) == 0 {
			return true
		}
	}
	for _, x := range g.C3 {
		if len(x) == 0 {
			return true
		}
	}
	return (g.Kind == ref.LineString && len(g.C1) == 0) || (g.Kind == ref.Polygon && len(g.C2) == 0)
}

// jsonShape renders the nesting of a decoded JSON array: numbers as 'n', arrays bracketed.
func jsonShape(v any, sb *strings.Builder) {
	switch t := v.(type) {
	case []any:
		sb.WriteString("[")
		for _, e := range t {
			jsonShape(e, sb)
		}
		sb.WriteString("]")
	case json.Number:
		sb.WriteString("n")
	default:
		fmt.Fprintf(sb, "?%T", v)
	}
}

// modelShape is the nesting the GeoJSON coordinates of the model must have.
func modelShape(g *ref.G) string {
	var sb strings.Builder
	pos := func(c ref.C) {
		sb.WriteString("[")
		sb.WriteString(strings.Repeat("n", len(c)))
		sb.WriteString("]")
	}
	line := func(cs []ref.C) {
		sb.WriteString("[")
		for _, c := range cs {
			pos(c)
		}
		sb.WriteString("]")
	}
	switch g.Kind {
	case ref.Point:
		pos(g.C0)
	case ref.LineString, ref.LinearRing, ref.MultiPoint:
		line(g.C1)
	case ref.Polygon, ref.MultiLineString:
		sb.WriteString("[")
		for _, x := range g.C2 {
			line(x)
		}
		sb.WriteString("]")
	case ref.MultiPolygon:
		sb.WriteString("[")
		for _, x := range g.C3 {
			sb.WriteString("[")
			for _, y := range x {
				line(y)
			}
			sb.WriteString("]")
		}
		sb.WriteString("]")
	}
	return sb.String()
}

func c18Run(c *engine.Ctx) {
	var ds []int
	for d := 0; d <= 15; d++ {
		ds = append(ds, d)
	}
	mbits, erange := 7, 70
	if c.Thorough() {
		mbits, erange = 9, 100
	}
	// lattice of few-bit floats
	var lat []float64
	for e := -erange; e <= erange; e++ {
		for m := 1 << (mbits - 1); m < 1<<mbits; m++ {
			v := math.Ldexp(float64(m), e-(mbits-1))
			lat = append(lat, v, -v)
		}
	}
	lat = append(lat, 0, math.Copysign(0, -1), math.SmallestNonzeroFloat64, -math.SmallestNonzeroFloat64, 1e300, -1e300, 123456789.987654321, 0.1, 0.2, 0.7, 1.005, 2.675, 1e15+0.5, 999999.9999995)
	for k := -15; k <= 15; k++ {
		v := math.Pow(10, float64(k))
		lat = append(lat, math.Nextafter(v, 0), v, math.Nextafter(v, math.Inf(1)), v-v*1e-9, -(v - v*1e-9))
	}
	// decimal (non-dyadic) values over 21 orders of magnitude: with many integer digits and a large
	// d the shortest round-trip text of the float is coarser than half a unit of the d-th place
	for _, m := range []float64{1.1, 8.3, 1.2345, 9.999999, 7.0000001, 1.23456, 2.5000000001, 6.02214076} {
		for e := -8; e <= 12; e++ {
			v := m * math.Pow(10, float64(e))
			lat = append(lat, v, -v)
		}
	}
	c.Note("lattice_values", len(lat))
	c.Parallel((len(lat)+1)/2, func(i int) {
		a := lat[2*i]
		b := a
		if 2*i+1 < len(lat) {
			b = lat[2*i+1]
		}
		g := &ref.G{Kind: ref.Point, Layout: geom.XY, C0: ref.C{ref.F(a), ref.F(b)}}
		for _, d := range ds {
			c18Exec(c, c18Case{Codec: "wkt", G: g, D: d})
			c18Exec(c, c18Case{Codec: "geojson", G: g, D: d, BBox: i % 3})
		}
	})
	// positions that mix magnitudes: every ordered tuple of 2, 3 and 4 values over a menu of
	// integral, fractional, tiny and huge values (around 2^52/2^53, where floats stop having
	// fractional parts, and beyond) as an XY, XYZ and XYZM point, and the 4-tuples also as a
	// two-vertex XY line - state carried from one ordinate to the next shows here
	mixMenu := []float64{0, 0.375, -0.1, 1.005, 123456.789, math.Ldexp(1, 52) - 0.5, math.Ldexp(1, 52), math.Ldexp(1, 53) + 2, 1e20, -1e20, 1e300, 1e-7}
	var tuples [][]float64
	var recT func(cur []float64)
	recT = func(cur []float64) {
		if len(cur) >= 2 {
			tuples = append(tuples, append([]float64{}, cur...))
		}
		if len(cur) == 4 {
			return
		}
		for _, v := range mixMenu {
			recT(append(cur, v))
		}
	}
	recT(nil)
	c.Note("mixed_magnitude_tuples", len(tuples))
	mixDs := []int{0, 1, 3, 7, 15}
	if c.Thorough() {
		mixDs = ds
	}
	c.Parallel(len(tuples), func(i int) {
		tp := tuples[i]
		l := map[int]geom.Layout{2: geom.XY, 3: geom.XYZ, 4: geom.XYZM}[len(tp)]
		gs := []*ref.G{{Kind: ref.Point, Layout: l, C0: ref.FromFloats(tp)}}
		if len(tp) == 4 {
			gs = append(gs, &ref.G{Kind: ref.LineString, Layout: geom.XY, C1: []ref.C{ref.FromFloats(tp[:2]), ref.FromFloats(tp[2:])}})
		}
		for _, g := range gs {
			for _, d := range mixDs {
				c.Count("mixed_magnitude_cases", 1)
				c18Exec(c, c18Case{Codec: "wkt", G: g, D: d})
				c18Exec(c, c18Case{Codec: "geojson", G: g, D: d, BBox: (i + d) % 3})
			}
		}
	})
	// decimal ties with ulp neighbours, per d (all d in both tiers: the set is small)
	type tieJob struct {
		d    int
		vals []float64
	}
	var ties []tieJob
	for d := 0; d <= 15; d++ {
		var vals []float64
		for m := -30; m <= 30; m++ {
			v := (float64(m) + 0.5) / math.Pow(10, float64(d))
			r := new(big.Rat).SetFrac(big.NewInt(int64(2*m+1)), new(big.Int).Mul(big.NewInt(2), new(big.Int).Exp(big.NewInt(10), big.NewInt(int64(d)), nil)))
			if f, _ := r.Float64(); f != 0 {
				v = f // correctly rounded tie
			}
			for _, k := range []int{-2, -1, 0, 1, 2} {
				vals = append(vals, ulps(v, k))
			}
		}
		ties = append(ties, tieJob{d, vals})
	}
	c.Parallel(len(ties), func(i int) {
		tj := ties[i]
		k := 0
		next := func() ref.F { v := tj.vals[k%len(tj.vals)]; k++; return ref.F(v) }
		// enough rounds for every tie value to be placed in every kind of geometry
		for round := 0; round < 12; round++ {
			for _, l := range ref.Layouts4 {
				for _, g := range c18Shapes(l, next) {
					for _, d := range []int{tj.d, max(tj.d-1, 0), min(tj.d+1, 15)} {
						c18Exec(c, c18Case{Codec: "wkt", G: g, D: d})
						if l != geom.XYM && g.Kind != ref.LinearRing {
							for bb := 0; bb < 3; bb++ {
								c18Exec(c, c18Case{Codec: "geojson", G: g, D: d, BBox: bb})
							}
						}
					}
				}
			}
		}
	})
	// collections whose members have DIFFERENT layouts (WKT only; GeoJSON has no dimension tags):
	// every ordered pair of layouts x every ordered pair of the stand-alone shapes, flat and with
	// the second member inside a nested collection; each member is written with its own tag and
	// its own number of numbers per position
	c.Parallel(16, func(i int) {
		l1, l2 := ref.Layouts4[i/4], ref.Layouts4[i%4]
		if l1 == l2 {
			return
		}
		v := 0.0
		next := func() ref.F { v += 1.375; return ref.F(v) }
		for _, a := range c18Shapes(l1, next) {
			for _, b := range c18Shapes(l2, next) {
				if a.Kind == ref.Collection || b.Kind == ref.Collection || a.Kind == ref.LinearRing || b.Kind == ref.LinearRing {
					continue
				}
				for _, g := range []*ref.G{ref.NewCollection(geom.NoLayout, a, b), ref.NewCollection(geom.NoLayout, a, ref.NewCollection(geom.NoLayout, b, a))} {
					for _, d := range []int{0, 2} {
						c.Count("mixed_layout_collections", 1)
						c18Exec(c, c18Case{Codec: "wkt", G: g, D: d})
					}
				}
			}
		}
	})
	if c.Get("bboxes_checked") == 0 || c.Get("numbers_checked") == 0 {
		c.Warn("vacuous: nothing checked")
	}
}
