package checks

import (
	"encoding/json"
	"fmt"
	"math"
	"math/big"
	"reflect"
	"strconv"
	"strings"

	"github.com/twpayne/go-geom"
	"github.com/twpayne/go-geom/encoding/geojson"

	"verif/engine"
	"verif/ref"
)

// C07 — GeoJSON round-trips geometries, features and collections; decoding is total.

type c07Case struct {
	Mode string `json:"mode"` // roundtrip | feature | fc | doc
	G    *ref.G `json:"g,omitempty"`
	// roundtrip: encode options, 0 none, 1 bounding box, 2 CRS, 3 both
	Opt int `json:"opt,omitempty"`
	// roundtrip: the value of the package variable geojson.DefaultLayout during the case (0 = as
	// shipped, XY): the layout given to geometries without positions, and to nothing else
	DL geom.Layout `json:"default_layout,omitempty"`
	// feature
	ID    string `json:"id,omitempty"`
	BBox  int    `json:"bbox,omitempty"`  // 0 none, 1 XY, 2 XYZ
	Props int    `json:"props,omitempty"` // 0 nil, 1 {}, 2 nested
	NFeat int    `json:"n_features,omitempty"`
	// fc: Mix > 0 gives every feature its own id / bounding box or none: bit 2i = feature i has the
	// id "f<i>", bit 2i+1 = it has a bounding box; otherwise every feature has ID and BBox
	Mix int `json:"mix,omitempty"`
	// doc
	Doc  string `json:"doc,omitempty"`
	Kind string `json:"decode_as,omitempty"` // geometry | feature | fc
}

// JSON form of a case: a document that is not valid UTF-8 is stored as bytes (see splitText).
type c07Wire c07Case

func (cs c07Case) MarshalJSON() ([]byte, error) {
	w := struct {
		c07Wire
		DocBytes []byte `json:"doc_bytes,omitempty"`
	}{c07Wire: c07Wire(cs)}
	w.Doc, w.DocBytes = splitText(cs.Doc)
	return json.Marshal(w)
}

func (cs *c07Case) UnmarshalJSON(b []byte) error {
	var w struct {
		c07Wire
		DocBytes []byte `json:"doc_bytes"`
	}
	if err := json.Unmarshal(b, &w); err != nil {
		return err
	}
	*cs = c07Case(w.c07Wire)
	cs.Doc = joinText(w.Doc, w.DocBytes)
	return nil
}

func init() {
	engine.Register(&engine.Check{
		ID: "C07", Level: "exploration",
		Rule:        "round trip: universe U in XY, XYZ, XYM, XYZM, Layout(5), Layout(7) + collections (mixed layouts, empty members, nesting <=3) + a float lattice in points: Marshal output read by an independent RFC 7946 reader (same type, nesting, numbers) and by Unmarshal / Encode+Decode (equal to the model with the format carve-outs COMPUTED from the model: layout from the first position, empty => XY, arity mismatch => error); Features: id {absent,'a','0','1e3'} (plus ~300 string ids: every ASCII character alone and embedded, 15 characters beyond ASCII up to U+10FFFF, JSON look-alikes) x bbox {absent, XY, XYZ, antimeridian-crossing XY (west > east), XYZ with a reversed third axis, degenerate} x properties {nil,{},nested} x geometry {nil, each kind}; FeatureCollections of 0..2 features x bbox. Totality: grammar-directed enumeration of documents (type x coordinates menu x geometries menu; Feature id x bbox x geometry x properties menus; FeatureCollection menus) plus every prefix, every single-byte deletion and every single-byte substitution (12-byte structural menu) of valid documents, and every JSON value of nesting depth <=3 (+1 wrapping level) over arrays of 0..2 elements with leaves {1,null,\"a\"} (thorough: also 2.5 and {}) as the coordinates of every geometry type, decoded as geometry, Feature and FeatureCollection: no panic; error or well-formed result. distinct_nontrivial = distinct documents / geometries with at least one position or one member Also: a lattice of ~1100 numeric Feature ids (+-2^k and neighbours to 2^70, powers of ten to 1e22, integral values between 2^63 and 1e19) and two-step histories in which the document returned by Feature.MarshalJSON is kept while a shorter, an equally long and a longer document are marshalled. Round 7: every geometry round trip again with the encoder's bounding-box option, CRS option and both. Round 8: all round trips again with geojson.DefaultLayout set to XYZ, XYM and XYZM. Round 9: property maps whose keys are spelled like members of the Feature object (id, type, bbox, geometry, properties); decoding into a used Feature. Round 10: one FeatureCollection variable decoded into twice - features kept from the first decode keep their values. Round 12: every geometry of the round-trip corpus as the geometry of a Feature and of a two-feature FeatureCollection. Round 13: FeatureCollections of 2 and 3 features with every assignment of own id / no id and own bbox / no bbox.",
		Run:         c07Run,
		Replay:      func(c *engine.Ctx, kind string, raw json.RawMessage) { c07Exec(c, decodeCase[c07Case](raw)) },
		Assumptions: []string{"finite ordinates; geojson.DefaultLayout at its default XY; encoding/json and ref.ParseGeoJSON trusted"},
	})
}

// c07BBoxable: the bounding-box option can be served - the geometry's covering layout is one of the
// four named ones and X, Y (and Z when the layout has it) have data.
func c07BBoxable(g *ref.G) bool {
	t := g.MustBuild()
	l := t.Layout()
	if l == geom.NoLayout || l > geom.XYZM || g.NumOrdinates() == 0 {
		return false
	}
	acc := dimAcc{}
	foldModel(g, acc)
	if _, ok := acc["x"]; !ok {
		return false
	}
	if _, ok := acc["z"]; !ok && l.ZIndex() >= 0 {
		return false
	}
	return true
}

// c07Expect computes the decoded model the format allows, or mustErr.
func c07Expect(g *ref.G) (exp *ref.G, mustErr bool) {
	if g.Kind == ref.Collection {
		exp = &ref.G{Kind: ref.Collection}
		var ls []geom.Layout
		for _, k := range g.Kids {
			e, bad := c07Expect(k)
			if bad {
				return nil, true
			}
			exp.Kids = append(exp.Kids, e)
			ls = append(ls, e.Layout)
		}
		exp.Layout = ref.Cover(ls)
		return exp, false
	}
	var first ref.C
	haveFirst := false
	switch g.Kind {
	case ref.Point:
		if g.C0 != nil {
			first, haveFirst = g.C0, true
		}
	case ref.LineString, ref.MultiPoint:
		if len(g.C1) > 0 {
			if g.C1[0] == nil {
				return nil, true // null first position: dimensionality too low
			}
			first, haveFirst = g.C1[0], true
		}
	case ref.Polygon, ref.MultiLineString:
		if len(g.C2) > 0 && len(g.C2[0]) > 0 {
			first, haveFirst = g.C2[0][0], true
		}
	case ref.MultiPolygon:
		if len(g.C3) > 0 && len(g.C3[0]) > 0 && len(g.C3[0][0]) > 0 {
			first, haveFirst = g.C3[0][0][0], true
		}
	}
	layout := geojson.DefaultLayout // a geometry without a first position comes back with the default layout
	if haveFirst {
		switch len(first) {
		case 0, 1:
			return nil, true
		case 2:
			layout = geom.XY
		case 3:
			layout = geom.XYZ
		case 4:
			layout = geom.XYZM
		default:
			layout = geom.Layout(len(first))
		}
	}
	exp = g.Clone()
	exp.Layout = layout
	exp.SRID = 0
	bad := false
	eachCoord(exp, func(p *ref.C) {
		if len(*p) != layout.Stride() {
			bad = true
		}
	})
	if bad {
		return nil, true
	}
	return exp, false
}

func c07Props(k int) map[string]interface{} {
	switch k {
	case 1:
		return map[string]interface{}{}
	case 2:
		return map[string]interface{}{"s": "x", "n": 1.5, "b": true, "z": nil, "a": []interface{}{1.0, "two", map[string]interface{}{"k": 3.0}}}
	case 3:
		// property keys that are spelled like members of the Feature object itself
		return map[string]interface{}{"id": "parcel-17", "type": "Feature", "bbox": []interface{}{1.0, 2.0, 3.0, 4.0}, "geometry": nil, "properties": map[string]interface{}{"id": 7.0}}
	case 4:
		return map[string]interface{}{"id": 42.0, "ID": "x", "Id": true}
	}
	return nil
}

func c07BBox(k int) *geom.Bounds {
	switch k {
	case 1:
		return geom.NewBounds(geom.XY).Set(-1, -2, 3, 4)
	case 2:
		return geom.NewBounds(geom.XYZ).Set(-1, -2, -3, 4, 5, 6)
	case 3:
		// RFC 7946 5.2: a box that crosses the antimeridian has its west edge (177) east of its
		// east edge (-178); "4 numbers" is all the property says about a bbox
		return geom.NewBounds(geom.XY).Set(177, -20, -178, -16)
	case 4:
		return geom.NewBounds(geom.XYZ).Set(1, 2, 9, 3, 4, 5)
	case 5:
		return geom.NewBounds(geom.XY).Set(0, 0, 0, 0)
	}
	return nil
}

func boundsEq(a, b *geom.Bounds) bool {
	if a == nil || b == nil {
		return a == b
	}
	return bKey(a) == bKey(b)
}

func c07CheckFeature(f *geojson.Feature, cs c07Case, idx int) string {
	if f == nil {
		return "nil feature"
	}
	wantID := cs.ID
	if f.ID != wantID {
		return fmt.Sprintf("id %q, want %q", f.ID, wantID)
	}
	if !boundsEq(f.BBox, c07BBox(cs.BBox)) {
		return "bbox differs"
	}
	wp := c07Props(cs.Props)
	if !(len(wp) == 0 && len(f.Properties) == 0 && (wp == nil) == (f.Properties == nil)) && !reflect.DeepEqual(f.Properties, wp) {
		return fmt.Sprintf("properties %v, want %v", f.Properties, wp)
	}
	if cs.G == nil {
		if f.Geometry != nil {
			return "null geometry came back non-nil"
		}
		return ""
	}
	exp, _ := c07Expect(cs.G)
	if f.Geometry == nil {
		return "geometry lost"
	}
	return observeEq(f.Geometry, exp, ref.EqualOpt{})
}

func c07Exec(c *engine.Ctx, cs c07Case) {
	c.Count("evaluations", 1)
	switch cs.Mode {
	case "roundtrip":
		// (the run sets the variable before its parallel phase; a replay sets it here)
		if want := map[bool]geom.Layout{true: geom.XY, false: cs.DL}[cs.DL == geom.NoLayout]; geojson.DefaultLayout != want {
			saved := geojson.DefaultLayout
			geojson.DefaultLayout = want
			defer func() { geojson.DefaultLayout = saved }()
		}
		g := cs.G
		keyBase := fmt.Sprintf("roundtrip/%s/%s", g.Kind, g.Layout)
		if cs.DL != geom.NoLayout {
			keyBase += "/DefaultLayout=" + cs.DL.String()
		}
		fail := func(what, desc string) { c.Violate(keyBase+"/"+what, desc+" model="+g.String(), "c07", cs) }
		t := g.MustBuild()
		if g.NumOrdinates()%2 == 1 {
			// a geometry object carries no SRID: one set on the geometry (every second case) changes nothing
			if _, err := geom.SetSRID(t, 3857); err != nil {
				panic(err)
			}
		}
		var data []byte
		var err error
		failGeoJSON() // two-call history: a failed encode first (see poison.go)
		var opts []geojson.EncodeGeometryOption
		if cs.Opt&1 != 0 {
			opts = append(opts, geojson.EncodeGeometryWithBBox())
		}
		if cs.Opt&2 != 0 {
			opts = append(opts, geojson.EncodeGeometryWithCRS(&geojson.CRS{Type: "name", Properties: map[string]interface{}{"name": "urn:ogc:def:crs:EPSG::3857"}}))
		}
		if p, stack := engine.Guard(func() { data, err = geojson.Marshal(t, opts...) }); p != nil {
			fail("marshal-panic", fmt.Sprintf("Marshal panicked: %v\n%s", p, firstLines(stack, 10)))
			return
		}
		if err != nil {
			fail("marshal-error", err.Error())
			return
		}
		rg, rerr := ref.ParseGeoJSON(data)
		if rerr != nil {
			fail("rfc-reader-rejects", fmt.Sprintf("independent reader rejects %s: %v", data, rerr))
			return
		}
		if !ref.SameShapeAndNumbers(rg, g) {
			fail("rfc-reader-differs", fmt.Sprintf("independent reader reads %s as %s", data, rg))
			return
		}
		exp, mustErr := c07Expect(g)
		for _, via := range []string{"unmarshal", "decode"} {
			var back geom.T
			var derr error
			if p, stack := engine.Guard(func() {
				if via == "unmarshal" {
					derr = geojson.Unmarshal(data, &back)
				} else {
					var gg *geojson.Geometry
					gg, derr = geojson.Encode(t, opts...)
					if derr == nil {
						back, derr = gg.Decode()
					}
				}
			}); p != nil {
				fail(via+"-panic", fmt.Sprintf("panic %v\n%s", p, firstLines(stack, 10)))
				return
			}
			if mustErr {
				// the format cannot carry it (layout is inferred from the first position): an error,
				// or - for a MultiPoint whose empty member is not first - an equal geometry
				if derr == nil {
					fail(via+"-accepted-unreadable", fmt.Sprintf("%s decoded although the first position cannot fix the layout", data))
					return
				}
				c.Count("format_limit_errors", 1)
				continue
			}
			if derr != nil {
				fail(via+"-error", fmt.Sprintf("%s: %v", data, derr))
				return
			}
			if werr := ref.WellFormed(back); werr != nil {
				fail(via+"-ill-formed", werr.Error())
				return
			}
			// (with the CRS option the document names a reference system; whether a reader turns
			// that into an SRID on the geometry is not the property's business)
			if d := observeEq(back, exp, ref.EqualOpt{IgnoreSRID: cs.Opt&2 != 0}); d != "" {
				fail(via+"-unequal", fmt.Sprintf("%s: %s", data, d))
				return
			}
		}
		if !mustErr {
			c.Count("roundtrips_ok", 1)
		}
		if g.NumOrdinates() > 0 || len(g.Kids) > 0 {
			c.DistinctStr(string(data))
		}
		c.Sample("roundtrip/"+g.Kind.String(), 1, map[string]any{"json": string(data)})
	case "feature", "fc":
		fail := func(what, desc string) {
			c.Violate(cs.Mode+"/"+what, fmt.Sprintf("%s; case %s", desc, mustJSON(cs)), "c07", cs)
		}
		mk := func() *geojson.Feature {
			f := &geojson.Feature{ID: cs.ID, BBox: c07BBox(cs.BBox), Properties: c07Props(cs.Props)}
			if cs.G != nil {
				f.Geometry = cs.G.MustBuild()
			}
			return f
		}
		var data []byte
		var err error
		if cs.Mode == "feature" {
			var back geojson.Feature
			if p, stack := engine.Guard(func() {
				data, err = json.Marshal(mk())
				if err == nil {
					err = json.Unmarshal(data, &back)
				}
			}); p != nil {
				fail("panic", fmt.Sprintf("panic %v\n%s", p, firstLines(stack, 10)))
				return
			}
			if err != nil {
				fail("error", fmt.Sprintf("%s: %v", data, err))
				return
			}
			if d := c07CheckFeature(&back, cs, 0); d != "" {
				fail("unequal", fmt.Sprintf("%s: %s", data, d))
				return
			}
			// decoding into a Feature that was decoded into before (one variable reused in a loop over
			// documents): every member this document HAS replaces the earlier one. (Only documents
			// with an id and a bounding box: for a member the document does not have, keeping the
			// earlier value is what encoding/json does for any struct, and what the library does for
			// id and bbox - the property does not speak about it; DESIGN.md 7.27.)
			if cs.ID != "" && cs.BBox != 0 {
				var used geojson.Feature
				old := `{"type":"Feature","id":"earlier","bbox":[1,2,3,4,5,6],"geometry":{"type":"LineString","coordinates":[[1,2,3],[4,5,6]]},"properties":{"earlier":true,"k":[1,2]}}`
				var e1, e2 error
				if p, _ := engine.Guard(func() {
					e1 = json.Unmarshal([]byte(old), &used)
					e2 = json.Unmarshal(data, &used)
				}); p != nil || e1 != nil || e2 != nil {
					fail("redecode-error", fmt.Sprintf("%s decoded into a used Feature: panic %v errors %v / %v", data, p, e1, e2))
					return
				}
				if d := c07CheckFeature(&used, cs, 0); d != "" {
					fail("redecode-unequal", fmt.Sprintf("%s decoded into a Feature that held another document before: %s", data, d))
					return
				}
				c.Count("features_decoded_into_used_values", 1)
			}
			// Feature.MarshalJSON called directly (as a json.Marshaler is by any encoder that keeps
			// the bytes): the document is the caller's - marshalling OTHER features afterwards must
			// not change it. Three two-step histories: the later document is shorter, equally long
			// (when the feature has an id to vary) and longer than the retained one - a reused
			// buffer is overwritten in place by the first two and re-allocated by the third.
			other := &geojson.Feature{ID: "another-feature-with-a-much-longer-identifier", Geometry: geom.NewLineStringFlat(geom.XY, []float64{9, 8, 7, 6, 5, 4}), Properties: map[string]interface{}{"zzzz": "yyyyyyyyyyyyyyyyyyyy"}}
			followers := []func(){
				func() { (&geojson.Feature{ID: "z"}).MarshalJSON() },
				func() {
					same := mk()
					same.ID = strings.Repeat("#", len(same.ID))
					same.MarshalJSON()
				},
				func() {
					other.MarshalJSON()
					(&geojson.FeatureCollection{Features: []*geojson.Feature{other, other}}).MarshalJSON()
				},
			}
			for fi, follow := range followers {
				var direct []byte
				if p, _ := engine.Guard(func() {
					direct, err = mk().MarshalJSON()
					if err == nil {
						follow()
					}
				}); p != nil || err != nil {
					fail("marshaljson-direct", fmt.Sprintf("Feature.MarshalJSON: err %v panic %v", err, p))
					return
				}
				var backDirect geojson.Feature
				derr := json.Unmarshal(direct, &backDirect)
				d := ""
				if derr == nil {
					d = c07CheckFeature(&backDirect, cs, 0)
				}
				if derr != nil || d != "" {
					fail("retained-document-changed", fmt.Sprintf("the document returned by Feature.MarshalJSON, read again after a later MarshalJSON call (follower %d), is %s: %v %s", fi, clipStr(string(direct), 300), derr, d))
					return
				}
			}
			// the emitted geometry member is an RFC geometry object or null
			var doc map[string]json.RawMessage
			if jerr := json.Unmarshal(data, &doc); jerr != nil || string(doc["type"]) != `"Feature"` {
				fail("not-a-feature", string(data))
				return
			}
			if cs.G != nil {
				rg, rerr := ref.ParseGeoJSON(doc["geometry"])
				if rerr != nil || !ref.SameShapeAndNumbers(rg, cs.G) {
					fail("rfc-geometry", fmt.Sprintf("geometry member %s: %v", doc["geometry"], rerr))
					return
				}
			} else if string(doc["geometry"]) != "null" {
				fail("null-geometry", string(data))
				return
			}
		} else {
			fc := &geojson.FeatureCollection{BBox: c07BBox(cs.BBox)}
			csAt := func(i int) c07Case {
				if cs.Mix == 0 {
					return cs
				}
				ci := cs
				ci.ID, ci.BBox = "", 0
				if cs.Mix>>(2*i)&1 != 0 {
					ci.ID = fmt.Sprintf("f%d", i)
				}
				if cs.Mix>>(2*i+1)&1 != 0 {
					ci.BBox = 1 + i%2
				}
				return ci
			}
			for i := 0; i < cs.NFeat; i++ {
				f := mk()
				if cs.Mix != 0 {
					f.ID, f.BBox = csAt(i).ID, c07BBox(csAt(i).BBox)
				}
				fc.Features = append(fc.Features, f)
			}
			var back geojson.FeatureCollection
			if p, stack := engine.Guard(func() {
				data, err = json.Marshal(fc)
				if err == nil {
					err = json.Unmarshal(data, &back)
				}
			}); p != nil {
				fail("panic", fmt.Sprintf("panic %v\n%s", p, firstLines(stack, 10)))
				return
			}
			if err != nil {
				fail("error", fmt.Sprintf("%s: %v", data, err))
				return
			}
			if !boundsEq(back.BBox, c07BBox(cs.BBox)) || len(back.Features) != cs.NFeat {
				fail("unequal", fmt.Sprintf("%s: bbox or feature count differs", data))
				return
			}
			for i, f := range back.Features {
				if d := c07CheckFeature(f, csAt(i), i); d != "" {
					fail("feature-unequal", fmt.Sprintf("%s: feature %d: %s", data, i, d))
					return
				}
			}
			if cs.Mix != 0 {
				break // (the histories below are run on the uniform collections)
			}
			// one FeatureCollection variable decoded into twice (a loop over documents): the features
			// the caller took from the FIRST decode are the caller's - they keep the first document's
			// values whatever is decoded into the variable afterwards
			{
				earlier := `{"type":"FeatureCollection","features":[{"type":"Feature","id":"e0","bbox":[1,2,3,4],"geometry":{"type":"Point","coordinates":[1,2]},"properties":{"n":0}},{"type":"Feature","id":"e1","bbox":[5,6,7,8],"geometry":{"type":"Point","coordinates":[5,6]},"properties":{"n":1}}]}`
				var used geojson.FeatureCollection
				var kept []*geojson.Feature
				var e1, e2 error
				if p, _ := engine.Guard(func() {
					e1 = json.Unmarshal([]byte(earlier), &used)
					kept = append(kept, used.Features...)
					e2 = json.Unmarshal(data, &used)
				}); p != nil || e1 != nil || e2 != nil {
					fail("redecode-error", fmt.Sprintf("%s decoded into a used FeatureCollection: panic %v errors %v / %v", data, p, e1, e2))
					return
				}
				for i, f := range kept {
					same := false
					engine.Guard(func() {
						pt, _ := f.Geometry.(*geom.Point)
						same = f.ID == fmt.Sprintf("e%d", i) && f.BBox != nil && f.BBox.Min(0) == float64(4*i+1) && pt != nil && pt.X() == float64(4*i+1) && f.Properties["n"] == float64(i)
					})
					if !same {
						fail("kept-feature-changed", fmt.Sprintf("feature %d taken from an earlier decode changed when %s was decoded into the same FeatureCollection variable", i, data))
						return
					}
				}
				c.Count("collections_decoded_into_used_values", 1)
			}
		}
		c.Count("feature_roundtrips", 1)
		c.DistinctStr(string(data))
		c.Sample(cs.Mode, 2, string(data))
	case "numid":
		fail := func(what, desc string) {
			c.Violate("numeric-id/"+what, fmt.Sprintf("%s; id literal %s", desc, cs.Doc), "c07", cs)
		}
		doc := `{"type":"Feature","id":` + cs.Doc + `,"geometry":{"type":"Point","coordinates":[1,2]},"properties":null}`
		var f, f2 geojson.Feature
		var err error
		var again []byte
		if p, _ := engine.Guard(func() {
			err = json.Unmarshal([]byte(doc), &f)
			if err == nil {
				again, err = json.Marshal(&f)
			}
			if err == nil {
				err = json.Unmarshal(again, &f2)
			}
		}); p != nil {
			fail("panic", fmt.Sprintf("panic %v", p))
			return
		}
		if err != nil {
			fail("error", err.Error())
			return
		}
		// encoding/json reads a number into a float64: the id is the exact value of that float
		wantF, perr := strconv.ParseFloat(cs.Doc, 64)
		want, ok := new(big.Rat).SetFloat64(wantF), perr == nil
		gotF, gerr := strconv.ParseFloat(f.ID, 64)
		// the id text must denote the same float64 (it is the shortest such decimal, not the
		// exact binary expansion)
		if !ok || gerr != nil || gotF != wantF {
			fail("value", fmt.Sprintf("id read as %q, which is not the number %s", f.ID, cs.Doc))
			return
		}
		if want.IsInt() && want.Num().BitLen() <= 53 && f.ID != want.Num().String() {
			fail("integer-text", fmt.Sprintf("integer id read as %q, want %q", f.ID, want.Num().String()))
			return
		}
		if f2.ID != f.ID {
			fail("unstable", fmt.Sprintf("id %q became %q after another round trip", f.ID, f2.ID))
			return
		}
		c.Count("numeric_ids", 1)
	case "doc":
		fail := func(what, desc string) {
			c.Violate("doc/"+cs.Kind+"/"+what, fmt.Sprintf("%s; document %q", desc, cs.Doc), "c07", cs)
		}
		wf := func(t geom.T) string {
			if t == nil {
				return ""
			}
			var err error
			if p, _ := engine.Guard(func() { err = ref.WellFormed(t) }); p != nil {
				return fmt.Sprintf("well-formedness check panicked: %v", p)
			}
			if err != nil {
				return err.Error()
			}
			return ""
		}
		var err error
		var bad string
		p, stack := engine.Guard(func() {
			switch cs.Kind {
			case "geometry":
				var t geom.T
				err = geojson.Unmarshal([]byte(cs.Doc), &t)
				if err == nil {
					bad = wf(t)
				}
			case "feature":
				var f geojson.Feature
				err = json.Unmarshal([]byte(cs.Doc), &f)
				if err == nil {
					bad = wf(f.Geometry)
				}
			case "fc":
				var fc geojson.FeatureCollection
				err = json.Unmarshal([]byte(cs.Doc), &fc)
				if err == nil {
					for _, f := range fc.Features {
						if f != nil && bad == "" {
							bad = wf(f.Geometry)
						}
					}
				}
			}
		})
		if p != nil {
			fail("panic", fmt.Sprintf("decoder panicked: %v\n%s", p, firstLines(stack, 12)))
			return
		}
		if bad != "" {
			fail("ill-formed", bad)
			return
		}
		if err != nil {
			c.Count("doc_errors", 1)
		} else {
			c.Count("doc_accepted", 1)
		}
		c.DistinctStr(cs.Kind + cs.Doc)
	}
}

func c07Run(c *engine.Ctx) {
	// (a) geometries
	var corpus []*ref.G
	maxPolys := 2
	for _, l := range ref.LayoutsAll {
		ref.ForEachBase(l, maxPolys, func(g *ref.G) {
			if g.Kind != ref.LinearRing {
				corpus = append(corpus, g)
			}
		})
	}
	corpus = append(corpus, collectionCorpus(c.Thorough())...)
	corpus = append(corpus, bigCorpus(false)...)
	corpus = append(corpus, deepCollections(geom.XY, 10)...)
	corpus = append(corpus, deepCollections(geom.XYZ, 6)...)
	for _, n := range []int{5, 17, 65} {
		pat := make([]int, n)
		var shape [][]int
		for i := range pat {
			pat[i] = 1
			shape = append(shape, [][]int{{2, 1}, {1}, {3}}[i%3])
		}
		corpus = append(corpus, ref.NewMultiPoint(geom.XYZ, pat, ref.Counter()), ref.NewMultiPolygon(geom.XY, shape, ref.Counter()), ref.NewParts(ref.Polygon, geom.XYZM, pat, ref.Counter()))
		var kids []*ref.G
		for i := 0; i < n; i++ {
			kids = append(kids, ref.NewPoint(geom.XY, true, ref.CounterFrom(float64(i))))
		}
		corpus = append(corpus, ref.NewCollection(geom.NoLayout, kids...))
	}
	lat := floatLattice(true)
	for i := 0; i+3 <= len(lat); i += 3 {
		corpus = append(corpus, &ref.G{Kind: ref.Point, Layout: geom.XYZ, C0: ref.FromFloats(lat[i : i+3])})
	}
	c.Note("geometries", len(corpus))
	c.Parallel(len(corpus), func(i int) { c07Exec(c, c07Case{Mode: "roundtrip", G: corpus[i]}) })
	// the same round trips with the package's DefaultLayout set to XYZ, XYM and XYZM: it is the
	// layout of geometries that have no position to infer one from, and of nothing else
	savedDL := geojson.DefaultLayout
	for _, dl := range []geom.Layout{geom.XYZ, geom.XYM, geom.XYZM} {
		dl := dl
		geojson.DefaultLayout = dl
		c.Parallel(len(corpus), func(i int) {
			c.Count("default_layout_roundtrips", 1)
			c07Exec(c, c07Case{Mode: "roundtrip", G: corpus[i], DL: dl})
		})
	}
	geojson.DefaultLayout = savedDL
	// the same round trips with the encoder's options (a bounding box, a CRS member, both): the
	// library's own output must still read back as the same geometry. A bounding box only where
	// every dimension it carries has data (see C08).
	c.Parallel(len(corpus), func(i int) {
		g := corpus[i]
		for opt := 1; opt <= 3; opt++ {
			if opt&1 != 0 && !c07BBoxable(g) {
				continue
			}
			c.Count("option_roundtrips", 1)
			c07Exec(c, c07Case{Mode: "roundtrip", G: g, Opt: opt})
		}
	})
	// (b) features
	geoms := []*ref.G{nil,
		ref.NewPoint(geom.XY, true, ref.Counter()), ref.NewLine(ref.LineString, geom.XYZ, 2, ref.Counter()),
		ref.NewParts(ref.Polygon, geom.XY, []int{2, 1}, ref.Counter()), ref.NewMultiPoint(geom.XYZM, []int{1, 1}, ref.Counter()),
		ref.NewParts(ref.MultiLineString, geom.XY, []int{2, 0}, ref.Counter()), ref.NewMultiPolygon(geom.XYZ, [][]int{{2}, {}}, ref.Counter()),
		ref.NewCollection(geom.NoLayout, ref.NewPoint(geom.XY, true, ref.Counter()), ref.NewCollection(geom.NoLayout)),
		ref.NewPoint(geom.XY, false, ref.Counter())}
	for _, id := range []string{"", "a", "0", "1e3"} {
		for bb := 0; bb < 6; bb++ {
			for pr := 0; pr < 5; pr++ {
				for _, g := range geoms {
					c07Exec(c, c07Case{Mode: "feature", G: g, ID: id, BBox: bb, Props: pr})
					for n := 0; n <= 2; n++ {
						c07Exec(c, c07Case{Mode: "fc", G: g, ID: id, BBox: bb, Props: pr, NFeat: n})
					}
				}
			}
		}
	}
	// every geometry of the round-trip corpus (all kinds x XY..XYZM, Layout(5), Layout(7),
	// collections) as the geometry of a Feature and of the features of a FeatureCollection
	c.Parallel(len(corpus), func(i int) {
		if _, mustErr := c07Expect(corpus[i]); mustErr {
			return // not expressible (a null first position); the geometry round trip demands the error
		}
		c.Count("corpus_features", 1)
		c07Exec(c, c07Case{Mode: "feature", G: corpus[i], ID: "a", Props: 1})
		c07Exec(c, c07Case{Mode: "fc", G: corpus[i], ID: "a", Props: 1, NFeat: 2})
	})
	// collections whose features differ: every assignment of {own id, no id} x {own bounding box,
	// none} to the features of collections of 2 and 3 features (a member that one feature has and
	// the next has not must not be carried over)
	for n := 2; n <= 3; n++ {
		for mix := 1; mix < 1<<(2*n); mix++ {
			for _, g := range []*ref.G{nil, geoms[1], geoms[3]} {
				c.Count("mixed_feature_collections", 1)
				c07Exec(c, c07Case{Mode: "fc", G: g, Props: 1 + mix%2, NFeat: n, Mix: mix, BBox: mix % 3})
			}
		}
	}
	// string ids: every ASCII character (control characters, DEL, quote, backslash, the characters
	// encoding/json escapes for HTML) alone and embedded, and characters beyond ASCII up to the
	// last code point incl. unassigned and non-printable ones above U+FFFF: the document must be
	// valid JSON whose id member is that string, and the feature must read back with that id
	var strIDs []string
	for r := rune(0); r < 128; r++ {
		strIDs = append(strIDs, string(r), "a"+string(r)+"b")
	}
	for _, r := range []rune{0x80, 0x85, 0xa0, 0xad, 0xff, 0x2028, 0x2029, 0xfeff, 0xfffd, 0xffff, 0x10000, 0x1f600, 0xe0001, 0xf0000, 0x10ffff} {
		strIDs = append(strIDs, string(r), "x"+string(r))
	}
	strIDs = append(strIDs, "null", "true", "{}", "[1]", "\"\"", "\\u0041", "</script>", "a\x00\x01\x1f\x7f", strings.Repeat("\x07", 40))
	for _, id := range strIDs {
		c07Exec(c, c07Case{Mode: "feature", G: geoms[1], ID: id})
		c07Exec(c, c07Case{Mode: "feature", G: nil, ID: id, Props: 2})
		c07Exec(c, c07Case{Mode: "fc", G: geoms[2], ID: id, NFeat: 2})
		c.Count("string_ids", 1)
	}
	// numeric ids: a JSON number id must come back as the decimal text of that number
	// (integers as plain integers), and survive a further round trip unchanged
	for _, num := range []string{"0", "1", "10", "-3", "999999", "1000000", "123456789012", "9007199254740991", "1.5", "0.25", "0.00001", "1e3", "1e21", "12345678.125"} {
		c07Exec(c, c07Case{Mode: "numid", Doc: num})
	}
	// a lattice of numeric ids: +-2^k and neighbours for k = 0..70 (through the int64 and uint64
	// limits), powers of ten up to 1e22 and their neighbours, integral values between 2^63 and
	// 1e19, small fractions
	idSeen := map[string]bool{}
	addID := func(v float64) {
		if math.IsInf(v, 0) || math.IsNaN(v) || (v == 0 && math.Signbit(v)) {
			return
		}
		for _, lit := range []string{strconv.FormatFloat(v, 'f', -1, 64), strconv.FormatFloat(v, 'e', -1, 64)} {
			if !idSeen[lit] {
				idSeen[lit] = true
				c07Exec(c, c07Case{Mode: "numid", Doc: lit})
			}
		}
	}
	for k := 0; k <= 70; k++ {
		p := math.Ldexp(1, k)
		for _, v := range []float64{p, math.Nextafter(p, 0), math.Nextafter(p, math.Inf(1)), p + 1, p - 1, 3 * p / 2} {
			addID(v)
			addID(-v)
		}
	}
	for k := 0; k <= 22; k++ {
		p := math.Pow(10, float64(k))
		for _, v := range []float64{p, math.Nextafter(p, 0), math.Nextafter(p, math.Inf(1)), p - 1, 9.3 * p, 9.5 * p, p / 4, p / 3} {
			addID(v)
			addID(-v)
		}
	}
	for _, v := range []float64{9223372036854775807, 9223372036854775808, 9223372036854777856, 9300000000000000000, 9999999999999997952, 18446744073709551615, 0.1, 1e-7, 123.456, 5e-324} {
		addID(v)
		addID(-v)
	}
	c.Note("numeric_id_literals", len(idSeen))
	// (c) totality: grammar-directed documents
	types := []string{`"Point"`, `"LineString"`, `"Polygon"`, `"MultiPoint"`, `"MultiLineString"`, `"MultiPolygon"`, `"GeometryCollection"`, `"Feature"`, `"FeatureCollection"`, `"Unknown"`, `5`, `null`, ``}
	coords := []string{``, `null`, `true`, `1`, `"x"`, `{}`, `[]`, `[1]`, `[1,2]`, `[1,2,3]`, `[1,2,3,4]`, `[1,2,3,4,5]`, `["a",2]`, `[null,2]`, `[1e999,2]`,
		`[[]]`, `[[1,2]]`, `[[1,2],[3,4]]`, `[[1,2],[3,4,5]]`, `[[1,2],null]`, `[null,[1,2]]`, `[[1]]`, `[[1,2],[3]]`, `[[1,2],3]`,
		`[[[1,2]]]`, `[[[1,2],[3,4]],[]]`, `[[],[[1,2]]]`, `[[[1,2,3]],[[1,2]]]`, `[[[]]]`, `[[[1,2]],null]`,
		`[[[[1,2]]]]`, `[[[[1,2,3]]],[]]`, `[[],[[[1,2]]]]`, `[[[[1,2]],[]],[[[3,4],[5,6]]]]`, `[[[[]]]]`, `[[[[[1]]]]]`, `[[[[1,2]]],[[[1,2,3]]]]`}
	var docs []string
	mkGeo := func(typ, co, extra string) string {
		var parts []string
		if typ != `` {
			parts = append(parts, `"type":`+typ)
		}
		if co != `` {
			parts = append(parts, `"coordinates":`+co)
		}
		if extra != `` {
			parts = append(parts, extra)
		}
		return `{` + strings.Join(parts, ",") + `}`
	}
	for _, t := range types {
		for _, co := range coords {
			docs = append(docs, mkGeo(t, co, ``))
		}
	}
	inner := []string{mkGeo(`"Point"`, `[1,2]`, ``), mkGeo(`"Point"`, `[1,2,3]`, ``), mkGeo(`"LineString"`, `[]`, ``), mkGeo(`"Point"`, ``, ``), mkGeo(`"Polygon"`, `[[1,2]]`, ``),
		mkGeo(`"Point"`, `[1]`, ``), mkGeo(`"Nope"`, `[1,2]`, ``), `null`, `5`, `[]`, mkGeo(`"GeometryCollection"`, ``, `"geometries":[]`), mkGeo(`"GeometryCollection"`, ``, `"geometries":[{"type":"Point","coordinates":[1,2]}]`)}
	geomsMenu := []string{``, `null`, `[]`, `{}`, `5`, `[null]`}
	for _, a := range inner {
		geomsMenu = append(geomsMenu, `[`+a+`]`)
		for _, b := range inner {
			geomsMenu = append(geomsMenu, `[`+a+`,`+b+`]`)
		}
	}
	for _, gm := range geomsMenu {
		extra := ``
		if gm != `` {
			extra = `"geometries":` + gm
		}
		docs = append(docs, mkGeo(`"GeometryCollection"`, ``, extra))
		docs = append(docs, mkGeo(`"GeometryCollection"`, `[1,2]`, extra))
		// depth 2
		docs = append(docs, mkGeo(`"GeometryCollection"`, ``, `"geometries":[`+mkGeo(`"GeometryCollection"`, ``, extra)+`]`))
	}
	// features
	ids := []string{``, `null`, `""`, `"a"`, `1`, `1.5`, `1e21`, `true`, `[]`, `{}`}
	bboxes := []string{``, `null`, `[]`, `[1,2,3,4]`, `[1,2,3,4,5]`, `[1,2,3,4,5,6]`, `["a"]`}
	fgeoms := []string{``, `null`, mkGeo(`"Point"`, `[1,2]`, ``), mkGeo(`"Point"`, `[1]`, ``), mkGeo(`"LineString"`, `[[1,2],[3]]`, ``), `5`, `[]`}
	props := []string{``, `null`, `{}`, `{"a":1}`, `[]`, `1`}
	var fdocs []string
	mkFeat := func(typ, id, bb, g, pr string) string {
		var parts []string
		if typ != `` {
			parts = append(parts, `"type":`+typ)
		}
		if id != `` {
			parts = append(parts, `"id":`+id)
		}
		if bb != `` {
			parts = append(parts, `"bbox":`+bb)
		}
		if g != `` {
			parts = append(parts, `"geometry":`+g)
		}
		if pr != `` {
			parts = append(parts, `"properties":`+pr)
		}
		return `{` + strings.Join(parts, ",") + `}`
	}
	for _, id := range ids {
		for _, bb := range bboxes {
			for _, g := range fgeoms {
				for _, pr := range props {
					fdocs = append(fdocs, mkFeat(`"Feature"`, id, bb, g, pr))
				}
			}
		}
	}
	fdocs = append(fdocs, mkFeat(`"Point"`, ``, ``, fgeoms[2], ``), mkFeat(``, ``, ``, fgeoms[2], ``), mkFeat(`5`, ``, ``, ``, ``))
	var fcdocs []string
	feats := []string{``, `null`, `[]`, `5`, `{}`, `[null]`, `[` + fdocs[0] + `]`, `[` + mkFeat(`"Feature"`, `"a"`, ``, fgeoms[2], `{}`) + `,null]`, `[` + mkFeat(`"Feature"`, `1`, ``, fgeoms[3], ``) + `]`, `[5]`, `[[]]`}
	for _, typ := range []string{`"FeatureCollection"`, `"Feature"`, ``, `7`} {
		for _, bb := range bboxes {
			for _, fs := range feats {
				var parts []string
				if typ != `` {
					parts = append(parts, `"type":`+typ)
				}
				if bb != `` {
					parts = append(parts, `"bbox":`+bb)
				}
				if fs != `` {
					parts = append(parts, `"features":`+fs)
				}
				fcdocs = append(fcdocs, `{`+strings.Join(parts, ",")+`}`)
			}
		}
	}
	// non-object documents
	for _, d := range []string{``, `null`, `5`, `"x"`, `[]`, `[1,2]`, `{`, `{"type"`, `{"type":"Point","coordinates":[1,2]} trailing`, "\xff", `{"type":"Point","type":"LineString","coordinates":[1,2]}`} {
		docs = append(docs, d)
	}
	c.Note("documents", len(docs)+len(fdocs)+len(fcdocs))
	all := append(append(append([]string{}, docs...), fdocs...), fcdocs...)
	c.Parallel(len(all), func(i int) {
		for _, k := range []string{"geometry", "feature", "fc"} {
			c07Exec(c, c07Case{Mode: "doc", Doc: all[i], Kind: k})
		}
	})
	// prefixes and single-byte deletions of valid documents
	var valid []string
	for i, g := range corpus {
		if i%7 == 0 && g.NumOrdinates() <= 12 {
			if data, err := geojson.Marshal(g.MustBuild()); err == nil {
				valid = append(valid, string(data))
			}
		}
	}
	f := &geojson.Feature{ID: "a", BBox: c07BBox(1), Properties: c07Props(2), Geometry: geoms[3].MustBuild()}
	fd, _ := json.Marshal(f)
	fcd, _ := json.Marshal(&geojson.FeatureCollection{BBox: c07BBox(2), Features: []*geojson.Feature{f, f}})
	valid = append(valid, string(fd), string(fcd))
	c.Note("mutated_documents", len(valid))
	c.Parallel(len(valid), func(i int) {
		d := valid[i]
		for n := 0; n <= len(d); n++ {
			for _, k := range []string{"geometry", "feature", "fc"} {
				c07Exec(c, c07Case{Mode: "doc", Doc: d[:n], Kind: k})
				if n < len(d) {
					c07Exec(c, c07Case{Mode: "doc", Doc: d[:n] + d[n+1:], Kind: k})
				}
			}
			// every byte replaced by each byte of a structural menu (brackets, braces, quote, comma,
			// colon, digit, minus, a letter of null, backslash, a non-UTF-8 byte)
			if n < len(d) {
				for _, b := range []byte("[]{}\",:0-n\\\x80") {
					if d[n] != b {
						for _, k := range []string{"geometry", "feature", "fc"} {
							c07Exec(c, c07Case{Mode: "doc", Doc: d[:n] + string(b) + d[n+1:], Kind: k})
						}
					}
				}
			}
		}
	})
	// every JSON value of nesting depth <= 3 built from arrays of 0..2 elements over the leaves
	// {1, null, "a"} (thorough: also 2.5 and {}) as the coordinates of every geometry type (ragged, over-deep and under-deep
	// arrays at every level): T0 = 3, T1 = 16, T2 = 276, T3 = 76456 values
	leaves := []string{`1`, `null`, `"a"`}
	depth := 3
	if c.Thorough() {
		leaves = append(leaves, `2.5`, `{}`)
	}
	level := append([]string{}, leaves...)
	for dd := 1; dd <= depth; dd++ {
		next := append([]string{}, leaves...)
		next = append(next, `[]`)
		for _, a := range level {
			next = append(next, `[`+a+`]`)
		}
		for _, a := range level {
			for _, b := range level {
				next = append(next, `[`+a+`,`+b+`]`)
			}
		}
		level = next
	}
	// one more level of single-element and pair wrapping keeps the deepest legal nesting (4, a
	// MultiPolygon) reachable in the quick tier as well
	var tree []string
	tree = append(tree, level...)
	for _, a := range level {
		tree = append(tree, `[`+a+`]`)
	}
	c.Note("coordinate_trees", len(tree))
	gtypes := []string{`"Point"`, `"LineString"`, `"Polygon"`, `"MultiPoint"`, `"MultiLineString"`, `"MultiPolygon"`}
	c.Parallel(len(tree), func(i int) {
		for _, t := range gtypes {
			c07Exec(c, c07Case{Mode: "doc", Doc: `{"type":` + t + `,"coordinates":` + tree[i] + `}`, Kind: "geometry"})
		}
		c.Count("coordinate_tree_docs", int64(len(gtypes)))
	})
	for _, k := range []string{"roundtrips_ok", "format_limit_errors", "feature_roundtrips", "doc_errors", "doc_accepted"} {
		if c.Get(k) == 0 {
			c.Warn("vacuous: counter " + k + " is zero")
		}
	}
}
