package checks

import (
	"os"
	"testing"
	"time"

	"verif/engine"
)

// TestCoverRun runs one check in-process (COVER_ID, COVER_TIER) for tools/covercheck.sh, which
// lists the library blocks the exploration never executes. Analysis aid, not part of a verdict.
func TestCoverRun(t *testing.T) {
	id := os.Getenv("COVER_ID")
	if id == "" {
		t.Skip("COVER_ID not set")
	}
	tier := os.Getenv("COVER_TIER")
	if tier == "" {
		tier = "quick"
	}
	ch := engine.Lookup(id)
	if ch == nil {
		t.Fatal("unknown check " + id)
	}
	c := engine.NewCtx(id, tier, 0, 20*time.Minute)
	ch.Run(c)
	res := c.Finish(ch)
	t.Logf("%s %s: evaluations=%d violations=%d", id, tier, res.Counters["evaluations"], len(res.Violations))
}
