package checks

import (
	"encoding/json"
	"fmt"
	"math"
	"math/big"

	"github.com/twpayne/go-geom"
	"github.com/twpayne/go-geom/xy"
	"github.com/twpayne/go-geom/xyz"

	"verif/engine"
	"verif/ref"
)

// C15 — 2D and 3D distance functions return the true minimum distance.

type c15Case struct {
	Mode string  `json:"mode"` // pt-seg2 | seg-seg2 | pt-line2 | perp2 | pt-seg3 | seg-seg3 | pt-pt3
	V    []ref.F `json:"v"`
	// Stride > 2 (pt-line2 only): the line string is handed over in layout XYZ / XYZM / Layout(5)
	// with distractor values in the extra ordinates
	Stride int `json:"stride,omitempty"`
	// Gen names a generated argument list instead of spelling it out: "longline/<n>/<k>" = the
	// n-vertex line of c15LongLine with the query point beside the middle of segment k.
	Gen string `json:"gen,omitempty"`
}

// c15LongLine: n vertices (4i, i mod 2), a slightly rippled line along the x axis.
func c15LongLine(n int) []float64 {
	out := make([]float64, 0, 2*n)
	for i := 0; i < n; i++ {
		out = append(out, float64(4*i), float64(i%2))
	}
	return out
}

// c15LongQuery is the query point for segment k of the long line: nearest to the interior of
// segment k (distance < 3) and nearer to it than to every other segment.
func c15LongQuery(k int) [2]float64 { return [2]float64{float64(4*k + 2), 3} }

func c15GenV(gen string) []ref.F {
	var n, k int
	rev := false
	if _, err := fmt.Sscanf(gen, "longline/%d/%d", &n, &k); err != nil {
		if _, err := fmt.Sscanf(gen, "longlinerev/%d/%d", &n, &k); err != nil {
			panic("c15: bad gen " + gen)
		}
		rev = true
	}
	q := c15LongQuery(k)
	v := []ref.F{ref.F(q[0]), ref.F(q[1])}
	line := c15LongLine(n)
	for i := 0; i < n; i++ {
		j := i
		if rev {
			j = n - 1 - i
		}
		v = append(v, ref.F(line[2*j]), ref.F(line[2*j+1]))
	}
	return v
}

// wide2 is the coordinate p handed over with extra ordinates after X and Y (the xy package reads
// the first two ordinates of a coordinate of any dimension): k extras with values that depend on tag.
func wide2(p ref.P3, k int, tag float64) geom.Coord {
	out := geom.Coord{p.X, p.Y}
	for i := 0; i < k; i++ {
		out = append(out, tag+float64(i))
	}
	return out
}

func init() {
	engine.Register(&engine.Check{
		ID: "C15", Level: "exploration",
		Rule:        "2D: every point x every segment and every pair of segments (degenerate ones included) on the 4x4 (thorough 5x5) integer grid, also scaled by 2^20 and translated; point-to-linestring for every polyline of <=3 vertices x every point; perpendicular distance for lines through two distinct points. 3D: every pair of segments with endpoints in {0,1,2}^3 - zero-length first/second/both, parallel, collinear, crossing, touching, skew, optimum outside the unit square in both parameters - plus scaled copies; every point x segment; Z = NaN for xyz.Distance. Oracle: exact rational squared distance (3D by exact minimisation over the clamped parameter square); |result - sqrt(exact)| <= 1e-9 x coordinate scale; never NaN; symmetric in argument order and direction. distinct_nontrivial = distinct argument tuples with non-zero exact distance or touching sets Also: line strings of 65..200 vertices with exactly one near segment at every index in turn; point-to-linestring on 'star' zig-zags with every vertex count 2..70 and 96..1003 in strides 2..5, and long, nearly parallel 3D segments on the grid up to 2^20 (crossing, touching or skew by a few lattice steps); 2D lattice points on and one step beside long segments with rough integer coordinates up to 2^20 (point-segment, point-linestring, collinear segment pairs); ~1000 exactly axis-parallel segments crossed properly by rough segments on grids [-2^k,2^k], k=17..20. Round 7: lines of 4099, 16390, 20001 (thorough 32770, 65540) vertices queried beside every segment in both directions; point-segment and segment-segment calls repeated with coordinates that carry differing extra ordinates and different lengths. Round 8: every point-segment and segment-segment case again with the zeros of one end negative (-0). Round 9: every polyline of 4 (thorough 5) vertices on the 3x3 grid with repeats at any position x every grid point. Round 10: proper crossings near the tips of long segments of different length (all primitive directions); 3D segment pairs over {0..3}^3.",
		Run:         c15Run,
		Replay:      func(c *engine.Ctx, kind string, raw json.RawMessage) { c15Exec(c, decodeCase[c15Case](raw)) },
		Assumptions: []string{"integer-grid ordinates up to 2^20 (exact squared distances); perpendicular distance only for distinct line points"},
	})
}

func p3(v []ref.F, i int) ref.P3 {
	return ref.P3{X: float64(v[3*i]), Y: float64(v[3*i+1]), Z: float64(v[3*i+2])}
}

func p2as3(v []ref.F, i int) ref.P3 { return ref.P3{X: float64(v[2*i]), Y: float64(v[2*i+1])} }

func co2(p ref.P3) geom.Coord { return geom.Coord{p.X, p.Y} }
func co3(p ref.P3) geom.Coord { return geom.Coord{p.X, p.Y, p.Z} }

// negZeros returns the coordinate with every zero ordinate replaced by negative zero.
func negZeros(c geom.Coord) geom.Coord {
	out := append(geom.Coord{}, c...)
	for i, v := range out {
		if v == 0 {
			out[i] = math.Copysign(0, -1)
		}
	}
	return out
}

func c15Exec(c *engine.Ctx, cs c15Case) {
	c.Count("evaluations", 1)
	v := cs.V
	if cs.Gen != "" {
		v = c15GenV(cs.Gen)
	}
	scale := 1.0
	for _, x := range v {
		if !math.IsNaN(float64(x)) {
			scale = math.Max(scale, math.Abs(float64(x)))
		}
	}
	tol := 1e-9 * scale
	fail := func(what, desc string) {
		c.Violate(cs.Mode+"/"+what, clipStr(fmt.Sprintf("%s; arguments %s%v", desc, cs.Gen, v), 2500), "c15", cs)
	}
	check := func(name string, got float64, exact2 *big.Rat) bool {
		if math.IsNaN(got) {
			fail(name+"/nan", name+" returned NaN")
			return false
		}
		want := ref.SqrtRat(exact2)
		if !ref.AbsDiffLE(got, want, tol) {
			fail(name+"/wrong", fmt.Sprintf("%s = %v, exact %s (squared %s)", name, got, want.Text('g', 17), exact2.RatString()))
			return false
		}
		return true
	}
	var exact2 *big.Rat
	ok := true
	pn, _ := engine.Guard(func() {
		switch cs.Mode {
		case "pt-seg2":
			p, a, b := p2as3(v, 0), p2as3(v, 1), p2as3(v, 2)
			exact2 = ref.PointSeg2(p, a, b)
			ok = check("DistanceFromPointToLine", xy.DistanceFromPointToLine(co2(p), co2(a), co2(b)), exact2) &&
				check("DistanceFromPointToLine(reversed)", xy.DistanceFromPointToLine(co2(p), co2(b), co2(a)), exact2)
			// the same arguments as coordinates with extra ordinates that differ between the three
			// (also between the two ends of a zero-length segment) and with different lengths
			if ok {
				ok = check("DistanceFromPointToLine(coordinates with extra ordinates)", xy.DistanceFromPointToLine(wide2(p, 1, -7), wide2(a, 2, 100), wide2(b, 2, 200)), exact2) &&
					check("DistanceFromPointToLine(coordinates of different lengths)", xy.DistanceFromPointToLine(wide2(p, 0, 0), wide2(a, 1, 5), wide2(b, 3, 5)), exact2)
			}
			// -0 is the grid value 0: the same call with the zeros of one end negative
			if ok {
				ok = check("DistanceFromPointToLine(zeros of the far end negative)", xy.DistanceFromPointToLine(co2(p), co2(a), negZeros(co2(b))), exact2) &&
					check("DistanceFromPointToLine(zeros of the point and the near end negative)", xy.DistanceFromPointToLine(negZeros(co2(p)), negZeros(co2(a)), co2(b)), exact2)
			}
			if ok && a != b {
				// perpendicular distance to the infinite line
				cr := ref.Cross(ref.P2{X: a.X, Y: a.Y}, ref.P2{X: b.X, Y: b.Y}, ref.P2{X: p.X, Y: p.Y})
				l2 := ref.Dist2(ref.P2{X: a.X, Y: a.Y}, ref.P2{X: b.X, Y: b.Y})
				perp2 := new(big.Rat).Quo(new(big.Rat).Mul(cr, cr), l2)
				ok = check("PerpendicularDistanceFromPointToLine", xy.PerpendicularDistanceFromPointToLine(co2(p), co2(a), co2(b)), perp2)
			}
		case "seg-seg2":
			a, b, cc, d := p2as3(v, 0), p2as3(v, 1), p2as3(v, 2), p2as3(v, 3)
			exact2 = ref.SegSeg2(a, b, cc, d)
			ok = check("DistanceFromLineToLine", xy.DistanceFromLineToLine(co2(a), co2(b), co2(cc), co2(d)), exact2) &&
				check("DistanceFromLineToLine(swapped)", xy.DistanceFromLineToLine(co2(cc), co2(d), co2(a), co2(b)), exact2) &&
				check("DistanceFromLineToLine(reversed)", xy.DistanceFromLineToLine(co2(b), co2(a), co2(d), co2(cc)), exact2) &&
				check("DistanceFromLineToLine(coordinates with extra ordinates)", xy.DistanceFromLineToLine(wide2(a, 1, 1), wide2(b, 1, 2), wide2(cc, 2, 3), wide2(d, 2, 4)), exact2)
		case "pt-line2":
			p := p2as3(v, 0)
			n := len(v)/2 - 1
			line := make([]float64, 0, 2*n)
			for i := 1; i <= n; i++ {
				q := p2as3(v, i)
				line = append(line, q.X, q.Y)
				var d2 *big.Rat
				if i == 1 {
					d2 = ref.PointSeg2(p, q, q)
				} else {
					d2 = ref.PointSeg2(p, p2as3(v, i-1), q)
				}
				if exact2 == nil || d2.Cmp(exact2) < 0 {
					exact2 = d2
				}
			}
			lay, pc := geom.XY, co2(p)
			if cs.Stride > 2 {
				lay = map[int]geom.Layout{3: geom.XYZ, 4: geom.XYZM, 5: geom.Layout(5)}[cs.Stride]
				wide := make([]float64, 0, n*cs.Stride)
				for i := 0; i < n; i++ {
					wide = append(wide, line[2*i], line[2*i+1])
					for k := 2; k < cs.Stride; k++ {
						wide = append(wide, float64(1e7+i*k))
					}
				}
				line = wide
				pc = make(geom.Coord, cs.Stride)
				pc[0], pc[1] = p.X, p.Y
				for k := 2; k < cs.Stride; k++ {
					pc[k] = -5e6
				}
			}
			ok = check("DistanceFromPointToLineString", xy.DistanceFromPointToLineString(lay, pc, line), exact2)
		case "pt-seg3":
			p, a, b := p3(v, 0), p3(v, 1), p3(v, 2)
			exact2 = ref.PointSeg2(p, a, b)
			ok = check("xyz.DistancePointToLine", xyz.DistancePointToLine(co3(p), co3(a), co3(b)), exact2) &&
				check("xyz.DistancePointToLine(reversed)", xyz.DistancePointToLine(co3(p), co3(b), co3(a)), exact2) &&
				check("xyz.Distance", xyz.Distance(co3(p), co3(a)), ref.PointSeg2(p, a, a)) &&
				check("xyz.DistancePointToLine(zeros of the far end negative)", xyz.DistancePointToLine(co3(p), co3(a), negZeros(co3(b))), exact2) &&
				check("xyz.DistancePointToLine(zeros of the near end and of the point negative)", xyz.DistancePointToLine(negZeros(co3(p)), negZeros(co3(a)), co3(b)), exact2)
		case "seg-seg3":
			a, b, cc, d := p3(v, 0), p3(v, 1), p3(v, 2), p3(v, 3)
			exact2 = ref.SegSeg2(a, b, cc, d)
			ok = check("xyz.DistanceLineToLine", xyz.DistanceLineToLine(co3(a), co3(b), co3(cc), co3(d)), exact2) &&
				check("xyz.DistanceLineToLine(swapped)", xyz.DistanceLineToLine(co3(cc), co3(d), co3(a), co3(b)), exact2) &&
				check("xyz.DistanceLineToLine(reversed)", xyz.DistanceLineToLine(co3(b), co3(a), co3(d), co3(cc)), exact2) &&
				check("xyz.DistanceLineToLine(zeros of both far ends negative)", xyz.DistanceLineToLine(co3(a), negZeros(co3(b)), co3(cc), negZeros(co3(d))), exact2) &&
				check("xyz.DistanceLineToLine(zeros of both near ends negative)", xyz.DistanceLineToLine(negZeros(co3(a)), co3(b), negZeros(co3(cc)), co3(d)), exact2)
		case "pt-pt3":
			// Z = NaN on either side: the distance is the XY distance
			a, b := p3(v, 0), p3(v, 1)
			fa, fb := a, b
			if math.IsNaN(a.Z) || math.IsNaN(b.Z) {
				fa.Z, fb.Z = 0, 0
			}
			exact2 = ref.PointSeg2(fa, fb, fb)
			ok = check("xyz.Distance", xyz.Distance(co3(a), co3(b)), exact2) && check("xyz.Distance(swapped)", xyz.Distance(co3(b), co3(a)), exact2)
		}
	})
	if pn != nil {
		fail("panic", fmt.Sprintf("panic %v", pn))
		return
	}
	if !ok {
		return
	}
	if exact2.Sign() == 0 {
		c.Count("touching", 1)
	} else {
		c.Count("apart", 1)
	}
	c.DistinctStr(fmt.Sprint(cs.Mode, bitsOf(v)))
	c.Sample(cs.Mode, 2, cs)
}

func c15Run(c *engine.Ctx) {
	var g4 [][2]float64
	n2 := 4
	if c.Thorough() {
		n2 = 5
	}
	for x := 0; x < n2; x++ {
		for y := 0; y < n2; y++ {
			g4 = append(g4, [2]float64{float64(x), float64(y)})
		}
	}
	s20, tx, ty := math.Ldexp(1, 20), 12345.0, -math.Ldexp(1, 19)
	xf := func(v []ref.F, k int) []ref.F {
		if k == 0 {
			return v
		}
		w := make([]ref.F, len(v))
		for i, x := range v {
			if i%2 == 0 {
				w[i] = ref.F(float64(x)*s20 + tx)
			} else {
				w[i] = ref.F(float64(x)*s20 + ty)
			}
		}
		return w
	}
	c.Parallel(len(g4), func(i int) {
		a := g4[i]
		for _, b := range g4 {
			for _, p := range g4 {
				for k := 0; k < 2; k++ {
					c15Exec(c, c15Case{Mode: "pt-seg2", V: xf([]ref.F{ref.F(p[0]), ref.F(p[1]), ref.F(a[0]), ref.F(a[1]), ref.F(b[0]), ref.F(b[1])}, k)})
				}
				for _, q := range g4 {
					for k := 0; k < 2; k++ {
						c15Exec(c, c15Case{Mode: "seg-seg2", V: xf([]ref.F{ref.F(a[0]), ref.F(a[1]), ref.F(b[0]), ref.F(b[1]), ref.F(p[0]), ref.F(p[1]), ref.F(q[0]), ref.F(q[1])}, k)})
					}
					c15Exec(c, c15Case{Mode: "pt-line2", V: []ref.F{ref.F(q[0]), ref.F(q[1]), ref.F(a[0]), ref.F(a[1]), ref.F(b[0]), ref.F(b[1]), ref.F(p[0]), ref.F(p[1])}})
				}
			}
			c15Exec(c, c15Case{Mode: "pt-line2", V: []ref.F{ref.F(b[0]), ref.F(b[1]), ref.F(a[0]), ref.F(a[1])}})
		}
	})
	// 3D
	var g3 [][3]float64
	xs := []float64{0, 1, 2}
	for _, x := range xs {
		for y := 0; y < 3; y++ {
			for z := 0; z < 3; z++ {
				g3 = append(g3, [3]float64{x, float64(y), float64(z)})
			}
		}
	}
	c.Note("points_3d", len(g3))
	f3 := func(ps ...[3]float64) []ref.F {
		var out []ref.F
		for _, p := range ps {
			out = append(out, ref.F(p[0]), ref.F(p[1]), ref.F(p[2]))
		}
		return out
	}
	scale3 := func(v []ref.F) []ref.F {
		w := make([]ref.F, len(v))
		for i, x := range v {
			w[i] = ref.F(float64(x)*s20 - 7)
		}
		return w
	}
	c.Parallel(len(g3), func(i int) {
		a := g3[i]
		for _, b := range g3 {
			for _, p := range g3 {
				c15Exec(c, c15Case{Mode: "pt-seg3", V: f3(p, a, b)})
				for _, q := range g3 {
					v := f3(a, b, p, q)
					c15Exec(c, c15Case{Mode: "seg-seg3", V: v})
					if (i+int(q[1]))%4 == 0 {
						c15Exec(c, c15Case{Mode: "seg-seg3", V: scale3(v)})
					}
				}
			}
			c15Exec(c, c15Case{Mode: "pt-pt3", V: []ref.F{ref.F(a[0]), ref.F(a[1]), ref.F(math.NaN()), ref.F(b[0]), ref.F(b[1]), ref.F(b[2])}})
			c15Exec(c, c15Case{Mode: "pt-pt3", V: []ref.F{ref.F(a[0]), ref.F(a[1]), ref.F(a[2]), ref.F(b[0]), ref.F(b[1]), ref.F(math.NaN())}})
			c15Exec(c, c15Case{Mode: "pt-pt3", V: f3(a, b)})
		}
	})
	// long line strings (every vertex count 2..70, then up to 1003): "star" zig-zags that alternate
	// between far vertices and near vertices whose distance to the query region shrinks along the
	// line, so that late, long segments arriving from far away carry the minimum; both directions
	// of the line; query points on a 5x5 lattice around the centre; strides 2..5
	var counts []int
	for n := 2; n <= 70; n++ {
		counts = append(counts, n)
	}
	counts = append(counts, 96, 103, 128, 129, 200, 257, 1003)
	dirs := [][2]float64{{1, 0}, {1, 1}, {0, 1}, {-1, 1}, {-1, 0}, {-1, -1}, {0, -1}, {1, -1}, {2, 1}, {-1, 2}}
	c.Parallel(len(counts), func(ci int) {
		n := counts[ci]
		for _, R := range []float64{1000, 37} {
			pts := make([][2]float64, n)
			for k := 0; k < n; k++ {
				d := dirs[(k/2*3+k)%len(dirs)]
				if k%2 == 0 {
					pts[k] = [2]float64{R * d[0], R * d[1]}
				} else {
					r := float64(n-k)/2 + 2
					pts[k] = [2]float64{r * d[0], r * d[1]}
				}
			}
			for _, rev := range []bool{false, true} {
				for qx := -2; qx <= 2; qx++ {
					for qy := -2; qy <= 2; qy++ {
						v := []ref.F{ref.F(qx), ref.F(qy)}
						for k := range pts {
							q := pts[k]
							if rev {
								q = pts[n-1-k]
							}
							v = append(v, ref.F(q[0]), ref.F(q[1]))
						}
						c.Count("long_linestring_queries", 1)
						c15Exec(c, c15Case{Mode: "pt-line2", V: v, Stride: 2 + (n+qx+2)%4})
					}
				}
			}
		}
	})
	// line strings of 65..200 vertices in which exactly ONE segment, at every index in turn, comes
	// near the query point (the vertices before it far away on one side, those after it far away
	// on the other): a scan that skips or merges runs of segments loses the one that matters
	type oneSeg struct{ n, k int }
	var oneSegs []oneSeg
	for _, n := range []int{65, 66, 129, 130, 200} {
		for k := 0; k+1 < n; k++ {
			oneSegs = append(oneSegs, oneSeg{n, k})
		}
	}
	c.Note("one_near_segment_lines", len(oneSegs))
	c.Parallel(len(oneSegs), func(i int) {
		j := oneSegs[i]
		pts := make([][2]float64, j.n)
		for v := range pts {
			if v <= j.k {
				pts[v] = [2]float64{float64(100 + v), float64(100 + (7*v)%13)}
			} else {
				pts[v] = [2]float64{float64(-100 - 100*(v-j.k-1)), -60}
			}
		}
		for _, rev := range []bool{false, true} {
			for _, q := range [][2]float64{{0, 0}, {1, -1}} {
				v := []ref.F{ref.F(q[0]), ref.F(q[1])}
				for x := range pts {
					p := pts[x]
					if rev {
						p = pts[j.n-1-x]
					}
					v = append(v, ref.F(p[0]), ref.F(p[1]))
				}
				c.Count("one_near_segment_queries", 1)
				c15Exec(c, c15Case{Mode: "pt-line2", V: v, Stride: 2 + (j.k+j.n)%4})
			}
		}
	})
	// proper crossings NEAR THE TIPS of segments of unequal length: a long segment from the origin
	// along every primitive direction with |a|,|b| <= 3 (8 or 40 steps), crossed at its lattice
	// point 1..3 steps before the tip by a short segment along every other primitive direction that
	// reaches 1..3 steps to one side and 1..3, 20 or 45 steps to the other; both directions of the long segment, the short one first
	// and second (c15Exec adds the swapped and reversed calls)
	var prim [][2]float64
	for a := -3; a <= 3; a++ {
		for b := -3; b <= 3; b++ {
			if (a != 0 || b != 0) && gcdInt(absInt(a), absInt(b)) == 1 {
				prim = append(prim, [2]float64{float64(a), float64(b)})
			}
		}
	}
	c.Parallel(len(prim), func(i int) {
		ab := prim[i]
		for _, m := range []float64{8, 40} {
			for k := 1.0; k <= 3; k++ {
				x := [2]float64{(m - k) * ab[0], (m - k) * ab[1]}
				for _, d := range prim {
					if d[0]*ab[1]-d[1]*ab[0] == 0 {
						continue
					}
					for _, u := range []float64{1, 2, 3} {
						for _, v := range []float64{1, 2, 3, 20, 45} { // (the far side also long: both segments long, of different length, crossing near a tip of each)
							tip := [2]float64{m * ab[0], m * ab[1]}
							p, q := [2]float64{x[0] - u*d[0], x[1] - u*d[1]}, [2]float64{x[0] + v*d[0], x[1] + v*d[1]}
							c.Count("tip_crossings", 2)
							c15Exec(c, c15Case{Mode: "seg-seg2", V: []ref.F{0, 0, ref.F(tip[0]), ref.F(tip[1]), ref.F(p[0]), ref.F(p[1]), ref.F(q[0]), ref.F(q[1])}})
							c15Exec(c, c15Case{Mode: "seg-seg2", V: []ref.F{ref.F(tip[0]), ref.F(tip[1]), 0, 0, ref.F(p[0]), ref.F(p[1]), ref.F(q[0]), ref.F(q[1])}})
						}
					}
				}
			}
		}
	})
	// 3D segment pairs with ordinates 0..3 (the {0,1,2}^3 sweep cannot hold an overshoot beyond the
	// far end of the other segment): every b, c, d in {0..3}^3 for three choices of a
	if true {
		var g4 [][3]float64
		for x := 0; x < 4; x++ {
			for y := 0; y < 4; y++ {
				for z := 0; z < 4; z++ {
					g4 = append(g4, [3]float64{float64(x), float64(y), float64(z)})
				}
			}
		}
		as := [][3]float64{{0, 0, 0}, {0, 0, 3}, {1, 2, 3}}
		f3b := func(ps ...[3]float64) []ref.F {
			var out []ref.F
			for _, p := range ps {
				out = append(out, ref.F(p[0]), ref.F(p[1]), ref.F(p[2]))
			}
			return out
		}
		step := 3 // quick: every third d
		if c.Thorough() {
			step = 1
		}
		c.Parallel(len(g4), func(i int) {
			b := g4[i]
			for ai, a := range as {
				for ci, cc := range g4 {
					for di := (i + ci + ai) % step; di < len(g4); di += step {
						c.Count("grid4_3d_pairs", 1)
						c15Exec(c, c15Case{Mode: "seg-seg3", V: f3b(a, b, cc, g4[di])})
					}
				}
			}
		})
	}
	// every polyline of 4 (thorough: also 5) vertices on the 3x3 grid - repeated vertices at any
	// position included (a zero-length first, middle or last segment, a line that folds back) - x
	// every query point of the grid, in strides 2..5
	var g9 [][2]float64
	for x := 0; x < 3; x++ {
		for y := 0; y < 3; y++ {
			g9 = append(g9, [2]float64{float64(x), float64(y)})
		}
	}
	maxV := 4
	if c.Thorough() {
		maxV = 5
	}
	c.Parallel(81, func(i int) {
		var rec func(line [][2]float64)
		rec = func(line [][2]float64) {
			if len(line) >= 4 {
				for qi, q := range g9 {
					v := []ref.F{ref.F(q[0]), ref.F(q[1])}
					for _, p := range line {
						v = append(v, ref.F(p[0]), ref.F(p[1]))
					}
					c.Count("small_polyline_queries", 1)
					c15Exec(c, c15Case{Mode: "pt-line2", V: v, Stride: 2 + (i+qi+len(line))%4})
				}
			}
			if len(line) == maxV {
				return
			}
			for _, p := range g9 {
				rec(append(append([][2]float64{}, line...), p))
			}
		}
		rec([][2]float64{g9[i/9], g9[i%9]})
	})
	// very long line strings (beyond any block size a divided scan might use): the query point
	// beside the middle of EVERY segment in turn, in both directions of the line. One library call
	// per query against the exact distance to the three segments around it (all others are farther
	// away by construction); a disagreement goes through c15Exec for the verdict over all segments.
	longNs := []int{4099, 16390, 20001}
	if c.Thorough() {
		longNs = append(longNs, 32770, 65540)
	}
	c.Note("very_long_lines", fmt.Sprint(longNs))
	for _, n := range longNs {
		n := n
		line := c15LongLine(n)
		rline := make([]float64, len(line))
		for i := 0; i < n; i++ {
			rline[2*i], rline[2*i+1] = line[2*(n-1-i)], line[2*(n-1-i)+1]
		}
		at := func(i int) ref.P3 { return ref.P3{X: line[2*i], Y: line[2*i+1]} }
		c.Parallel(n-1, func(k int) {
			q := c15LongQuery(k)
			p := ref.P3{X: q[0], Y: q[1]}
			var ex *big.Rat
			for j := k - 1; j <= k+1; j++ {
				if j < 0 || j+1 >= n {
					continue
				}
				if d2 := ref.PointSeg2(p, at(j), at(j+1)); ex == nil || d2.Cmp(ex) < 0 {
					ex = d2
				}
			}
			want := ref.SqrtRat(ex)
			c.Count("evaluations", 1)
			c.Count("very_long_line_queries", 1)
			got := xy.DistanceFromPointToLineString(geom.XY, geom.Coord{q[0], q[1]}, line)
			got2 := xy.DistanceFromPointToLineString(geom.XY, geom.Coord{q[0], q[1]}, rline)
			if math.IsNaN(got) || !ref.AbsDiffLE(got, want, 1e-9*float64(4*n)) {
				c15Exec(c, c15Case{Mode: "pt-line2", Gen: fmt.Sprintf("longline/%d/%d", n, k)})
			}
			if math.IsNaN(got2) || !ref.AbsDiffLE(got2, want, 1e-9*float64(4*n)) {
				c15Exec(c, c15Case{Mode: "pt-line2", Gen: fmt.Sprintf("longlinerev/%d/%d", n, k)})
			}
		})
	}
	// 3D: long, nearly parallel segments on the grid up to 2^20 (crossing, touching or skew by a
	// few lattice steps): the closest-approach parameters are badly conditioned there
	type s3 struct{ a, b, p, q [3]float64 }
	var long3 []s3
	sh := [][3]float64{{0, 0, 0}, {0, 1, 0}, {0, 0, 1}, {0, 1, 1}, {1, 0, 0}, {0, -1, 2}, {0, 3, 0}, {2, 1, -1}}
	for _, L := range []float64{1<<17 + 1, 1 << 20, 999983} {
		for _, d := range [][3]float64{{L, 0, 0}, {L, 7, 0}, {L, L - 1, 0}, {L, 5, L - 3}, {3, L, 11}} {
			for _, s1 := range sh {
				for _, s2 := range sh {
					a := [3]float64{0, 0, 0}
					b := d
					long3 = append(long3, s3{a, b, [3]float64{a[0] + s1[0], a[1] + s1[1], a[2] + s1[2]}, [3]float64{b[0] - s2[0], b[1] - s2[1], b[2] - s2[2]}})
					long3 = append(long3, s3{a, b, [3]float64{a[0] + s1[0], a[1] + s1[1], a[2] + s1[2]}, [3]float64{b[0] + s2[0], b[1] + s2[1], b[2] + s2[2]}})
					// second segment much shorter, alongside the middle of the first
					m := [3]float64{math.Floor(d[0] / 2), math.Floor(d[1] / 2), math.Floor(d[2] / 2)}
					long3 = append(long3, s3{a, b, [3]float64{m[0] + s1[0], m[1] + s1[1], m[2] + s1[2]}, [3]float64{m[0] + math.Floor(d[0]/8) - s2[0], m[1] + math.Floor(d[1]/8) - s2[1], m[2] + math.Floor(d[2]/8) - s2[2]}})
				}
			}
		}
	}
	c.Note("long_3d_configurations", len(long3))
	c.Parallel(len(long3), func(i int) {
		t := long3[i]
		if t.p == t.q {
			return
		}
		c.Count("long_3d_cases", 1)
		c15Exec(c, c15Case{Mode: "seg-seg3", V: f3(t.a, t.b, t.p, t.q)})
		c15Exec(c, c15Case{Mode: "pt-seg3", V: f3(t.p, t.a, t.b)})
	})
	// 2D: lattice points on and next to long segments with rough integer coordinates up to 2^20
	// (origin o, primitive direction d, end o+n*d; query o+k*d shifted by at most one lattice
	// step): point-segment, point-linestring (a far second segment follows) and collinear
	// overlapping or touching segment pairs
	origins2 := [][2]float64{{0, 0}, {123457, 654321}, {1<<20 - 1, 1<<19 + 3}, {-999983, 7}, {16385, -16411}}
	dirs2 := [][2]float64{{1, 0}, {0, 1}, {1, 1}, {3, 1}, {-7, 5}, {2, -9}, {1021, 3}, {5, 1013}}
	shifts2 := [][2]float64{{0, 0}, {1, 0}, {0, 1}, {-1, 1}, {0, -1}}
	type l2 struct {
		o, d [2]float64
		n    float64
	}
	var long2 []l2
	for _, o := range origins2 {
		for _, d := range dirs2 {
			for _, n := range []float64{2, 10, 1000, 100000} {
				if math.Abs(o[0]+n*d[0]) <= 1<<20 && math.Abs(o[1]+n*d[1]) <= 1<<20 {
					long2 = append(long2, l2{o, d, n})
				}
			}
		}
	}
	c.Note("long_2d_configurations", len(long2))
	c.Parallel(len(long2), func(i int) {
		t := long2[i]
		at := func(k float64) [2]float64 { return [2]float64{t.o[0] + k*t.d[0], t.o[1] + k*t.d[1]} }
		a, b := at(0), at(t.n)
		for _, k := range []float64{0, 1, math.Floor(t.n / 3), math.Floor(t.n / 2), t.n - 1, t.n, t.n + 1, -1} {
			for _, sft := range shifts2 {
				q := at(k)
				q[0] += sft[0]
				q[1] += sft[1]
				c.Count("long_2d_cases", 1)
				c15Exec(c, c15Case{Mode: "pt-seg2", V: []ref.F{ref.F(q[0]), ref.F(q[1]), ref.F(a[0]), ref.F(a[1]), ref.F(b[0]), ref.F(b[1])}})
				far := [2]float64{b[0] - 1000*t.d[1], b[1] + 1000*t.d[0]}
				c15Exec(c, c15Case{Mode: "pt-line2", V: []ref.F{ref.F(q[0]), ref.F(q[1]), ref.F(a[0]), ref.F(a[1]), ref.F(b[0]), ref.F(b[1]), ref.F(far[0]), ref.F(far[1])}})
				// a second segment from q along the same direction (collinear when the shift is zero)
				e := [2]float64{q[0] + 2*t.d[0], q[1] + 2*t.d[1]}
				c15Exec(c, c15Case{Mode: "seg-seg2", V: []ref.F{ref.F(a[0]), ref.F(a[1]), ref.F(b[0]), ref.F(b[1]), ref.F(q[0]), ref.F(q[1]), ref.F(e[0]), ref.F(e[1])}})
			}
		}
	})
	// 2D: an exactly horizontal or vertical segment crossed properly by a rough one on grids up to
	// 2^20 (distance 0), in both argument orders
	apc := axisParallelCrossings()
	c.Parallel(len(apc), func(i int) {
		t := apc[i]
		v := make([]ref.F, 8)
		for k := range t {
			v[k] = ref.F(t[k])
		}
		c.Count("axis_parallel_cases", 1)
		c15Exec(c, c15Case{Mode: "seg-seg2", V: v})
		c15Exec(c, c15Case{Mode: "seg-seg2", V: []ref.F{v[6], v[7], v[4], v[5], v[2], v[3], v[0], v[1]}})
	})
	if c.Get("touching") == 0 || c.Get("apart") == 0 {
		c.Warn("vacuous: touching or apart class empty")
	}
}
