package checks

import (
	"bytes"
	"context"
	"encoding/binary"
	"encoding/hex"
	"encoding/json"
	"errors"
	"fmt"
	"math"
	"os"
	"os/exec"
	"runtime"
	"runtime/debug"
	"runtime/metrics"
	"strings"
	"time"

	"github.com/twpayne/go-geom"
	"github.com/twpayne/go-geom/encoding/ewkb"
	"github.com/twpayne/go-geom/encoding/ewkbhex"
	"github.com/twpayne/go-geom/encoding/wkb"
	"github.com/twpayne/go-geom/encoding/wkbcommon"
	"github.com/twpayne/go-geom/encoding/wkbhex"

	"verif/engine"
	"verif/ref"
)

// C04 — binary decoders are total, allocation-bounded and canonical on arbitrary bytes.
// A reference reader model walks the format field by field; its decision points are the
// explorer's choice points (default = simplest valid value, every other menu entry is a
// deviation). Every generated string is decoded by the implementation and the verdicts
// are compared (conformance = the check).

type c04Case struct {
	Mode    string `json:"mode"` // model | sweep | depth
	Ext     bool   `json:"ewkb"`
	NaN     bool   `json:"nan_mode,omitempty"`
	Limits  [4]int `json:"limits"`
	Choices []int  `json:"choices,omitempty"`
	Hex     string `json:"hex,omitempty"`
	MaxF    uint32 `json:"max_forged,omitempty"`
	Levels  int    `json:"levels,omitempty"`
	StackMB int    `json:"max_stack_mb,omitempty"`
	// Top / TopLayout: the kind and layout the generator emits by default for the outermost
	// geometry (zero values: Point XY). Starting from another kind reaches deeper structures
	// within the same deviation bound.
	Top       ref.Kind    `json:"top_kind,omitempty"`
	TopLayout geom.Layout `json:"top_layout,omitempty"`
}

func init() {
	engine.Register(&engine.Check{
		ID: "C04", Level: "model_checking",
		Rule:   "states = decision points of a reference WKB/EWKB reader model (byte order, type word, SRID, counts per level, coordinate blocks, truncation, trailing bytes); DFS over all field-choice sequences with <=3 (quick) / <=4 (thorough) non-default choices, <=14 fields, for WKB, WKB-NaN and EWKB under limit configurations {-1,0,2}^3 (quick) / {-1,0,1,2}^3 (thorough); every generated string is decoded by Unmarshal, hex Decode and Scan and compared with the model verdict OK(geometry)/TooLarge{level,n,limit}/Error (an input the model rejects may be accepted by a more liberal decoder if the result is well formed and canonical; an input the model accepts must be accepted when it is the standard encoding); forged counts are tried in ascending magnitude with the heap-allocation delta measured around each decode; plus a role-blind sweep (every prefix, every byte x 5 values, every 4-byte word x count menu) of every corpus encoding under enabled limits, and a nesting-depth family in a sacrificial subprocess Also: valid encodings with 100..4000 (thorough 16000) one-to-three-position rings / lines / points / polygons / collection members decoded with the allocation measured (must stay additive in the input length); an SRID word on every kind at every nesting level, generation starting from a collection / multipolygon / multilinestring as outermost kind, and intact encodings with one coordinate array of 2^k+1 positions (k=11..16) decoded, re-encoded and decoded again. Round 10: 100/1000/3000 nested collections cut off before the innermost member (an error, allocation additive in the input length). Round 12: the deepest complete nested decode of the thorough tier is 10^5 levels (the library builds the result in quadratic time); every depth probe under a 12-minute deadline. Round 13: the truncated chains of nested collections again with every announced count equal to the limit.",
		Run:    c04Run,
		Replay: func(c *engine.Ctx, kind string, raw json.RawMessage) { c04Exec(c, decodeCase[c04Case](raw)) },
		Assumptions: []string{
			"With a level's limit disabled only counts 0..3 backed by input are generated for that level (per the quantifier)",
			"Arbitrary noise inside coordinate blocks is represented by ones and canonical NaNs (bytes there are only copied)",
			"Allocation is measured with runtime/metrics /gc/heap/allocs:bytes on a quiescent process; bound 64 KiB + 16*len(input) + 64*sum(limits)",
		},
	})
}

type vkind int

const (
	vOK vkind = iota
	vTooLarge
	vErr
)

type verdict struct {
	kind            vkind
	level, n, limit int
	why             string
}

type g04 struct {
	m         *engine.MC
	ext, nan  bool
	limits    [4]int
	out       []byte
	fields    int
	maxFields int
	maxForged uint32
	forged    bool
	ctr       float64
}

var errV = verdict{kind: vErr}

func (g *g04) u32(v uint32, xdr bool) {
	var t [4]byte
	if xdr {
		binary.BigEndian.PutUint32(t[:], v)
	} else {
		binary.LittleEndian.PutUint32(t[:], v)
	}
	g.out = append(g.out, t[:]...)
}

func (g *g04) f64(v float64, xdr bool) {
	var t [8]byte
	if xdr {
		binary.BigEndian.PutUint64(t[:], math.Float64bits(v))
	} else {
		binary.LittleEndian.PutUint64(t[:], math.Float64bits(v))
	}
	g.out = append(g.out, t[:]...)
}

// field accounts for one field; returns false when the horizon is reached (input ends here).
func (g *g04) field() bool {
	g.fields++
	return g.fields <= g.maxFields
}

// truncChoice appends the two truncation options to a menu of n regular options:
// n = truncate before the field, n+1 = truncate in the middle of the field.
const (
	truncNone = iota
	truncBefore
	truncMid
)

func layoutOfCode(l geom.Layout) (z, m bool) {
	return l == geom.XYZ || l == geom.XYZM, l == geom.XYM || l == geom.XYZM
}

type typeOpt struct {
	word   uint32
	kind   ref.Kind
	layout geom.Layout
	srid   bool
	bad    string // non-empty: invalid type word
}

func (g *g04) typeMenu(defKind ref.Kind, ctxLayout geom.Layout) []typeOpt {
	var out []typeOpt
	code := map[ref.Kind]uint32{ref.Point: 1, ref.LineString: 2, ref.Polygon: 3, ref.MultiPoint: 4, ref.MultiLineString: 5, ref.MultiPolygon: 6, ref.Collection: 7}
	mk := func(k ref.Kind, l geom.Layout, srid bool) typeOpt {
		z, m := layoutOfCode(l)
		w := code[k]
		if g.ext {
			if z {
				w |= 0x80000000
			}
			if m {
				w |= 0x40000000
			}
			if srid {
				w |= 0x20000000
			}
		} else {
			switch {
			case z && m:
				w += 3000
			case m:
				w += 2000
			case z:
				w += 1000
			}
		}
		return typeOpt{word: w, kind: k, layout: l, srid: srid && g.ext}
	}
	out = append(out, mk(defKind, ctxLayout, false))
	kinds := []ref.Kind{ref.Point, ref.LineString, ref.Polygon, ref.MultiPoint, ref.MultiLineString, ref.MultiPolygon, ref.Collection}
	for _, k := range kinds {
		if k != defKind {
			out = append(out, mk(k, ctxLayout, false))
		}
	}
	for _, l := range ref.Layouts4 {
		if l == ctxLayout {
			continue
		}
		for _, k := range []ref.Kind{ref.Point, ref.LineString, ref.Collection} {
			out = append(out, mk(k, l, false))
		}
	}
	if g.ext {
		out = append(out, mk(defKind, ctxLayout, true), mk(ref.Point, geom.XYZM, true))
		for _, k := range kinds {
			if k != defKind {
				out = append(out, mk(k, ctxLayout, true)) // an SRID word on every kind, at every level
			}
		}
		out = append(out,
			typeOpt{word: 0x10000001, bad: "stray bit 28"}, typeOpt{word: 0x08000001, bad: "stray bit 27"},
			typeOpt{word: 1001, bad: "ISO code in EWKB"})
	} else {
		out = append(out,
			typeOpt{word: 4001, bad: "dimension code 4"}, typeOpt{word: 0x80000001, bad: "EWKB flag in WKB"},
			typeOpt{word: 1000, bad: "kind 0 with Z"})
	}
	for _, w := range []uint32{0, 8, 15, 16, 17, 0x01000000, 0xFFFFFFFF} {
		out = append(out, typeOpt{word: w, bad: fmt.Sprintf("invalid type %d", w)})
	}
	return out
}

func (g *g04) countMenu(level int, unlimited bool) []uint32 {
	limit := g.limits[level]
	if unlimited {
		limit = -1
	}
	menu := []uint32{1, 0, 2, 3}
	if limit >= 0 {
		for _, v := range []uint32{uint32(limit), uint32(limit) + 1, 1 << 16, 1 << 24, 1<<31 - 1, 1 << 31, 1<<32 - 1} {
			dup := false
			for _, m := range menu {
				if m == v {
					dup = true
				}
			}
			if !dup && (v <= 3 || v <= g.maxForged) {
				menu = append(menu, v)
			}
		}
	}
	return menu
}

// count emits a count field of a level; returns n and a verdict (vOK to continue).
func (g *g04) count(level int, unlimited bool, xdr bool) (uint32, verdict) {
	if !g.field() {
		return 0, errV
	}
	menu := g.countMenu(level, unlimited)
	ch := g.m.Choose(len(menu)+2, fmt.Sprintf("count/L%d", level))
	if ch == len(menu) {
		return 0, errV // truncated before the field
	}
	if ch == len(menu)+1 {
		g.out = append(g.out, 1, 0) // half a field
		return 0, errV
	}
	n := menu[ch]
	g.u32(n, xdr)
	limit := g.limits[level]
	if unlimited {
		limit = -1
	}
	if limit >= 0 && int(n) > limit {
		if n > 3 {
			g.forged = true
		}
		return n, verdict{kind: vTooLarge, level: level, n: int(n), limit: limit}
	}
	return n, verdict{}
}

// coords emits n coordinates of the given stride. nanOpt adds the all-NaN option (points).
func (g *g04) coords(n, stride int, xdr, nanOpt bool) ([]ref.C, bool, verdict) {
	if n == 0 {
		return nil, false, verdict{}
	}
	if !g.field() {
		return nil, false, errV
	}
	opts := 3
	if nanOpt {
		opts = 4
	}
	// 0 values, 1 truncated before, 2 truncated mid, 3 all canonical NaN
	ch := g.m.Choose(opts, "coords")
	switch ch {
	case 1:
		return nil, false, errV
	case 2:
		g.out = append(g.out, 0, 0, 0)
		return nil, false, errV
	}
	out := make([]ref.C, n)
	for i := range out {
		c := make(ref.C, stride)
		for j := range c {
			if ch == 3 {
				c[j] = ref.F(math.Float64frombits(0x7FF8000000000000))
			} else {
				g.ctr++
				c[j] = ref.F(g.ctr)
			}
			g.f64(float64(c[j]), xdr)
		}
		out[i] = c
	}
	return out, ch == 3, verdict{}
}

// geometry generates one geometry. want < 0: any kind accepted; otherwise the child kind a
// multi-geometry requires (with wantLayout).
func (g *g04) geometry(defKind ref.Kind, ctxLayout geom.Layout) (*ref.G, verdict) {
	// byte order
	if !g.field() {
		return nil, errV
	}
	ch := g.m.Choose(5, "byteorder")
	var xdr bool
	switch ch {
	case 0:
		g.out = append(g.out, 1)
	case 1:
		g.out = append(g.out, 0)
		xdr = true
	case 2:
		g.out = append(g.out, 2)
		return nil, errV
	case 3:
		g.out = append(g.out, 255)
		return nil, errV
	case 4:
		return nil, errV // truncated
	}
	// type word
	if !g.field() {
		return nil, errV
	}
	tm := g.typeMenu(defKind, ctxLayout)
	ch = g.m.Choose(len(tm)+2, "type")
	if ch == len(tm) {
		return nil, errV
	}
	if ch == len(tm)+1 {
		g.out = append(g.out, 1)
		return nil, errV
	}
	to := tm[ch]
	g.u32(to.word, xdr)
	if to.bad != "" {
		return nil, errV
	}
	res := &ref.G{Kind: to.kind, Layout: to.layout}
	if to.srid {
		if !g.field() {
			return nil, errV
		}
		sm := []uint32{4326, 0, 1<<32 - 1}
		ch = g.m.Choose(len(sm)+1, "srid")
		if ch == len(sm) {
			g.out = append(g.out, 7, 7)
			return nil, errV
		}
		g.u32(sm[ch], xdr)
		res.SRID = int(sm[ch])
	}
	stride := to.layout.Stride()
	switch to.kind {
	case ref.Point:
		cs, nan, v := g.coords(1, stride, xdr, true)
		if v.kind != vOK {
			return nil, v
		}
		if nan && (g.ext || g.nan) {
			res.C0 = nil
		} else {
			res.C0 = cs[0]
		}
	case ref.LineString:
		n, v := g.count(1, false, xdr)
		if v.kind != vOK {
			return nil, v
		}
		cs, _, v := g.coords(int(n), stride, xdr, false)
		if v.kind != vOK {
			return nil, v
		}
		res.C1 = cs
		if res.C1 == nil {
			res.C1 = []ref.C{}
		}
	case ref.Polygon:
		nr, v := g.count(2, false, xdr)
		if v.kind != vOK {
			return nil, v
		}
		res.C2 = [][]ref.C{}
		for i := 0; i < int(nr); i++ {
			n, v := g.count(1, false, xdr)
			if v.kind != vOK {
				return nil, v
			}
			cs, _, v := g.coords(int(n), stride, xdr, false)
			if v.kind != vOK {
				return nil, v
			}
			res.C2 = append(res.C2, cs)
		}
	case ref.MultiPoint, ref.MultiLineString, ref.MultiPolygon:
		level := map[ref.Kind]int{ref.MultiPoint: 1, ref.MultiLineString: 2, ref.MultiPolygon: 3}[to.kind]
		child := map[ref.Kind]ref.Kind{ref.MultiPoint: ref.Point, ref.MultiLineString: ref.LineString, ref.MultiPolygon: ref.Polygon}[to.kind]
		n, v := g.count(level, false, xdr)
		if v.kind != vOK {
			return nil, v
		}
		res.C1, res.C2, res.C3 = nil, nil, nil
		switch to.kind {
		case ref.MultiPoint:
			res.C1 = []ref.C{}
		case ref.MultiLineString:
			res.C2 = [][]ref.C{}
		default:
			res.C3 = [][][]ref.C{}
		}
		for i := 0; i < int(n); i++ {
			k, v := g.geometry(child, to.layout)
			if v.kind != vOK {
				return nil, v
			}
			if k.Kind != child || k.Layout != to.layout {
				return nil, errV // unexpected child type or layout mismatch on Push
			}
			switch to.kind {
			case ref.MultiPoint:
				res.C1 = append(res.C1, k.C0)
			case ref.MultiLineString:
				res.C2 = append(res.C2, k.C1)
			default:
				res.C3 = append(res.C3, k.C2)
			}
		}
	case ref.Collection:
		n, v := g.count(1, !g.ext, xdr)
		if v.kind != vOK {
			return nil, v
		}
		for i := 0; i < int(n); i++ {
			k, v := g.geometry(ref.Point, to.layout)
			if v.kind != vOK {
				return nil, v
			}
			res.Kids = append(res.Kids, k)
		}
		if n > 0 {
			var ls []geom.Layout
			for _, k := range res.Kids {
				ls = append(ls, k.Layout)
			}
			res.Layout = ref.Cover(ls)
		}
	}
	return res, verdict{}
}

func c04Generate(m *engine.MC, cs c04Case) ([]byte, *ref.G, verdict, bool) {
	g := &g04{m: m, ext: cs.Ext, nan: cs.NaN, limits: cs.Limits, maxFields: 14, maxForged: cs.MaxF}
	top, topLayout := ref.Point, geom.XY
	if cs.TopLayout != geom.NoLayout {
		top, topLayout = cs.Top, cs.TopLayout
	}
	model, v := g.geometry(top, topLayout)
	if v.kind == vOK {
		// trailing bytes after a complete geometry are ignored by Unmarshal
		if m.Choose(2, "trailing") == 1 {
			g.out = append(g.out, 0xAB)
		}
	}
	return g.out, model, v, g.forged
}

func setLimits(l [4]int) { wkbcommon.MaxGeometryElements = l }

func c04Decode(b []byte, cs c04Case) (geom.T, error) {
	if cs.Ext {
		return ewkb.Unmarshal(b)
	}
	return wkb.Unmarshal(b, nanOpt(cs.NaN)...)
}

var allocSample = []metrics.Sample{{Name: "/gc/heap/allocs:bytes"}}

func heapAllocs() uint64 {
	metrics.Read(allocSample)
	return allocSample[0].Value.Uint64()
}

// allocBound is the allocation budget of one decode: a constant, a multiple of the input length
// (coordinates are copied once or twice and slices grow by doubling) and a multiple of the
// configured limits (a count within its limit may be allocated before its data is read:
// at most 8*4 bytes per level-1 element, 8 per ring or part).
func allocBound(inputLen int, limits [4]int) uint64 {
	sum := 0
	for _, l := range limits {
		if l > 0 {
			sum += l
		}
	}
	return uint64(64<<10 + 16*inputLen + 64*sum)
}

func c04Name(cs c04Case) string {
	n := "wkb"
	if cs.Ext {
		n = "ewkb"
	} else if cs.NaN {
		n = "wkb-nan"
	}
	return n
}

// c04Check compares one decode with the model verdict. measure: also check the allocation bound.
func c04Check(c *engine.Ctx, cs c04Case, b []byte, model *ref.G, v verdict, measure bool) {
	key := fmt.Sprintf("model/%s/lim%v", c04Name(cs), cs.Limits)
	fail := func(what, desc string) {
		cc := cs
		cc.Hex = hex.EncodeToString(b)
		c.Violate(key+"/"+what, fmt.Sprintf("%s; input %x; model verdict %s", desc, b, verdictStr(v, model)), "c04", cc)
	}
	var t geom.T
	var err error
	var before, after uint64
	if measure {
		before = heapAllocs()
	}
	p, stack := engine.Guard(func() { t, err = c04Decode(b, cs) })
	if measure {
		after = heapAllocs()
	}
	if p != nil {
		fail("panic", fmt.Sprintf("decoder panicked: %v\n%s", p, firstLines(stack, 14)))
		return
	}
	if measure {
		bound := allocBound(len(b), cs.Limits)
		delta := after - before
		// The runtime flushes per-P allocation statistics lazily, so a single delta can contain
		// stale counts from other Ps; an allocation proportional to a forged count reproduces on
		// every attempt, so the minimum over a few re-measurements is what is compared.
		for try := 0; try < 6 && delta > bound; try++ {
			b0 := heapAllocs()
			engine.Guard(func() { _, _ = c04Decode(b, cs) })
			if d := heapAllocs() - b0; d < delta {
				delta = d
			}
		}
		after = before + delta
		if after-before > bound {
			fail("allocation", fmt.Sprintf("decode allocated %d bytes, bound %d (input %d bytes)", after-before, bound, len(b)))
			return
		}
		c.Count("allocation_measured", 1)
	}
	switch v.kind {
	case vErr:
		if err == nil {
			// The property does not say which byte strings must be turned down (beyond counts over
			// their limits); it says what an ACCEPTED result must be: well formed, and canonical
			// under re-encoding. A decoder more liberal than the format model is held to that.
			if t == nil || isNilT(t) {
				fail("accepted-invalid/nil", "decoder returned neither an error nor a geometry for an input the format model rejects")
				return
			}
			if werr := ref.WellFormed(t); werr != nil {
				fail("accepted-invalid/ill-formed", "decoder accepted an input the format model rejects, and the result is not well formed: "+werr.Error())
				return
			}
			if d := c04Canonical(t, cs); d != "" {
				fail("accepted-invalid/not-canonical", "decoder accepted an input the format model rejects, and the result is not canonical: "+d)
				return
			}
			c.Count("accepted_beyond_model", 1)
			break
		}
		c.Count("verdict_error", 1)
	case vTooLarge:
		var tl wkbcommon.ErrGeometryTooLarge
		if err == nil || !errors.As(err, &tl) {
			fail("no-too-large", fmt.Sprintf("count %d exceeds the level-%d limit %d but the decoder returned %v", v.n, v.level, v.limit, err))
			return
		}
		if tl.Level != v.level || tl.N != v.n || tl.Limit != v.limit {
			fail("too-large-fields", fmt.Sprintf("ErrGeometryTooLarge%+v, expected level %d n %d limit %d", tl, v.level, v.n, v.limit))
			return
		}
		c.Count("verdict_too_large", 1)
	case vOK:
		if err != nil {
			// only the standard encodings MUST decode (the reference encoder's bytes, either byte
			// order); a decoder stricter than the format model about other spellings of the same
			// geometry (mixed byte orders, redundant SRID words) stays within the property
			canonical := bytes.Equal(b, ref.EncodeWKB(model, false, cs.Ext)) || bytes.Equal(b, ref.EncodeWKB(model, true, cs.Ext))
			if canonical {
				fail("rejected-valid", "decoder rejected the standard encoding of a geometry: "+err.Error())
				return
			}
			c.Count("rejected_nonstandard_spelling", 1)
			break
		}
		if werr := ref.WellFormed(t); werr != nil {
			fail("ill-formed", werr.Error())
			return
		}
		exp := model.Clone()
		if !cs.Ext {
			exp.SRID = 0
		}
		fixEmptyCollLayout(exp)
		if d := observeEq(t, exp, ref.EqualOpt{}); d != "" {
			fail("unequal", d)
			return
		}
		if d := c04Canonical(t, cs); d != "" {
			fail("not-canonical", d)
			return
		}
		c.Count("verdict_ok", 1)
	}
	c.DistinctStr(c04Name(cs) + string(b))
	// wrappers must agree with Unmarshal
	if d := c04Wrappers(b, cs, t, err); d != "" {
		fail("wrapper", d)
	}
}

func fixEmptyCollLayout(g *ref.G) {
	if g.Kind != ref.Collection {
		return
	}
	for _, k := range g.Kids {
		fixEmptyCollLayout(k)
	}
	if len(g.Kids) > 0 {
		var ls []geom.Layout
		for _, k := range g.Kids {
			ls = append(ls, k.Layout)
		}
		g.Layout = ref.Cover(ls)
	}
}

func verdictStr(v verdict, m *ref.G) string {
	switch v.kind {
	case vOK:
		return "OK " + m.String()
	case vTooLarge:
		return fmt.Sprintf("TooLarge{level %d, n %d, limit %d}", v.level, v.n, v.limit)
	}
	return "Error"
}

// c04Canonical: re-encoding a decoded geometry and decoding again gives an equal geometry.
func c04Canonical(t geom.T, cs c04Case) string {
	var enc []byte
	var err error
	if cs.Ext {
		enc, err = ewkb.Marshal(t, ewkb.NDR)
	} else {
		enc, err = wkb.Marshal(t, wkb.NDR, nanOpt(cs.NaN)...)
	}
	if err != nil {
		return "re-encoding a decoded geometry failed: " + err.Error()
	}
	saved := wkbcommon.MaxGeometryElements
	_ = saved
	t2, err := c04Decode(enc, cs)
	if err != nil {
		return "decoding the re-encoded geometry failed: " + err.Error()
	}
	a, _ := ref.Observe(t)
	b, _ := ref.Observe(t2)
	if !ref.Equal(a, b, ref.EqualOpt{}) {
		return fmt.Sprintf("re-encode/decode changed the geometry: %s -> %s", a, b)
	}
	return ""
}

func c04Wrappers(b []byte, cs c04Case, t geom.T, err error) string {
	hx := hex.EncodeToString(b)
	var t2 geom.T
	var err2 error
	if p, _ := engine.Guard(func() {
		if cs.Ext {
			t2, err2 = ewkbhex.Decode(hx)
		} else {
			t2, err2 = wkbhex.Decode(hx, nanOpt(cs.NaN)...)
		}
	}); p != nil {
		return fmt.Sprintf("hex Decode panicked: %v", p)
	}
	if (err == nil) != (err2 == nil) {
		return fmt.Sprintf("hex Decode disagrees with Unmarshal: %v vs %v", err2, err)
	}
	if err == nil {
		a, _ := ref.Observe(t)
		bb, _ := ref.Observe(t2)
		if !ref.Equal(a, bb, ref.EqualOpt{}) {
			return "hex Decode returned a different geometry"
		}
	}
	if !cs.NaN {
		var serr error
		var st geom.T
		if p, _ := engine.Guard(func() {
			if cs.Ext {
				// typed scanner chosen by the decoded kind (or Point when decoding failed)
				switch t.(type) {
				case *geom.LineString:
					s := &ewkb.LineString{}
					serr = s.Scan(b)
					st = s.LineString
				case *geom.Polygon:
					s := &ewkb.Polygon{}
					serr = s.Scan(b)
					st = s.Polygon
				case *geom.MultiPoint:
					s := &ewkb.MultiPoint{}
					serr = s.Scan(b)
					st = s.MultiPoint
				case *geom.MultiLineString:
					s := &ewkb.MultiLineString{}
					serr = s.Scan(b)
					st = s.MultiLineString
				case *geom.MultiPolygon:
					s := &ewkb.MultiPolygon{}
					serr = s.Scan(b)
					st = s.MultiPolygon
				case *geom.GeometryCollection:
					s := &ewkb.GeometryCollection{}
					serr = s.Scan(b)
					st = s.GeometryCollection
				default:
					s := &ewkb.Point{}
					serr = s.Scan(b)
					st = s.Point
					if err != nil && serr == nil {
						st = nil
					}
				}
			} else {
				s := &wkb.Geom{}
				serr = s.Scan(b)
				st = s.T
			}
		}); p != nil {
			return fmt.Sprintf("Scan panicked: %v", p)
		}
		if len(b) == 0 && !cs.Ext {
			return "" // wkb.Geom.Scan treats an empty slice as NULL
		}
		if (err == nil) != (serr == nil) {
			return fmt.Sprintf("Scan disagrees with Unmarshal: %v vs %v", serr, err)
		}
		if err == nil {
			a, _ := ref.Observe(t)
			bb, oerr := ref.Observe(st)
			if oerr != nil || !ref.Equal(a, bb, ref.EqualOpt{}) {
				return "Scan stored a different geometry"
			}
		}
	}
	return ""
}

func c04Exec(c *engine.Ctx, cs c04Case) {
	switch cs.Mode {
	case "model":
		saved := wkbcommon.MaxGeometryElements
		setLimits(cs.Limits)
		defer setLimits(saved)
		engine.ReplayChoices(cs.Choices, func(m *engine.MC) {
			b, model, v, forged := c04Generate(m, cs)
			c.Count("evaluations", 1)
			c04Check(c, cs, b, model, v, forged)
		})
	case "sweep":
		saved := wkbcommon.MaxGeometryElements
		setLimits(cs.Limits)
		defer setLimits(saved)
		b, _ := hex.DecodeString(cs.Hex)
		c04SweepOne(c, cs, b)
	case "many":
		saved := wkbcommon.MaxGeometryElements
		setLimits(cs.Limits)
		defer setLimits(saved)
		b, _ := hex.DecodeString(cs.Hex)
		c04Many(c, cs, b, "valid encoding")
	case "deeptrunc":
		saved := wkbcommon.MaxGeometryElements
		setLimits(cs.Limits)
		defer setLimits(saved)
		b, _ := hex.DecodeString(cs.Hex)
		c04DeepTrunc(c, cs, b)
	case "depth":
		c04Depth(c, cs)
	case "product":
		saved := wkbcommon.MaxGeometryElements
		setLimits(cs.Limits)
		defer setLimits(saved)
		b, _ := hex.DecodeString(cs.Hex)
		c04Product(c, cs, b)
	}
}

// c04Many decodes one valid encoding with many parts and compares the bytes allocated (minimum
// over a few attempts, after a collection, nothing else running) with the additive bound.
func c04Many(c *engine.Ctx, cs c04Case, enc []byte, what string) {
	c.Count("evaluations", 1)
	bound := allocBound(len(enc), cs.Limits)
	best := uint64(math.MaxUint64)
	var derr error
	for try := 0; try < 4 && best > bound; try++ {
		runtime.GC()
		b0 := heapAllocs()
		if p, _ := engine.Guard(func() { _, derr = c04Decode(enc, cs) }); p != nil {
			derr = fmt.Errorf("panic: %v", p)
		}
		if d := heapAllocs() - b0; d < best {
			best = d
		}
	}
	cc := cs
	cc.Hex = hex.EncodeToString(enc)
	if derr != nil {
		c.Violate(fmt.Sprintf("many/%s/rejected", c04Name(cs)), fmt.Sprintf("%s (%d bytes) rejected: %v", what, len(enc), derr), "c04", cc)
		return
	}
	if best > bound {
		c.Violate(fmt.Sprintf("many/%s/allocation", c04Name(cs)), fmt.Sprintf("decoding a %s (%d bytes) allocated %d bytes, bound %d", what, len(enc), best, bound), "c04", cc)
		return
	}
	c.Count("many_part_within_bound", 1)
}

// c04DeepTrunc: an encoding of nested collections that ends before the innermost member: an error,
// and an allocation that stays additive in the input length.
func c04DeepTrunc(c *engine.Ctx, cs c04Case, enc []byte) {
	c.Count("evaluations", 1)
	bound := allocBound(len(enc), cs.Limits)
	best := uint64(math.MaxUint64)
	var derr error
	for try := 0; try < 4 && best > bound; try++ {
		runtime.GC()
		b0 := heapAllocs()
		if p, _ := engine.Guard(func() { _, derr = c04Decode(enc, cs) }); p != nil {
			derr = fmt.Errorf("panic: %v", p)
		}
		if d := heapAllocs() - b0; d < best {
			best = d
		}
	}
	cc := cs
	cc.Hex = hex.EncodeToString(enc)
	depth := len(enc) / 9
	if derr == nil {
		c.Violate(fmt.Sprintf("deep-truncated/%s/accepted", c04Name(cs)), fmt.Sprintf("%d nested collections without an innermost member decoded without error", depth), "c04", cc)
	} else if best > bound {
		c.Violate(fmt.Sprintf("deep-truncated/%s/allocation", c04Name(cs)), fmt.Sprintf("decoding %d nested collections cut off before the innermost member (%d bytes, error %.80s) allocated %d bytes, bound %d", depth, len(enc), derr.Error(), best, bound), "c04", cc)
	}
}

// c04SweepOne: totality, well-formedness and canonical re-encode of one arbitrary string.
func c04SweepOne(c *engine.Ctx, cs c04Case, b []byte) {
	c.Count("evaluations", 1)
	key := fmt.Sprintf("sweep/%s/lim%v", c04Name(cs), cs.Limits)
	fail := func(what, desc string) {
		cc := cs
		cc.Hex = hex.EncodeToString(b)
		c.Violate(key+"/"+what, clipStr(fmt.Sprintf("%s; input (%d bytes) %x", desc, len(b), b), 3000), "c04", cc)
	}
	var t geom.T
	var err error
	if p, stack := engine.Guard(func() { t, err = c04Decode(b, cs) }); p != nil {
		fail("panic", fmt.Sprintf("decoder panicked: %v\n%s", p, firstLines(stack, 14)))
		return
	}
	if err != nil {
		c.Count("sweep_errors", 1)
		if d := c04Wrappers(b, cs, t, err); d != "" {
			fail("wrapper", d)
		}
		return
	}
	if werr := ref.WellFormed(t); werr != nil {
		fail("ill-formed", werr.Error())
		return
	}
	if d := c04Canonical(t, cs); d != "" {
		fail("not-canonical", d)
		return
	}
	if d := c04Wrappers(b, cs, t, err); d != "" {
		fail("wrapper", d)
		return
	}
	c.Count("sweep_accepted", 1)
}

func c04Run(c *engine.Ctx) {
	formats := []c04Case{{}, {NaN: true}, {Ext: true}}
	limVals := []int{-1, 0, 2}
	bound := 3
	if c.Thorough() {
		limVals = []int{-1, 0, 1, 2}
		bound = 4
	}
	c.Note("deviation_bound", bound)
	var configs [][4]int
	for _, a := range limVals {
		for _, b := range limVals {
			for _, d := range limVals {
				configs = append(configs, [4]int{0, a, b, d})
			}
		}
	}
	c.Note("limit_configurations", len(configs))
	saved := wkbcommon.MaxGeometryElements
	defer setLimits(saved)

	// (0) valid encodings with MANY small parts, every count backed by input, decoded one at a
	// time while nothing else runs (the allocation counter is process-wide): the memory a decode
	// allocates must stay additive in the input length - a reader that re-copies what it has read
	// so far for every ring or member is quadratic in their number
	counts := []int{100, 1000, 4000}
	if c.Thorough() {
		counts = append(counts, 16000)
	}
	for _, cfg := range [][4]int{{0, -1, -1, -1}, {0, 1 << 15, 1 << 15, 1 << 15}} {
		setLimits(cfg)
		for _, n := range counts {
			ones := make([]int, n)
			pat := make([]int, n)
			shape := make([][]int, n)
			var pts []*ref.G
			for i := range ones {
				ones[i], pat[i], shape[i] = 1+i%3, 1, []int{1 + i%2}
				pts = append(pts, ref.NewPoint(geom.XY, true, ref.CounterFrom(float64(i))))
			}
			for gi, g := range []*ref.G{
				ref.NewParts(ref.Polygon, geom.XY, ones, ref.Counter()),
				ref.NewParts(ref.MultiLineString, geom.XYZ, ones, ref.Counter()),
				ref.NewMultiPoint(geom.XY, pat, ref.Counter()),
				ref.NewMultiPolygon(geom.XY, shape, ref.Counter()),
				ref.NewCollection(geom.NoLayout, pts...),
			} {
				for fi, f := range []c04Case{{}, {Ext: true}} {
					enc := ref.EncodeWKB(g, (gi+fi)%2 == 1, f.Ext)
					cs := c04Case{Mode: "many", Ext: f.Ext, Limits: cfg}
					c.Count("many_part_encodings", 1)
					c04Many(c, cs, enc, fmt.Sprintf("%s with %d parts", g.Kind, n))
				}
			}
		}
	}

	// deep and TRUNCATED: 100, 1000, 3000 collections, one inside the other (each announcing one
	// member), cut off where the innermost member would start. The error travels up through every
	// level; what the decode allocates must stay additive in the input length there too.
	for _, cfg := range [][4]int{{0, -1, -1, -1}, {0, 1 << 15, 1 << 15, 1 << 15}} {
		setLimits(cfg)
		for _, depth := range []int{100, 1000, 3000} {
			for _, f := range []c04Case{{}, {Ext: true}} {
				for _, xdr := range []bool{false, true} {
					var enc []byte
					for k := 0; k < depth; k++ {
						if xdr {
							enc = append(enc, 0, 0, 0, 0, 7, 0, 0, 0, 1)
						} else {
							enc = append(enc, 1, 7, 0, 0, 0, 1, 0, 0, 0)
						}
					}
					c.Count("deep_truncated_encodings", 1)
					c04DeepTrunc(c, c04Case{Mode: "deeptrunc", Ext: f.Ext, Limits: cfg}, enc)
					// the same chain with every level announcing as many members as the limit allows
					// (none refused, none backed by input): room reserved per announced member at
					// every level multiplies the limit by the depth
					if cfg[1] > 0 && depth <= 1000 {
						big := append([]byte{}, enc...)
						for k := 0; k < depth; k++ {
							if xdr {
								binary.BigEndian.PutUint32(big[9*k+5:], uint32(cfg[1]))
							} else {
								binary.LittleEndian.PutUint32(big[9*k+5:], uint32(cfg[1]))
							}
						}
						c.Count("deep_truncated_encodings", 1)
						c04DeepTrunc(c, c04Case{Mode: "deeptrunc", Ext: f.Ext, Limits: cfg}, big)
					}
				}
			}
		}
	}

	// (1) model-driven exploration. Forged counts in ascending magnitude: a family of larger
	// forged counts is only explored if no allocation violation was seen with smaller ones.
	for _, maxF := range []uint32{3, 1 << 16, 1 << 24, 1<<32 - 1} {
		if c.ViolTotal() > 0 && maxF > 3 {
			c.Warn("violations seen: larger forged counts not explored")
			break
		}
		for _, cfg := range configs {
			setLimits(cfg)
			if maxF > 3 {
				continue // forged-count strings are explored by the worker processes below
			}
			// no forged counts: parallel over the first-level subtrees
			type start struct {
				k ref.Kind
				l geom.Layout
			}
			starts := []start{{}}
			if cfg == [4]int{0, -1, -1, -1} || cfg == [4]int{0, 2, 2, 2} {
				starts = append(starts, start{ref.Collection, geom.XY}, start{ref.MultiPolygon, geom.XYZ}, start{ref.Collection, geom.XYZM}, start{ref.MultiLineString, geom.XYM})
			}
			for _, f := range formats {
				for _, st0 := range starts {
					cs := c04Case{Mode: "model", Ext: f.Ext, NaN: f.NaN, Limits: cfg, MaxF: maxF, Top: st0.k, TopLayout: st0.l}
					st := engine.ExploreParallel(c, bound, func(m *engine.MC) {
						b, model, v, _ := c04Generate(m, cs)
						c.Count("evaluations", 1)
						c.Count("transitions", int64(len(m.Trace)))
						cc := cs
						cc.Choices = m.Choices()
						c04Check(c, cc, b, model, v, false)
						if m.Deviations() == bound {
							c.Sample("model/"+c04Name(cs), 2, map[string]any{"limits": cs.Limits, "input": hex.EncodeToString(b), "verdict": verdictStr(v, model), "choices": cc.Choices})
						}
					})
					c.Count("schedules", st.Executions)
					if st.Capped {
						c.SetCapped("model exploration interrupted by the deadline")
					}
				}
			}
		}
	}
	// (1b) forged counts: allocation is measured around each decode, which needs a quiescent
	// heap, so this part runs in single-threaded worker PROCESSES (one job = one limit
	// configuration x decoder mode), stage by stage in ascending magnitude.
	for _, maxF := range []uint32{1 << 16, 1 << 24, 1<<32 - 1} {
		if c.ViolTotal() > 0 {
			c.Warn("violations seen: larger forged counts not explored")
			break
		}
		c04ForgedStage(c, configs, formats, bound, maxF)
	}
	// (1c) product family: a count within its (generous) limit multiplied by a backed first
	// element - the allocation must stay additive in input length and limits
	c04ProductFamily(c)
	// (2) role-blind sweep over the corpus encodings under enabled limits
	corpus := codecCorpus(false)
	sweepConfigs := [][4]int{{0, 16, 16, 16}, {0, 2, 2, 2}, {0, 0, 0, 0}}
	if c.Thorough() {
		sweepConfigs = append(sweepConfigs, [4]int{0, 3, 1, 1}, [4]int{0, 1, 0, 2})
	}
	// Word replacement in ascending magnitude: larger forged words are only tried when no
	// violation was seen with smaller ones (a decoder that allocates before checking is then
	// caught by a harmless allocation, not by exhausting memory).
	wordPasses := [][]uint32{{0, 1, 2, 3, 17, 1 << 16}, {1 << 24}, {1<<31 - 1, 1 << 31, 1<<32 - 1}}
	for pass, words := range wordPasses {
		if c.ViolTotal() > 0 {
			c.Warn("violations seen: remaining sweep passes skipped")
			break
		}
		for _, cfg := range sweepConfigs {
			setLimits(cfg)
			c.Parallel(len(corpus), func(i int) {
				g := corpus[i]
				if g.Kind == ref.MultiPolygon && len(g.C3) > 1 && !c.Thorough() {
					return
				}
				for _, f := range formats {
					for _, xdr := range []bool{false, true} {
						if xdr && i%4 != 0 {
							continue
						}
						enc := ref.EncodeWKB(g, xdr, f.Ext)
						cs := c04Case{Mode: "sweep", Ext: f.Ext, NaN: f.NaN, Limits: cfg}
						mut := make([]byte, len(enc))
						if pass == 0 {
							for n := 0; n <= len(enc); n++ {
								c04SweepOne(c, cs, enc[:n])
							}
							for pos := range enc {
								for _, v := range []byte{0x00, 0x01, 0x7f, 0x80, 0xff} {
									if enc[pos] == v {
										continue
									}
									copy(mut, enc)
									mut[pos] = v
									c04SweepOne(c, cs, mut)
								}
							}
						}
						for pos := 0; pos+4 <= len(enc); pos++ {
							for _, w := range words {
								copy(mut, enc)
								if xdr {
									binary.BigEndian.PutUint32(mut[pos:], w)
								} else {
									binary.LittleEndian.PutUint32(mut[pos:], w)
								}
								c04SweepOne(c, cs, mut)
							}
						}
					}
				}
			})
		}
	}
	// large encodings (arrays beyond 512 / 1024 floats): truncation around every 512-byte boundary,
	// substitutions in the header, and the intact encoding
	bigs := bigCorpus(false)
	for _, cfg := range [][4]int{{0, -1, -1, -1}, {0, 2048, 2048, 2048}} {
		setLimits(cfg)
		c.Parallel(len(bigs), func(i int) {
			g := bigs[i]
			for _, f := range formats {
				if !f.Ext && !f.NaN && ref.HasEmptyPoint(g) {
					continue
				}
				for _, xdr := range []bool{false, true} {
					enc := ref.EncodeWKB(g, xdr, f.Ext)
					cs := c04Case{Mode: "sweep", Ext: f.Ext, NaN: f.NaN, Limits: cfg}
					c04SweepOne(c, cs, enc)
					c.Count("big_encodings", 1)
					for base := 0; base <= len(enc); base += 512 {
						for _, d := range []int{-9, -8, -1, 0, 1, 7, 8} {
							if n := base + d; n >= 0 && n < len(enc) {
								c04SweepOne(c, cs, enc[:n])
							}
						}
					}
					for n := len(enc) - 20; n < len(enc); n++ {
						if n >= 0 {
							c04SweepOne(c, cs, enc[:n])
						}
					}
					mut := make([]byte, len(enc))
					for pos := 0; pos < 24 && pos < len(enc); pos++ {
						for _, v := range []byte{0x00, 0x01, 0xff} {
							copy(mut, enc)
							mut[pos] = v
							if cfg[1] >= 0 || pos < 5 {
								c04SweepOne(c, cs, mut)
							}
						}
					}
				}
			}
		})
	}
	// very large intact encodings: one coordinate array of 2^k+1 positions for k = 11..16 (a reader
	// that fills the array in blocks shows at its block size), decoded, re-encoded and decoded
	// again; and cut in the middle of the array
	for _, cfg := range [][4]int{{0, -1, -1, -1}, {0, 1 << 17, 1 << 17, 1 << 17}} {
		setLimits(cfg)
		var huge []*ref.G
		for k := 11; k <= 16; k++ {
			n := 1<<k + 1
			huge = append(huge, ref.NewLine(ref.LineString, geom.XY, n, ref.Counter()))
			if k <= 14 {
				huge = append(huge, ref.NewParts(ref.Polygon, geom.XYZM, []int{3, n}, ref.Counter()),
					ref.NewParts(ref.MultiLineString, geom.XYZ, []int{n, 2}, ref.Counter()))
			}
		}
		c.Parallel(len(huge), func(i int) {
			g := huge[i]
			for fi, f := range formats {
				xdr := (i+fi)%2 == 1
				enc := ref.EncodeWKB(g, xdr, f.Ext)
				cs := c04Case{Mode: "sweep", Ext: f.Ext, NaN: f.NaN, Limits: cfg}
				c04SweepOne(c, cs, enc)
				c04SweepOne(c, cs, enc[:len(enc)/2+3])
				c.Count("huge_encodings", 1)
			}
		})
	}
	setLimits(saved)
	// (3) nesting depth family
	levels := []int{10, 100, 1000, 10000}
	if c.Thorough() {
		// (building the nested result costs the library time quadratic in the depth - 57 s at 80 000
		// levels, hours at 10^6 - so 10^5 is the deepest complete decode; the descent alone is linear
		// and is taken to 4*10^6 below)
		levels = append(levels, 100000)
	}
	for _, ext := range []bool{false, true} {
		for _, n := range levels {
			c04Exec(c, c04Case{Mode: "depth", Ext: ext, Levels: n, Limits: saved})
		}
		// unbounded recursion: demonstrated with a reduced maximum stack in quick, with the
		// default 1 GB stack in thorough
		if c.Thorough() {
			c04Exec(c, c04Case{Mode: "depth", Ext: ext, Levels: 4000000, Limits: saved})
		} else {
			c04Exec(c, c04Case{Mode: "depth", Ext: ext, Levels: 400000, StackMB: 32, Limits: saved})
		}
	}
	c.Count("states", c.Get("transitions"))
	c.Count("traces_validated_against_impl", c.Get("evaluations"))
	for _, k := range []string{"verdict_ok", "verdict_error", "verdict_too_large", "allocation_measured", "sweep_accepted", "sweep_errors"} {
		if c.Get(k) == 0 {
			c.Warn("vacuous: counter " + k + " is zero")
		}
	}
}

type c04Job struct {
	Ext, NaN bool
	Limits   [4]int
	MaxF     uint32
	Bound    int
}

type c04WorkerOut struct {
	Evaluations int64              `json:"evaluations"`
	Measured    int64              `json:"measured"`
	Schedules   int64              `json:"schedules"`
	Counters    map[string]int64   `json:"counters"`
	Violations  []engine.Violation `json:"violations"`
}

// c04ForgedStage runs one magnitude stage on worker processes.
func c04ForgedStage(c *engine.Ctx, configs [][4]int, formats []c04Case, bound int, maxF uint32) {
	var jobs []c04Job
	for _, cfg := range configs {
		enabled := false
		for _, l := range cfg[1:] {
			if l >= 0 {
				enabled = true
			}
		}
		if !enabled {
			continue // no limit configured: no forged counts are generated
		}
		for _, f := range formats {
			jobs = append(jobs, c04Job{Ext: f.Ext, NaN: f.NaN, Limits: cfg, MaxF: maxF, Bound: bound})
		}
	}
	nw := c.Workers
	if nw > len(jobs) {
		nw = len(jobs)
	}
	type res struct {
		out c04WorkerOut
		err error
		log string
	}
	results := make([]res, nw)
	c.Parallel(nw, func(w int) {
		var mine []c04Job
		for i := w; i < len(jobs); i += nw {
			mine = append(mine, jobs[i])
		}
		in, _ := json.Marshal(mine)
		outPath := fmt.Sprintf("%s/.build/c04w-%d-%d.json", Home(), os.Getpid(), w)
		cmd := exec.Command(os.Args[0], "c04forged", string(in), outPath)
		var eb bytes.Buffer
		cmd.Stderr = &eb
		cmd.Env = append(os.Environ(), "GOMAXPROCS=2")
		results[w].err = cmd.Run()
		results[w].log = eb.String()
		if b, err := os.ReadFile(outPath); err == nil {
			json.Unmarshal(b, &results[w].out)
		} else if results[w].err == nil {
			results[w].err = err
		}
		os.Remove(outPath)
	})
	for w, r := range results {
		if r.err != nil {
			c.Violate(fmt.Sprintf("model/forged/worker-died/maxF%d", maxF), fmt.Sprintf("worker %d decoding forged counts up to %d died: %v: %s", w, maxF, r.err, clipStr(r.log, 1500)), "c04", c04Case{Mode: "model", MaxF: maxF})
			continue
		}
		c.Count("evaluations", r.out.Evaluations)
		c.Count("allocation_measured", r.out.Measured)
		c.Count("schedules", r.out.Schedules)
		for k, v := range r.out.Counters {
			c.Count(k, v)
		}
		for _, v := range r.out.Violations {
			var cs c04Case
			json.Unmarshal(v.Case, &cs)
			c.Violate(v.Key, v.Desc, "c04", cs)
		}
	}
}

// C04ForgedMain is the worker process: sequential exploration of its jobs with allocation measured.
func C04ForgedMain(jobsJSON, outPath string) {
	var jobs []c04Job
	if err := json.Unmarshal([]byte(jobsJSON), &jobs); err != nil {
		fmt.Fprintln(os.Stderr, err)
		os.Exit(2)
	}
	c := engine.NewCtx("C04", "worker", 0, 40*60*1e9)
	c.Workers = 1
	out := c04WorkerOut{Counters: map[string]int64{}}
	for _, j := range jobs {
		setLimits(j.Limits)
		cs := c04Case{Mode: "model", Ext: j.Ext, NaN: j.NaN, Limits: j.Limits, MaxF: j.MaxF}
		st := engine.Explore(j.Bound, 0, func() bool { return c.ViolTotal() > 50 }, func(m *engine.MC) {
			b, model, v, forged := c04Generate(m, cs)
			if !forged || v.n <= int(prevForged(j.MaxF)) {
				return // covered by the parallel pass or by a smaller stage
			}
			out.Evaluations++
			out.Measured++
			cc := cs
			cc.Choices = m.Choices()
			c04Check(c, cc, b, model, v, true)
		})
		out.Schedules += st.Executions
	}
	for _, k := range []string{"verdict_too_large", "verdict_error", "verdict_ok"} {
		out.Counters[k] = c.Get(k)
	}
	for _, v := range c.Violations() {
		out.Violations = append(out.Violations, *v)
	}
	b, _ := json.Marshal(out)
	if err := os.WriteFile(outPath, b, 0o644); err != nil {
		fmt.Fprintln(os.Stderr, err)
		os.Exit(2)
	}
}

// c04ProductFamily: count L within a generous limit L, first element backed by n points, then
// truncated. Sequential in this process after a GC (min-of-retries absorbs stale statistics).
func c04ProductFamily(c *engine.Ctx) {
	saved := wkbcommon.MaxGeometryElements
	defer setLimits(saved)
	for _, L := range []int{64, 4096} {
		lim := [4]int{0, L, L, L}
		setLimits(lim)
		for _, ext := range []bool{false, true} {
			for _, n := range []int{1, 64, 512} {
				for _, kind := range []string{"polygon", "multipolygon", "multilinestring", "linestring"} {
					g := &g04{ext: ext, limits: lim, maxFields: 1 << 30}
					hdr := func(k ref.Kind) { g.out = append(g.out, 1); g.u32(typeWord04(k, ext), false) }
					ringOfN := func() {
						g.u32(uint32(n), false)
						for i := 0; i < 2*n; i++ {
							g.f64(float64(i), false)
						}
					}
					switch kind {
					case "polygon":
						hdr(ref.Polygon)
						g.u32(uint32(L), false)
						ringOfN()
					case "multipolygon":
						hdr(ref.MultiPolygon)
						g.u32(uint32(L), false)
						hdr(ref.Polygon)
						g.u32(uint32(L), false)
						ringOfN()
					case "multilinestring":
						hdr(ref.MultiLineString)
						g.u32(uint32(L), false)
						hdr(ref.LineString)
						ringOfN()
					case "linestring":
						hdr(ref.LineString)
						g.u32(uint32(L), false)
						for i := 0; i < 2*min(n, L-1); i++ {
							g.f64(float64(i), false)
						}
					}
					cs := c04Case{Mode: "product", Ext: ext, Limits: lim, Hex: hex.EncodeToString(g.out)}
					c04Product(c, cs, g.out)
				}
			}
		}
	}
}

func typeWord04(k ref.Kind, ext bool) uint32 {
	return map[ref.Kind]uint32{ref.Point: 1, ref.LineString: 2, ref.Polygon: 3, ref.MultiPoint: 4, ref.MultiLineString: 5, ref.MultiPolygon: 6, ref.Collection: 7}[k]
}

// c04Product: the input is truncated, so the decoder must return an error, having allocated no
// more than the additive bound.
func c04Product(c *engine.Ctx, cs c04Case, b []byte) {
	c.Count("evaluations", 1)
	c.Count("product_family", 1)
	c04Check(c, cs, b, nil, verdict{kind: vErr}, true)
}

func prevForged(maxF uint32) uint32 {
	switch maxF {
	case 1 << 16:
		return 3
	case 1 << 24:
		return 1 << 16
	}
	return 1 << 24
}

// DeepNestMain is the sacrificial subprocess: decode a collection nested `levels` deep.
// Exit 0 = returned (error or geometry) without panic; the parent interprets other exits.
func DeepNestMain(ext bool, levels, stackMB int) {
	if stackMB > 0 {
		debug.SetMaxStack(stackMB << 20)
	}
	b := make([]byte, 0, 9*levels+9)
	for i := 0; i < levels; i++ {
		b = append(b, 1, 7, 0, 0, 0, 1, 0, 0, 0)
	}
	b = append(b, 1, 7, 0, 0, 0, 0, 0, 0, 0)
	var err error
	var t geom.T
	if ext {
		t, err = ewkb.Unmarshal(b)
	} else {
		t, err = wkb.Unmarshal(b)
	}
	if err != nil {
		fmt.Println("error:", err)
		os.Exit(0)
	}
	// count the nesting iteratively
	d := 0
	for {
		gc, ok := t.(*geom.GeometryCollection)
		if !ok || gc.NumGeoms() == 0 {
			break
		}
		t = gc.Geom(0)
		d++
	}
	fmt.Println("decoded depth:", d)
	if d != levels {
		os.Exit(3)
	}
	os.Exit(0)
}

func c04Depth(c *engine.Ctx, cs c04Case) {
	c.Count("evaluations", 1)
	name := "wkb"
	if cs.Ext {
		name = "ewkb"
	}
	ctx, cancel := context.WithTimeout(context.Background(), 12*time.Minute)
	defer cancel()
	cmd := exec.CommandContext(ctx, os.Args[0], "deepnest", fmt.Sprint(cs.Ext), fmt.Sprint(cs.Levels), fmt.Sprint(cs.StackMB))
	var out bytes.Buffer
	cmd.Stdout = &out
	cmd.Stderr = &out
	err := cmd.Run()
	if ctx.Err() != nil {
		// no verdict: slow is not wrong
		c.SetCapped(fmt.Sprintf("nesting-depth probe (%s, %d levels) stopped after 12 minutes without a verdict", name, cs.Levels))
		return
	}
	if err == nil {
		c.Count("depth_ok", 1)
		c.Sample("depth", 4, map[string]any{"format": name, "levels": cs.Levels, "max_stack_mb": cs.StackMB, "result": strings.TrimSpace(out.String())})
		return
	}
	o := out.String()
	what := "crash"
	if strings.Contains(o, "stack overflow") || strings.Contains(o, "exceeds") {
		what = "stack-overflow"
	}
	// the key names the input family, not the exact size: recursion depth = nesting depth
	c.Violate(fmt.Sprintf("depth/%s/%s", name, what),
		fmt.Sprintf("decoding a GeometryCollection nested %d deep (%d bytes, max stack %d MB [0 = Go default 1 GB]) killed the process: %v: %s", cs.Levels, 9*cs.Levels+9, cs.StackMB, err, firstLines(o, 6)), "c04", cs)
}
