package checks

import (
	"encoding/json"
	"fmt"
	"math"

	"github.com/twpayne/go-geom"
	"github.com/twpayne/go-geom/xy"
	"github.com/twpayne/go-geom/xy/lineintersector"
	"github.com/twpayne/go-geom/xy/location"

	"verif/engine"
	"verif/ref"
)

// C11 — point location against rings and lines is exact.

type c11Case struct {
	Mode   string      `json:"mode"` // ring | line
	Ring   []ref.F     `json:"ring"` // x y pairs (closed for rings)
	P      []ref.F     `json:"p"`
	Layout geom.Layout `json:"layout"`
	// Tags: 0 = extra ordinates are NaN everywhere; 1 = every vertex carries its own finite
	// extras and the query point different ones; 2 = the vertices' extras repeat coordinates of the
	// next vertex
	Tags int `json:"tags,omitempty"`
	// Gen names a generated ring instead of spelling it out: "tower/<n>/<rev>/<rot>" (c11Tower).
	Gen string `json:"gen,omitempty"`
}

// c11Tower: a tall zig-zag ring of 2n+3 coordinates. Its right side climbs through
// (10 + 2(i mod 2), 2i), i = 0..n, its left side comes down through (-2(i mod 2), 2i); the ring
// is then reversed (rev = 1) and rotated by rot vertices before it is closed. At every odd
// height y = 2i+1 the ray to the right of (5, y) crosses exactly edge i of the right side, the
// ray of (-5, y) edge i of both sides, and (11, y), (-1, y) are the middles of those two edges.
func c11Tower(n, rev, rot int) []ref.F {
	var vs [][2]float64
	for i := 0; i <= n; i++ {
		vs = append(vs, [2]float64{float64(10 + 2*(i%2)), float64(2 * i)})
	}
	for i := n; i >= 0; i-- {
		vs = append(vs, [2]float64{float64(-2 * (i % 2)), float64(2 * i)})
	}
	if rev == 1 {
		for i, j := 0, len(vs)-1; i < j; i, j = i+1, j-1 {
			vs[i], vs[j] = vs[j], vs[i]
		}
	}
	out := make([]ref.F, 0, 2*len(vs)+2)
	for k := 0; k <= len(vs); k++ {
		v := vs[(k+rot)%len(vs)]
		out = append(out, ref.F(v[0]), ref.F(v[1]))
	}
	return out
}

func c11GenRing(gen string) []ref.F {
	var n, rev, rot int
	if _, err := fmt.Sscanf(gen, "tower/%d/%d/%d", &n, &rev, &rot); err != nil {
		panic("c11: bad gen " + gen)
	}
	return c11Tower(n, rev, rot)
}

func init() {
	engine.Register(&engine.Check{
		ID: "C11", Level: "exploration",
		Rule:        "every closed ring of 3 and 4 vertices on the 4x4 grid and of 5 vertices on the 3x3 grid (thorough: also 5 vertices on the 4x4 grid) - simple, self-intersecting, degenerate, with repeated vertices and horizontal edges, every direction and start vertex - with vertices on even coordinates x every query point of the doubled grid (edge midpoints, points level with vertices); translated copies at 2^26 and layouts XYZ/XYZM with NaN extras; the vertex lattice queried again in XYZ/XYM/XYZM with extra ordinates that differ between query point and vertices (own tags, or the next vertex's coordinates repeated as Z/M); a split-ratio sweep (triangles with a slanted edge through the origin divided a:b for all a,b <= 24 in 10 directions, every start vertex and direction, queried at the origin and its neighbours); LocatePointInRing/IsPointInRing vs the exact even-odd rule evaluated with a vertical ray; IsOnLine/PointIntersectsLine for every segment and 3-vertex polyline x every point of the 5x5 grid plus +-1 ulp perturbations of exactly-on-segment configurations; plus lean sweeps of ~7*10^6 point-on-segment queries over near-collinear float triples (the float-line lattice, mixed-magnitude collinear triples with one- and two-ulp perturbations, segments through the coordinate origin; each point of a triple against the segment of the other two). distinct_nontrivial = distinct (ring, point) pairs with a ring of non-zero area or a boundary hit Round 7: zig-zag tower rings of 4103, 8403, 20003 (thorough 66003) coordinates queried inside, outside and on both edges at every height, both directions, three start vertices. Round 9: query points 0..3 ulps around both ends of axis-parallel and diagonal segments whose ends differ in magnitude or sign. Round 10: PointIntersectsLine also with the robust strategy passed as a pointer. Round 11: worst cases of the Euclid-like determinant sign - every periodic partial-quotient word of period <=3 over 1..4, every consecutive convergent pair fitting the 2^26 grid, 8 symmetries x 4 corners x 2 directions x 5 queries.",
		Run:         c11Run,
		Replay:      func(c *engine.Ctx, kind string, raw json.RawMessage) { c11Exec(c, decodeCase[c11Case](raw)) },
		Assumptions: []string{"ordinates on an integer grid up to 2^26 (differences exact) for rings; moderate floats for point-on-line"},
	})
}

func toP2(v []ref.F) []ref.P2 {
	out := make([]ref.P2, len(v)/2)
	for i := range out {
		out[i] = ref.P2{X: float64(v[2*i]), Y: float64(v[2*i+1])}
	}
	return out
}

// flatWithLayout lays XY pairs out with the stride of the layout; extras are NaN.
func flatWithLayout(v []ref.F, l geom.Layout) []float64 {
	st := l.Stride()
	out := make([]float64, 0, len(v)/2*st)
	for i := 0; i+1 < len(v); i += 2 {
		out = append(out, float64(v[i]), float64(v[i+1]))
		for k := 2; k < st; k++ {
			out = append(out, math.NaN())
		}
	}
	return out
}

func c11Exec(c *engine.Ctx, cs c11Case) {
	c.Count("evaluations", 1)
	if cs.Gen != "" {
		cs.Ring = c11GenRing(cs.Gen)
	}
	pts := toP2(cs.Ring)
	p := ref.P2{X: float64(cs.P[0]), Y: float64(cs.P[1])}
	flat := flatWithLayout(cs.Ring, cs.Layout)
	pc := geom.Coord(flatWithLayout(cs.P, cs.Layout))
	if cs.Tags > 0 {
		st := cs.Layout.Stride()
		for i := 0; i < len(flat); i += st {
			for k := 2; k < st; k++ {
				flat[i+k] = float64(1000 + i + k)
				if cs.Tags == 2 {
					// extra ordinates drawn from the coordinates themselves: Z (or M in XYM) = the
					// next vertex's Y, in XYZM Z = next X and M = next Y - a value read one slot
					// off then LOOKS like a coordinate
					nx := (i + st) % len(flat)
					flat[i+k] = flat[nx+1]
					if st == 4 && k == 2 {
						flat[i+k] = flat[nx]
					}
				}
			}
		}
		// the closing vertex repeats the first one in every ordinate
		if cs.Mode == "ring" && len(flat) >= 2*st {
			copy(flat[len(flat)-st:], flat[:st])
		}
		for k := 2; k < len(pc); k++ {
			pc[k] = float64(-5 - k)
		}
	}
	fail := func(what, desc string) {
		vc := cs
		if cs.Gen != "" {
			vc.Ring = nil
		}
		c.Violate(cs.Mode+"/"+what, clipStr(fmt.Sprintf("%s; points=%s%v p=%v layout=%v", desc, cs.Gen, cs.Ring, cs.P, cs.Layout), 2500), "c11", vc)
	}
	switch cs.Mode {
	case "ring":
		want := ref.Locate(p, pts)
		var got location.Type
		var in bool
		if pn, _ := engine.Guard(func() {
			got = xy.LocatePointInRing(cs.Layout, pc, flat)
			in = xy.IsPointInRing(cs.Layout, pc, flat)
		}); pn != nil {
			fail("panic", fmt.Sprintf("panic %v", pn))
			return
		}
		if int(got) != want {
			fail(fmt.Sprintf("locate/want-%v-got-%v", location.Type(want), got), fmt.Sprintf("LocatePointInRing=%v exact=%v", got, location.Type(want)))
			return
		}
		if in != (want != 2) {
			fail("isinring", fmt.Sprintf("IsPointInRing=%v exact location %v", in, location.Type(want)))
			return
		}
		c.Count(fmt.Sprint("location_", location.Type(want)), 1)
		if want == 1 || ref.Shoelace2(pts).Sign() != 0 {
			c.DistinctStr(fmt.Sprint(cs.Ring, cs.P, cs.Layout))
		}
	case "line":
		want := false
		for i := 1; i < len(pts); i++ {
			if ref.OnSegment(p, pts[i-1], pts[i]) {
				want = true
			}
		}
		var got bool
		if pn, _ := engine.Guard(func() { got = xy.IsOnLine(cs.Layout, pc, flat) }); pn != nil {
			fail("panic", fmt.Sprintf("panic %v", pn))
			return
		}
		if got != want {
			fail("isonline", fmt.Sprintf("IsOnLine=%v exact=%v", got, want))
			return
		}
		if len(pts) == 2 {
			var g2 bool
			if pn, _ := engine.Guard(func() {
				g2 = lineintersector.PointIntersectsLine(lineintersector.RobustLineIntersector{}, pc, geom.Coord(flat[:2]), geom.Coord(flat[cs.Layout.Stride():cs.Layout.Stride()+2]))
			}); pn != nil {
				fail("panic", fmt.Sprintf("panic %v", pn))
				return
			}
			if g2 != want {
				fail("pointintersectsline", fmt.Sprintf("PointIntersectsLine=%v exact=%v", g2, want))
				return
			}
			// the robust strategy handed over as a pointer (it implements the interface as well)
			var g3 bool
			if pn, _ := engine.Guard(func() {
				g3 = lineintersector.PointIntersectsLine(&lineintersector.RobustLineIntersector{}, pc, geom.Coord(flat[:2]), geom.Coord(flat[cs.Layout.Stride():cs.Layout.Stride()+2]))
			}); pn != nil || g3 != want {
				fail("pointintersectsline-pointer-strategy", fmt.Sprintf("PointIntersectsLine(&RobustLineIntersector{}, ...)=%v (panic %v) exact=%v", g3, pn, want))
				return
			}
		}
		if want {
			c.Count("on_line", 1)
		} else {
			c.Count("off_line", 1)
		}
		c.DistinctStr(fmt.Sprint("L", cs.Ring, cs.P, cs.Layout))
	}
	if cs.Gen != "" {
		cs.Ring = nil
	}
	c.Sample(cs.Mode, 3, cs)
}

// c11LeanLine: point-on-segment for one near-collinear float triple in its three roles (each
// point as the query against the segment of the other two), one call each against the exact
// answer (exactly collinear and inside the segment's box); a disagreement goes through c11Exec.
func c11LeanLine(c *engine.Ctx, counter string, a, b, p [2]float64) {
	pts := [3][2]float64{a, b, p}
	for q := 0; q < 3; q++ {
		Q, S, E := pts[q], pts[(q+1)%3], pts[(q+2)%3]
		if S == E {
			continue
		}
		want := exactSign3Small(S[0], S[1], E[0], E[1], Q[0], Q[1]) == 0 &&
			Q[0] >= math.Min(S[0], E[0]) && Q[0] <= math.Max(S[0], E[0]) && Q[1] >= math.Min(S[1], E[1]) && Q[1] <= math.Max(S[1], E[1])
		var got bool
		if pn, _ := engine.Guard(func() {
			got = xy.IsOnLine(geom.XY, geom.Coord{Q[0], Q[1]}, []float64{S[0], S[1], E[0], E[1]})
			if q == 0 && got == want {
				// every third query also through PointIntersectsLine with the robust strategy as a pointer
				got = lineintersector.PointIntersectsLine(&lineintersector.RobustLineIntersector{}, geom.Coord{Q[0], Q[1]}, geom.Coord{S[0], S[1]}, geom.Coord{E[0], E[1]})
			}
		}); pn != nil || got != want {
			c11Exec(c, c11Case{Mode: "line", Ring: []ref.F{ref.F(S[0]), ref.F(S[1]), ref.F(E[0]), ref.F(E[1])}, P: []ref.F{ref.F(Q[0]), ref.F(Q[1])}, Layout: geom.XY})
			continue
		}
		c.Count("evaluations", 1)
		c.Count(counter, 1)
	}
}

// c11Euclid: the sign of the 2x2 determinant behind the ray-crossing count is found by a
// Euclid-like reduction whose number of rounds is greatest for consecutive convergents of continued
// fractions with small partial quotients (Fibonacci, Pell, ...). For EVERY periodic quotient word of
// period <= 3 over {1,2,3,4} and EVERY pair of consecutive convergent vectors w_k, w_k+1 that fits
// the 2^26 grid (determinant +-1: the query point is the lattice point nearest to the edge without
// being on it), in all 8 symmetries of the plane: the triangle (p-w_k, p+w_k+1, corner) for each of
// the four corners of the grid, both directions, queried at p and its four lattice neighbours,
// against the exact even-odd rule.
func c11Euclid(c *engine.Ctx) {
	const lim = 1 << 26
	var words [][]int64
	for a := int64(1); a <= 4; a++ {
		words = append(words, []int64{a})
		for b := int64(1); b <= 4; b++ {
			words = append(words, []int64{a, b})
			for d := int64(1); d <= 4; d++ {
				words = append(words, []int64{a, b, d})
			}
		}
	}
	c.Note("euclid_worst_case_words", fmt.Sprintf("%d periodic partial-quotient words (period <= 3 over 1..4), every consecutive convergent pair with span <= 2^27, 8 symmetries x 4 corners x 2 directions x 5 queries", len(words)))
	c.Parallel(len(words), func(wi int) {
		w := words[wi]
		prev, cur := [2]int64{1, 0}, [2]int64{0, 1}
		for k := 0; ; k++ {
			q := w[k%len(w)]
			next := [2]int64{q*cur[0] + prev[0], q*cur[1] + prev[1]}
			prev, cur = cur, next
			if prev[0]+cur[0] > 2*lim || prev[1]+cur[1] > 2*lim {
				return
			}
			for sym := 0; sym < 8; sym++ {
				tr := func(v [2]int64) [2]int64 {
					if sym&1 != 0 {
						v[0] = -v[0]
					}
					if sym&2 != 0 {
						v[1] = -v[1]
					}
					if sym&4 != 0 {
						v[0], v[1] = v[1], v[0]
					}
					return v
				}
				u, v := tr(prev), tr(cur)
				u[0], u[1] = -u[0], -u[1]
				var p [2]int64
				for d := 0; d < 2; d++ {
					lo, hi := min(0, u[d], v[d]), max(0, u[d], v[d])
					p[d] = -(lo + hi) / 2
					if p[d]+lo < -lim {
						p[d] = -lim - lo
					}
					if p[d]+hi > lim {
						p[d] = lim - hi
					}
				}
				for corner := 0; corner < 4; corner++ {
					cx, cy := float64(lim), float64(lim)
					if corner&1 != 0 {
						cx = -cx
					}
					if corner&2 != 0 {
						cy = -cy
					}
					a := [2]float64{float64(p[0] + u[0]), float64(p[1] + u[1])}
					b := [2]float64{float64(p[0] + v[0]), float64(p[1] + v[1])}
					for rev := 0; rev < 2; rev++ {
						ring := []ref.F{ref.F(a[0]), ref.F(a[1]), ref.F(b[0]), ref.F(b[1]), ref.F(cx), ref.F(cy), ref.F(a[0]), ref.F(a[1])}
						if rev == 1 {
							ring = []ref.F{ref.F(a[0]), ref.F(a[1]), ref.F(cx), ref.F(cy), ref.F(b[0]), ref.F(b[1]), ref.F(a[0]), ref.F(a[1])}
						}
						for _, dq := range [][2]int64{{0, 0}, {1, 0}, {-1, 0}, {0, 1}, {0, -1}} {
							qx, qy := p[0]+dq[0], p[1]+dq[1]
							if qx < -lim || qx > lim || qy < -lim || qy > lim {
								continue
							}
							c.Count("euclid_worst_case_queries", 1)
							c11Exec(c, c11Case{Mode: "ring", Ring: ring, P: []ref.F{ref.F(qx), ref.F(qy)}, Layout: geom.XY})
						}
					}
				}
			}
		}
	})
}

func c11Run(c *engine.Ctx) {
	// point-on-line over moderate-magnitude floats: the near-collinear families of C10 (float-line
	// lattice, exactly collinear mixed-magnitude triples with ulp perturbations, segments through
	// the coordinate origin), every point of a triple queried against the segment of the other two
	sweepMixedScale(c, func(a, b, p [2]float64) { c11LeanLine(c, "lean_line_queries", a, b, p) })
	if c.Thorough() {
		sweepFloatLines(c, 128, func(a, b, p [2]float64) { c11LeanLine(c, "lean_line_queries", a, b, p) })
		sweepMixed(c, 20, 200, func(a, b, p [2]float64) { c11LeanLine(c, "lean_line_queries", a, b, p) })
		sweepThroughOrigin(c, 4096, func(a, b, p [2]float64) { c11LeanLine(c, "lean_line_queries", a, b, p) })
	} else {
		sweepFloatLines(c, 32, func(a, b, p [2]float64) { c11LeanLine(c, "lean_line_queries", a, b, p) })
		sweepMixed(c, 20, 60, func(a, b, p [2]float64) { c11LeanLine(c, "lean_line_queries", a, b, p) })
		sweepThroughOrigin(c, 512, func(a, b, p [2]float64) { c11LeanLine(c, "lean_line_queries", a, b, p) })
	}
	gridN := func(n int, step float64) [][2]float64 {
		var g [][2]float64
		for x := 0; x < n; x++ {
			for y := 0; y < n; y++ {
				g = append(g, [2]float64{float64(x) * step, float64(y) * step})
			}
		}
		return g
	}
	type ringJob struct {
		verts [][2]float64
		n     int // grid size
	}
	var jobs []ringJob
	var rec func(g [][2]float64, n, k int, cur [][2]float64)
	rec = func(g [][2]float64, n, k int, cur [][2]float64) {
		if k == 0 {
			jobs = append(jobs, ringJob{append([][2]float64{}, cur...), n})
			return
		}
		for _, v := range g {
			rec(g, n, k-1, append(cur, v))
		}
	}
	rec(gridN(4, 2), 4, 3, nil)
	rec(gridN(4, 2), 4, 4, nil)
	rec(gridN(3, 2), 3, 5, nil)
	if c.Thorough() {
		rec(gridN(4, 2), 4, 5, nil)
	}
	// (the exhaustive enumeration over these rings is by far the largest phase; it runs LAST so
	// that a run cut short by its deadline on a busy machine has covered every other family)
	exhaustiveRings := func() {
		c.Note("rings", len(jobs))
		off := math.Ldexp(1, 26)
		c.Parallel(len(jobs), func(i int) {
			j := jobs[i]
			ring := make([]ref.F, 0, 2*len(j.verts)+2)
			for _, v := range j.verts {
				ring = append(ring, ref.F(v[0]), ref.F(v[1]))
			}
			ring = append(ring, ring[0], ring[1])
			q := 2*j.n - 1
			for x := 0; x < q; x++ {
				for y := 0; y < q; y++ {
					c11Exec(c, c11Case{Mode: "ring", Ring: ring, P: []ref.F{ref.F(x), ref.F(y)}, Layout: geom.XY})
					if x%2 == 0 && y%2 == 0 {
						// the vertex lattice again in layouts whose extra ordinates differ between the
						// query point and the vertices
						l, tags := geom.XYZ, 1+(x/2+y/2+len(j.verts))%2
						if (x/2+len(j.verts))%2 == 0 {
							l = geom.XYZM
						}
						if y%4 == 0 {
							l = geom.XYM
						}
						c11Exec(c, c11Case{Mode: "ring", Ring: ring, P: []ref.F{ref.F(x), ref.F(y)}, Layout: l, Tags: tags})
					}
					if len(j.verts) == 3 && (x+y)%2 == 0 {
						// translated copy with extra ordinates
						tr := make([]ref.F, len(ring))
						for k := range ring {
							tr[k] = ring[k] + ref.F(off)
						}
						l := geom.XYZ
						if (x+y)%4 == 0 {
							l = geom.XYZM
						}
						c11Exec(c, c11Case{Mode: "ring", Ring: tr, P: []ref.F{ref.F(float64(x) + off), ref.F(float64(y) + off)}, Layout: l})
					}
				}
			}
		})
	}
	// rings with many vertices: lattice hulls (convex) and combs (many horizontal and vertical
	// edges, vertices level with the query points), queried at every vertex, every edge midpoint
	// and a grid of other points (coordinates doubled so that midpoints are representable)
	var bigRings [][]ref.P2
	for _, m := range []int{37, 1009} {
		var pts []ref.P2
		for k := 0; k < 200; k++ {
			pts = append(pts, ref.P2{X: float64(2 * ((k * 7919) % m)), Y: float64(2 * ((k*104729 + k*k) % m))})
		}
		h := ref.Hull(pts)
		if len(h) >= 3 {
			bigRings = append(bigRings, append(append([]ref.P2{}, h...), h[0]))
		}
	}
	for _, teeth := range []int{10, 40, 100} {
		var comb []ref.P2
		for t := 0; t < teeth; t++ {
			x := float64(4 * t)
			comb = append(comb, ref.P2{X: x, Y: 0}, ref.P2{X: x, Y: float64(8 + 2*(t%3))}, ref.P2{X: x + 2, Y: float64(8 + 2*(t%3))}, ref.P2{X: x + 2, Y: 0})
		}
		comb = append(comb, ref.P2{X: float64(4 * teeth), Y: 0}, ref.P2{X: float64(4 * teeth), Y: -4}, ref.P2{X: 0, Y: -4})
		bigRings = append(bigRings, append(comb, comb[0]))
	}
	c.Note("large_rings", len(bigRings))
	c.Parallel(len(bigRings), func(i int) {
		r := bigRings[i]
		for _, rev := range []bool{false, true} {
			var ring []ref.F
			for k := range r {
				q := r[k]
				if rev {
					q = r[len(r)-1-k]
				}
				ring = append(ring, ref.F(q.X), ref.F(q.Y))
			}
			query := func(x, y float64) {
				c.Count("large_ring_queries", 1)
				c11Exec(c, c11Case{Mode: "ring", Ring: ring, P: []ref.F{ref.F(x), ref.F(y)}, Layout: geom.XY})
			}
			for k := 1; k < len(r); k++ {
				query(r[k].X, r[k].Y)
				query((r[k].X+r[k-1].X)/2, (r[k].Y+r[k-1].Y)/2)
				query(r[k].X+1, r[k].Y)
				query(r[k].X-1, r[k].Y+1)
			}
		}
	})
	// exactly collinear mixed-magnitude triples: the middle point is exactly on the segment
	mcs := mixedCollinear()
	c.Parallel(len(mcs), func(i int) {
		t := mcs[i]
		S, P, E := [2]float64{t[0], t[1]}, [2]float64{t[2], t[3]}, [2]float64{t[4], t[5]}
		line := func(a, b, p [2]float64) {
			c.Count("mixed_magnitude_cases", 1)
			c11Exec(c, c11Case{Mode: "line", Ring: []ref.F{ref.F(a[0]), ref.F(a[1]), ref.F(b[0]), ref.F(b[1])}, P: []ref.F{ref.F(p[0]), ref.F(p[1])}, Layout: geom.XY})
		}
		line(S, E, P)
		line(E, S, P)
		line(S, P, E) // E beyond P: not on the segment
		line(P, E, S)
		// (ring location is NOT exercised on these float inputs: the quantifier restricts it to
		// integer grids where coordinate differences are exact - see DESIGN.md section 7.8)
	})
	// nearest lattice points to edges whose direction has a long continued fraction (Fibonacci,
	// Pell): strictly inside / outside by a cross product of 1, never on the edge
	for _, seq := range cfSequences() {
		for k := 2; k+1 < len(seq); k++ {
			a, b, d := seq[k-1], seq[k], seq[k+1]
			for _, third := range [][2]float64{{0, d}, {b, 0}} {
				for _, ring := range [][][2]float64{{{0, 0}, {b, d}, third, {0, 0}}, {{b, d}, third, {0, 0}, {b, d}}, {third, {b, d}, {0, 0}, third}} {
					var r []ref.F
					for _, q := range ring {
						r = append(r, ref.F(q[0]), ref.F(q[1]))
					}
					for _, q := range [][2]float64{{a, b}, {b - a, d - b}, {2 * a, 2 * b}} {
						if q[0] >= 0 && q[1] >= 0 {
							c.Count("continued_fraction_queries", 1)
							c11Exec(c, c11Case{Mode: "ring", Ring: r, P: []ref.F{ref.F(q[0]), ref.F(q[1])}, Layout: geom.XY})
						}
					}
				}
			}
		}
	}
	// split-ratio sweep: a point strictly inside a slanted edge, dividing it a:b for all a,b <= 24
	// in 10 directions (the exact-sign determinant reduces such configurations step by step)
	dirs := [][2]float64{{1, 1}, {1, 2}, {2, 1}, {1, -1}, {3, 1}, {1, 3}, {2, -3}, {5, 2}, {-3, 7}, {7, -4}}
	c.Parallel(len(dirs)*24, func(i int) {
		d := dirs[i/24]
		a := float64(i%24 + 1)
		for b := 1.0; b <= 24; b++ {
			A := [2]float64{-a * d[0], -a * d[1]}
			B := [2]float64{b * d[0], b * d[1]}
			C := [2]float64{B[0] - d[1]*3 + 1, A[1] + d[0]*3 - 2} // off the line
			tri := [][2]float64{A, B, C}
			for start := 0; start < 3; start++ {
				for _, rev := range []bool{false, true} {
					var ring []ref.F
					for k := 0; k <= 3; k++ {
						j := (start + k) % 3
						if rev {
							j = ((start-k)%3 + 3) % 3
						}
						ring = append(ring, ref.F(tri[j][0]), ref.F(tri[j][1]))
					}
					for _, q := range [][2]float64{{0, 0}, {1, 0}, {0, 1}, {-1, 0}, {0, -1}, {d[0], d[1]}, {-d[0], -d[1]}} {
						c.Count("split_ratio_queries", 1)
						c11Exec(c, c11Case{Mode: "ring", Ring: ring, P: []ref.F{ref.F(q[0]), ref.F(q[1])}, Layout: geom.XY})
					}
				}
			}
			for _, q := range [][2]float64{{0, 0}, {d[0], d[1]}, {1, 0}} {
				c11Exec(c, c11Case{Mode: "line", Ring: []ref.F{ref.F(A[0]), ref.F(A[1]), ref.F(B[0]), ref.F(B[1])}, P: []ref.F{ref.F(q[0]), ref.F(q[1])}, Layout: geom.XY})
				c11Exec(c, c11Case{Mode: "line", Ring: []ref.F{ref.F(B[0]), ref.F(B[1]), ref.F(A[0]), ref.F(A[1])}, P: []ref.F{ref.F(q[0]), ref.F(q[1])}, Layout: geom.XY})
			}
		}
	})
	// point on line: all segments and 3-vertex polylines x all points on the 5x5 grid
	g5 := gridN(5, 1)
	c.Parallel(len(g5), func(i int) {
		a := g5[i]
		for _, b := range g5 {
			for _, p := range g5 {
				c11Exec(c, c11Case{Mode: "line", Ring: []ref.F{ref.F(a[0]), ref.F(a[1]), ref.F(b[0]), ref.F(b[1])}, P: []ref.F{ref.F(p[0]), ref.F(p[1])}, Layout: geom.XY})
				if int(p[0]+p[1])%3 == 0 {
					for _, d := range g5 {
						c11Exec(c, c11Case{Mode: "line", Ring: []ref.F{ref.F(a[0]), ref.F(a[1]), ref.F(b[0]), ref.F(b[1]), ref.F(d[0]), ref.F(d[1])}, P: []ref.F{ref.F(p[0]), ref.F(p[1])}, Layout: geom.XYZ})
					}
				}
			}
		}
	})
	// ulp lattice around exactly-on-segment configurations (segment a..c, point b)
	bases := collinearBases()
	c.Parallel(len(bases), func(i int) {
		b := bases[i]
		seg := [4]float64{b[0], b[1], b[4], b[5]}
		pt := [2]float64{b[2], b[3]}
		var rec2 func(k int, v []float64)
		rec2 = func(k int, v []float64) {
			if k == 6 {
				c11Exec(c, c11Case{Mode: "line", Ring: []ref.F{ref.F(v[0]), ref.F(v[1]), ref.F(v[2]), ref.F(v[3])}, P: []ref.F{ref.F(v[4]), ref.F(v[5])}, Layout: geom.XY})
				return
			}
			var base float64
			if k < 4 {
				base = seg[k]
			} else {
				base = pt[k-4]
			}
			for _, d := range []int{-1, 0, 1} {
				v[k] = ulps(base, d)
				rec2(k+1, v)
			}
		}
		rec2(0, make([]float64, 6))
	})
	for _, k := range []string{"location_Interior", "location_Boundary", "location_Exterior", "on_line", "off_line"} {
		if c.Get(k) == 0 {
			c.Warn("vacuous: class " + k + " is empty")
		}
	}
	// point-on-segment at the END POINTS of axis-parallel and diagonal segments whose two ends
	// differ in magnitude or sign: the query point 0..3 ulps before and beyond either end, on the
	// line. Every ordered pair of ends over a 9-value menu, horizontal / vertical / on the diagonal
	// x = y (where the perturbed point stays exactly on the line), two fixed ordinates.
	endVals := []float64{-8.25, -3.5, -1, 0.1, 1, 1.3, 4, 900.25, 1e6 + 0.5}
	c.Parallel(len(endVals), func(i int) {
		s := endVals[i]
		for _, e := range endVals {
			if e == s {
				continue
			}
			for _, at := range []float64{s, e} {
				for k := -3; k <= 3; k++ {
					t := ulps(at, k)
					for _, y0 := range []float64{2, 0.7} {
						for orient := 0; orient < 3; orient++ {
							var a, b, p [2]float64
							switch orient {
							case 0:
								a, b, p = [2]float64{s, y0}, [2]float64{e, y0}, [2]float64{t, y0}
							case 1:
								a, b, p = [2]float64{y0, s}, [2]float64{y0, e}, [2]float64{y0, t}
							default:
								a, b, p = [2]float64{s, s}, [2]float64{e, e}, [2]float64{t, t}
							}
							c.Count("end_point_ulp_queries", 1)
							c11Exec(c, c11Case{Mode: "line", Ring: []ref.F{ref.F(a[0]), ref.F(a[1]), ref.F(b[0]), ref.F(b[1])}, P: []ref.F{ref.F(p[0]), ref.F(p[1])}, Layout: geom.XY})
						}
					}
				}
			}
		}
	})
	// very large rings (beyond any block size a divided scan might use): the zig-zag tower of
	// c11Tower, queried at every odd height inside, left and right of it and in the middle of both
	// edges at that height, plus the middles of the bottom and top edges; both directions and three
	// start vertices. One library call per query against the answer known by construction (the
	// construction itself is checked against the exact rule on the small towers first); a
	// disagreement goes through c11Exec for the exact verdict.
	c11Euclid(c)
	towerNs := []int{2050, 4200, 10000}
	if c.Thorough() {
		towerNs = append(towerNs, 33000)
	}
	c.Note("tower_rings_coordinates", fmt.Sprint(towerNs))
	towerQueries := func(n, i int) ([][2]float64, []location.Type) {
		y := float64(2*i + 1)
		qs := [][2]float64{{5, y}, {-5, y}, {15, y}, {11, y}, {-1, y}}
		ws := []location.Type{location.Interior, location.Exterior, location.Exterior, location.Boundary, location.Boundary}
		if i == 0 {
			qs = append(qs, [2]float64{5, 0}, [2]float64{5, float64(2 * n)})
			ws = append(ws, location.Boundary, location.Boundary)
		}
		return qs, ws
	}
	for _, n := range []int{1, 2, 3, 6} {
		for rev := 0; rev < 2; rev++ {
			for rot := 0; rot < 2*n+2; rot++ {
				for i := 0; i < n; i++ {
					qs, ws := towerQueries(n, i)
					for k, q := range qs {
						if ref.Locate(ref.P2{X: q[0], Y: q[1]}, toP2(c11Tower(n, rev, rot))) != int(ws[k]) {
							panic(fmt.Sprintf("harness error: tower construction n=%d i=%d q=%v", n, i, q))
						}
						c11Exec(c, c11Case{Mode: "ring", Gen: fmt.Sprintf("tower/%d/%d/%d", n, rev, rot), P: []ref.F{ref.F(q[0]), ref.F(q[1])}, Layout: geom.XY})
					}
				}
			}
		}
	}
	for _, n := range towerNs {
		n := n
		for rev := 0; rev < 2; rev++ {
			for _, rot := range []int{0, 1, n + 7} {
				rev, rot := rev, rot
				flat := flatWithLayout(c11Tower(n, rev, rot), geom.XY)
				c.Parallel(n, func(i int) {
					qs, ws := towerQueries(n, i)
					for k, q := range qs {
						c.Count("evaluations", 1)
						c.Count("tower_ring_queries", 1)
						got := xy.LocatePointInRing(geom.XY, geom.Coord{q[0], q[1]}, flat)
						in := xy.IsPointInRing(geom.XY, geom.Coord{q[0], q[1]}, flat)
						if got != ws[k] || in != (ws[k] != location.Exterior) {
							c11Exec(c, c11Case{Mode: "ring", Gen: fmt.Sprintf("tower/%d/%d/%d", n, rev, rot), P: []ref.F{ref.F(q[0]), ref.F(q[1])}, Layout: geom.XY})
						}
					}
				})
				if c.Expired() {
					break
				}
			}
		}
	}
	exhaustiveRings()
}
