package checks

import (
	"encoding/binary"
	"encoding/json"
	"errors"
	"fmt"
	"github.com/twpayne/go-geom/encoding/ewkb"
	"github.com/twpayne/go-geom/encoding/igc"
	"github.com/twpayne/go-geom/encoding/wkb"
	"github.com/twpayne/go-geom/encoding/wkbcommon"
	"math"
	"strings"

	"github.com/twpayne/go-geom"

	"verif/engine"
	"verif/ref"
)

// C01 — flat representation well formed and lossless.

type c01Case struct {
	G      *ref.G `json:"g"`
	Mode   string `json:"mode"`           // setcoords | flat | push | maybeempty | mismatch | mismatch2 | selfalias | igc
	Text   string `json:"text,omitempty"` // igc mode: the file
	Pos2   int    `json:"pos2,omitempty"`
	Pos    int    `json:"pos,omitempty"`
	BadLen int    `json:"bad_len,omitempty"` // mismatch: -1 = nil coordinate, else length
	Var    int    `json:"var,omitempty"`     // selfalias: 0 reversed, 1 shifted right behind a fresh coordinate, 2 shifted left
}

// JSON form of a case: an IGC text that is not valid UTF-8 is stored as bytes (see splitText).
type c01Wire c01Case

func (cs c01Case) MarshalJSON() ([]byte, error) {
	w := struct {
		c01Wire
		TextBytes []byte `json:"text_bytes,omitempty"`
	}{c01Wire: c01Wire(cs)}
	w.Text, w.TextBytes = splitText(cs.Text)
	return json.Marshal(w)
}

func (cs *c01Case) UnmarshalJSON(b []byte) error {
	var w struct {
		c01Wire
		TextBytes []byte `json:"text_bytes"`
	}
	if err := json.Unmarshal(b, &w); err != nil {
		return err
	}
	*cs = c01Case(w.c01Wire)
	cs.Text = joinText(w.Text, w.TextBytes)
	return nil
}

func init() {
	engine.Register(&engine.Check{
		ID: "C01", Level: "exploration",
		Rule: "every shape of the universe U (7 types x layouts XY,XYZ,XYM,XYZM,Layout(5),Layout(7) + NoLayout empties; part sizes 0..2, <=3 parts, <=3 (quick 2) polygons of <=2 rings) built by SetCoords, by New*Flat from the model's own flattening, by Push and (points) by NewPointFlatMaybeEmpty, plus Clone; special-float sweep (9 values x every ordinate position); larger structures (5..65 polygons/parts, lines of 200..2600 coordinates) in four layouts; every single-coordinate length mismatch (stride-1, stride+1, 0, nil) at every position. distinct_nontrivial = distinct (model, mode, mismatch) cases with at least one coordinate or one part Also: Clone followed by a Push on both values with parts of different sizes (both must stay well formed and read back their own parts), binary multi-geometries and collections whose member records announce another dimensionality than the outer record (every pair of XY/XYZ/XYM/XYZM, both byte orders, WKB / WKB-NaN / EWKB: a returned geometry must be well formed), and the IGC reader's error path (every single-column substitution and truncation of a B record under three I-record states: the track returned together with the error must be well formed). Round 9: every second all-present MultiPoint is built with the ends option holding no ends. Round 10: the length-mismatch sweep for layout-less geometries of all seven types. Round 13: every ordered pair (source shape, target shape) of one type and layout as two geometries made by New*Flat from the same caller slices, SetCoords(target) on one: it reads back the target and the sibling stays well formed.",
		Run:  c01Run,
		Replay: func(c *engine.Ctx, kind string, raw json.RawMessage) {
			cs := decodeCase[c01Case](raw)
			if kind == "igc" {
				t, err := igc.Read(strings.NewReader(cs.Text))
				if t != nil && t.LineString != nil {
					if werr := ref.WellFormed(t.LineString); werr != nil {
						c.Violate("igc/ill-formed", fmt.Sprintf("err=%v: %v", err, werr), "igc", cs)
					}
				}
				return
			}
			if kind == "decoded" {
				c01Decoded(c, cs)
				return
			}
			if kind == "sibling" {
				c01Sibling(c, cs, c01SiblingTargets(cs.G))
				return
			}
			c01Exec(c, cs)
		},
		Assumptions: []string{
			"Observation only through Layout/Stride/FlatCoords/Ends/Endss/Coords; well-formedness restated from the property text in ref.WellFormed",
			"Float bit patterns beyond the 9 special values are represented by their class (ordinates are copied, never computed on)",
		},
	})
}

// c01Decoded: "any decoder" - one binary input (Text: the bytes; Mode: wkb | wkb-nan | ewkb) whose
// result, if the decoder returns one, must be well formed.
func c01Decoded(c *engine.Ctx, cs c01Case) {
	c.Count("evaluations", 1)
	b := []byte(cs.Text)
	var t geom.T
	var err error
	if p, _ := engine.Guard(func() {
		switch cs.Mode {
		case "ewkb":
			t, err = ewkb.Unmarshal(b)
		case "wkb-nan":
			t, err = wkb.Unmarshal(b, wkbcommon.WKBOptionEmptyPointHandling(wkbcommon.EmptyPointHandlingNaN))
		default:
			t, err = wkb.Unmarshal(b)
		}
	}); p != nil {
		c.Violate("decoded/"+cs.Mode+"/panic", fmt.Sprintf("decoder panicked on %x: %v", b, p), "decoded", cs)
		return
	}
	if err != nil || t == nil || isNilT(t) {
		c.Count("decoded_rejected", 1)
		return
	}
	if werr := ref.WellFormed(t); werr != nil {
		c.Violate("decoded/"+cs.Mode+"/ill-formed", fmt.Sprintf("decoding %x returned a geometry that is not well formed: %v", b, werr), "decoded", cs)
		return
	}
	c.Count("decoded_well_formed", 1)
}

// c01MixedMembers: multi-geometries and collections whose member records announce another
// dimensionality than the outer record (for every pair of XY/XYZ/XYM/XYZM, both byte orders, WKB,
// WKB with NaN empty points, EWKB): whatever a decoder makes of them, a returned geometry holds
// whole coordinates of its own stride.
func c01MixedMembers(c *engine.Ctx) {
	type job struct {
		kind    ref.Kind
		lo, li  geom.Layout
		xdr     bool
		mode    string
		members int
	}
	var jobs []job
	for _, k := range []ref.Kind{ref.MultiPoint, ref.MultiLineString, ref.MultiPolygon, ref.Collection} {
		for _, lo := range ref.Layouts4 {
			for _, li := range ref.Layouts4 {
				for _, xdr := range []bool{false, true} {
					for _, mode := range []string{"wkb", "wkb-nan", "ewkb"} {
						for _, n := range []int{1, 2} {
							jobs = append(jobs, job{k, lo, li, xdr, mode, n})
						}
					}
				}
			}
		}
	}
	c.Parallel(len(jobs), func(i int) {
		j := jobs[i]
		ext := j.mode == "ewkb"
		var outer *ref.G
		var member func(l geom.Layout, k int) *ref.G
		switch j.kind {
		case ref.MultiPoint:
			outer = ref.NewMultiPoint(j.lo, nil, ref.Counter())
			member = func(l geom.Layout, k int) *ref.G { return ref.NewPoint(l, true, ref.CounterFrom(float64(10*k))) }
		case ref.MultiLineString:
			outer = ref.NewParts(ref.MultiLineString, j.lo, nil, ref.Counter())
			member = func(l geom.Layout, k int) *ref.G {
				return ref.NewLine(ref.LineString, l, 2+k, ref.CounterFrom(float64(10*k)))
			}
		case ref.MultiPolygon:
			outer = ref.NewMultiPolygon(j.lo, nil, ref.Counter())
			member = func(l geom.Layout, k int) *ref.G {
				return ref.NewParts(ref.Polygon, l, []int{4, 1 + k}, ref.CounterFrom(float64(10*k)))
			}
		default:
			outer = ref.NewCollection(j.lo)
			member = func(l geom.Layout, k int) *ref.G {
				return ref.NewLine(ref.LineString, l, 2, ref.CounterFrom(float64(10*k)))
			}
		}
		b := append([]byte{}, ref.EncodeWKB(outer, j.xdr, ext)...) // header with count 0 at the end
		cnt := b[len(b)-4:]
		if j.xdr {
			binary.BigEndian.PutUint32(cnt, uint32(j.members))
		} else {
			binary.LittleEndian.PutUint32(cnt, uint32(j.members))
		}
		for k := 0; k < j.members; k++ {
			l := j.li
			if k == 1 {
				l = j.lo // second member in the outer layout: the mismatch is the FIRST member only
			}
			b = append(b, ref.EncodeWKB(member(l, k), j.xdr, ext)...)
		}
		c.Count("mixed_member_inputs", 1)
		c01Decoded(c, c01Case{Mode: j.mode, Text: string(b)})
	})
}

// c01SiblingTargets: every shape of the universe with the type and layout of g (deterministic order).
func c01SiblingTargets(g *ref.G) []*ref.G {
	var out []*ref.G
	ref.ForEachBase(g.Layout, 2, func(h *ref.G) {
		if h.Kind == g.Kind {
			out = append(out, h)
		}
	})
	return out
}

func c01Run(c *engine.Ctx) {
	c01IGC(c)
	// every ordered pair (source shape, target shape) of one type and layout, see c01Sibling
	for _, l := range ref.Layouts4 {
		var shapes []*ref.G
		ref.ForEachBase(l, 2, func(g *ref.G) {
			if g.Kind != ref.Point {
				shapes = append(shapes, g)
			}
		})
		c.Parallel(len(shapes), func(i int) {
			targets := c01SiblingTargets(shapes[i])
			for k := range targets {
				c01Sibling(c, c01Case{G: shapes[i], Mode: "sibling", Pos: k}, targets)
			}
		})
	}
	c01MixedMembers(c)
	maxPolys := 2
	if c.Thorough() {
		maxPolys = 3
	}
	var bases []*ref.G
	for _, l := range ref.LayoutsAll {
		ref.ForEachBase(l, maxPolys, func(g *ref.G) { bases = append(bases, g) })
	}
	// NoLayout: only geometries without coordinates.
	ref.ForEachBase(geom.NoLayout, maxPolys, func(g *ref.G) {
		if g.NumOrdinates() == 0 && !(g.Kind == ref.Point && g.C0 != nil) && !hasPresentPoint(g) {
			bases = append(bases, g)
		}
	})
	// larger structures: code paths that change behaviour beyond a few parts / rows / coordinates
	var large []*ref.G
	for _, l := range []geom.Layout{geom.XY, geom.XYZ, geom.XYZM, geom.Layout(5)} {
		for _, np := range []int{5, 9, 17, 33, 65} {
			var shape [][]int
			for i := 0; i < np; i++ {
				shape = append(shape, [][]int{{2, 1, 2}, {1}, {}, {0, 3}, {4}}[i%5])
			}
			large = append(large, ref.NewMultiPolygon(l, shape, ref.Counter()))
			sizes := make([]int, np)
			for i := range sizes {
				sizes[i] = (i*3 + 1) % 5
			}
			large = append(large, ref.NewParts(ref.Polygon, l, sizes, ref.Counter()), ref.NewParts(ref.MultiLineString, l, sizes, ref.Counter()))
			pat := make([]int, 3*np)
			for i := range pat {
				pat[i] = (i + 1) % 3
			}
			large = append(large, ref.NewMultiPoint(l, pat, ref.Counter()), ref.NewLine(ref.LineString, l, 40*np, ref.Counter()), ref.NewLine(ref.LinearRing, l, 7*np, ref.Counter()))
		}
	}
	c.Note("large_models", len(large))
	c.Parallel(len(large), func(i int) {
		for _, mode := range []string{"setcoords", "flat", "push"} {
			c01Exec(c, c01Case{G: large[i], Mode: mode})
		}
		for v := 0; v < 3; v++ {
			c01Exec(c, c01Case{G: large[i], Mode: "selfalias", Var: v})
		}
		nc := numCoords(large[i])
		st := large[i].Layout.Stride()
		// pairs of cancelling wrong lengths: adjacent, far apart, around position 8
		for _, pr := range [][2]int{{0, 1}, {0, nc - 1}, {nc / 2, nc/2 + 1}, {7, 8}, {8, 3}, {nc - 1, 0}, {1, 9}} {
			if pr[0] < nc && pr[1] < nc && pr[0] != pr[1] && pr[0] >= 0 && pr[1] >= 0 {
				c01Exec(c, c01Case{G: large[i], Mode: "mismatch2", Pos: pr[0], Pos2: pr[1]})
			}
		}
		for _, pos := range []int{0, nc / 2, nc - 1} {
			for _, bad := range []int{st - 1, st + 1, -1} {
				c01Exec(c, c01Case{G: large[i], Mode: "mismatch", Pos: pos, BadLen: bad})
			}
		}
	})
	c.Note("base_models", len(bases))
	c.Parallel(len(bases), func(i int) {
		g := bases[i]
		for _, mode := range []string{"setcoords", "flat", "push", "maybeempty"} {
			c01Exec(c, c01Case{G: g, Mode: mode})
		}
		if g.Kind == ref.Point && g.C0 != nil {
			// every ordinate special at once (the empty-point marker and its near misses)
			for _, sv := range ref.SpecialFloats {
				for skip := -1; skip < len(g.C0); skip++ {
					h := g.Clone()
					for k := range h.C0 {
						if k != skip {
							h.C0[k] = ref.F(sv)
						}
					}
					if skip >= 0 {
						h.C0[skip] = ref.F(ref.SpecialFloats[0])
					}
					for _, mode := range []string{"setcoords", "flat", "maybeempty"} {
						c01Exec(c, c01Case{G: h, Mode: mode})
					}
				}
			}
		}
		n := g.NumOrdinates()
		sweep := g.Kind != ref.MultiPolygon || len(g.C3) <= 2 || c.Thorough()
		if sweep && g.Layout != geom.NoLayout {
			for pos := 0; pos < n; pos++ {
				for _, sv := range ref.SpecialFloats {
					h := g.Clone()
					k := 0
					h.Ordinates(func(p *ref.F) {
						if k == pos {
							*p = ref.F(sv)
						}
						k++
					})
					for _, mode := range []string{"setcoords", "flat", "push", "maybeempty"} {
						c01Exec(c, c01Case{G: h, Mode: mode})
					}
				}
			}
		}
		for v := 0; v < 3; v++ {
			c01Exec(c, c01Case{G: g, Mode: "selfalias", Var: v})
		}
		// every single-coordinate length mismatch
		if g.Layout != geom.NoLayout {
			nc := numCoords(g)
			for a := 0; a < nc; a++ {
				for b := 0; b < nc; b++ {
					if a != b && g.Kind != ref.MultiPolygon {
						c01Exec(c, c01Case{G: g, Mode: "mismatch2", Pos: a, Pos2: b})
					}
				}
			}
			stride := g.Layout.Stride()
			for pos := 0; pos < nc; pos++ {
				for _, bad := range []int{stride - 1, stride + 1, 0, -1} {
					c01Exec(c, c01Case{G: g, Mode: "mismatch", Pos: pos, BadLen: bad})
				}
			}
		}
	})
	// the same for geometries without a layout: a coordinate of length 1, 2 or 5 where the stride
	// is 0 - rejected with a stride-mismatch error like anywhere else
	for _, g := range []*ref.G{
		{Kind: ref.LineString, Layout: geom.NoLayout, C1: []ref.C{{}}},
		{Kind: ref.LinearRing, Layout: geom.NoLayout, C1: []ref.C{{}, {}}},
		{Kind: ref.MultiPoint, Layout: geom.NoLayout, C1: []ref.C{{}}},
		{Kind: ref.Polygon, Layout: geom.NoLayout, C2: [][]ref.C{{}, {{}}}},
		{Kind: ref.MultiLineString, Layout: geom.NoLayout, C2: [][]ref.C{{{}}}},
		{Kind: ref.MultiPolygon, Layout: geom.NoLayout, C3: [][][]ref.C{{}, {{{}}}}},
	} {
		for pos := 0; pos < numCoords(g); pos++ {
			for _, bad := range []int{1, 2, 5} {
				c.Count("layoutless_mismatch_cases", 1)
				c01Exec(c, c01Case{G: g, Mode: "mismatch", Pos: pos, BadLen: bad})
			}
		}
	}
	for _, n := range []int{1, 2, 5} {
		c01Exec(c, c01Case{G: &ref.G{Kind: ref.Point, Layout: geom.NoLayout}, Mode: "mismatch", Pos: 0, BadLen: n})
	}
	if c.Get("mismatch_rejected") == 0 || c.Get("roundtrip_ok") == 0 {
		c.Warn("vacuous: no mismatch rejected or no round trip compared")
	}
}

// c01IGC: the IGC reader returns the track decoded so far TOGETHER with an error, so the
// geometry must be well formed on the error path too. Every single-column substitution of a
// B record (with and without an I-record extension) by each of a few characters, and every
// truncation, followed by two more valid fixes.
func c01IGC(c *engine.Ctx) {
	heads := [][]string{
		{"AXXX001", "HFDTE150785"},
		{"AXXX001", "HFDTE150785", "I013637LAD"},
		{"AXXX001", "HFDTE150785", "I033637LAD3839LOD4042TDS"},
	}
	bs := []string{"B1101015206343N00006198WA0058700558", "B1101015206343N00006198WA005870055812", "B1101015206343N00006198WA0058700558123456"}
	tail := []string{"B1101025206344N00006199WA0058800559", "B1101035206345N00006200WA0058900560"}
	for hi, head := range heads {
		b := bs[hi]
		tl := make([]string, len(tail))
		for i, x := range tail {
			tl[i] = x + b[35:]
		}
		var variants []string
		for col := 0; col < len(b); col++ {
			for _, r := range []string{"-", "A", " ", "\x80", "9", "S", "W"} {
				variants = append(variants, b[:col]+r+b[col+1:])
			}
			variants = append(variants, b[:col])
		}
		for _, v := range variants {
			c.Count("evaluations", 1)
			text := strings.Join(append(append(append([]string{}, head...), v), tl...), "\r\n") + "\r\n"
			var t *igc.T
			var err error
			if p, _ := engine.Guard(func() { t, err = igc.Read(strings.NewReader(text)) }); p != nil {
				c.Violate("igc/panic", fmt.Sprintf("igc.Read panicked on %q: %v", text, p), "igc", c01Case{Mode: "igc", Text: text})
				continue
			}
			if t == nil || t.LineString == nil {
				continue
			}
			if werr := ref.WellFormed(t.LineString); werr != nil {
				c.Violate("igc/ill-formed", fmt.Sprintf("igc.Read(%q) returned (err=%v) a LineString that is not well formed: %v", text, err, werr), "igc", c01Case{Mode: "igc", Text: text})
				continue
			}
			if err != nil {
				c.Count("igc_error_path_tracks", 1)
			}
			c.Count("igc_tracks_ok", 1)
		}
	}
}

func hasPresentPoint(g *ref.G) bool {
	if g.Kind != ref.MultiPoint {
		return false
	}
	for _, m := range g.C1 {
		if m != nil {
			return true
		}
	}
	return false
}

// numCoords counts coordinate slots (present coordinates; nil multipoint members are not slots).
func numCoords(g *ref.G) int {
	n := 0
	eachCoord(g, func(*ref.C) { n++ })
	return n
}

func eachCoord(g *ref.G, f func(c *ref.C)) {
	if g.C0 != nil {
		f(&g.C0)
	}
	for i := range g.C1 {
		if g.C1[i] != nil {
			f(&g.C1[i])
		}
	}
	for i := range g.C2 {
		for j := range g.C2[i] {
			f(&g.C2[i][j])
		}
	}
	for i := range g.C3 {
		for j := range g.C3[i] {
			for k := range g.C3[i][j] {
				f(&g.C3[i][j][k])
			}
		}
	}
}

// buildFlat constructs through New*Flat from the model's own flattening.
func buildFlat(g *ref.G) geom.T {
	flat, ends, endss := g.Flat()
	switch g.Kind {
	case ref.Point:
		return geom.NewPointFlat(g.Layout, flat)
	case ref.LineString:
		return geom.NewLineStringFlat(g.Layout, flat)
	case ref.LinearRing:
		return geom.NewLinearRingFlat(g.Layout, flat)
	case ref.Polygon:
		return geom.NewPolygonFlat(g.Layout, flat, ends)
	case ref.MultiLineString:
		return geom.NewMultiLineStringFlat(g.Layout, flat, ends)
	case ref.MultiPoint:
		allPresent := true
		for _, m := range g.C1 {
			if m == nil {
				allPresent = false
			}
		}
		if allPresent {
			if len(g.C1)%2 == 1 {
				// the ends option handed over with no ends in it: still one end per coordinate
				return geom.NewMultiPointFlat(g.Layout, flat, geom.NewMultiPointFlatOptionWithEnds(nil))
			}
			return geom.NewMultiPointFlat(g.Layout, flat) // default ends: one per coordinate
		}
		return geom.NewMultiPointFlat(g.Layout, flat, geom.NewMultiPointFlatOptionWithEnds(ends))
	case ref.MultiPolygon:
		return geom.NewMultiPolygonFlat(g.Layout, flat, endss)
	}
	panic("buildFlat: bad kind")
}

// buildPush constructs multi-part geometries by pushing parts built with SetCoords.
func buildPush(g *ref.G) (geom.T, error) {
	switch g.Kind {
	case ref.Polygon:
		p := geom.NewPolygon(g.Layout)
		for _, ring := range g.C2 {
			lr := (&ref.G{Kind: ref.LinearRing, Layout: g.Layout, C1: ring}).MustBuild().(*geom.LinearRing)
			if err := p.Push(lr); err != nil {
				return nil, err
			}
		}
		return p, nil
	case ref.MultiLineString:
		p := geom.NewMultiLineString(g.Layout)
		for _, line := range g.C2 {
			ls := (&ref.G{Kind: ref.LineString, Layout: g.Layout, C1: line}).MustBuild().(*geom.LineString)
			if err := p.Push(ls); err != nil {
				return nil, err
			}
		}
		return p, nil
	case ref.MultiPoint:
		p := geom.NewMultiPoint(g.Layout)
		for _, m := range g.C1 {
			pt := (&ref.G{Kind: ref.Point, Layout: g.Layout, C0: m}).MustBuild().(*geom.Point)
			if err := p.Push(pt); err != nil {
				return nil, err
			}
		}
		return p, nil
	case ref.MultiPolygon:
		p := geom.NewMultiPolygon(g.Layout)
		for _, poly := range g.C3 {
			pg := (&ref.G{Kind: ref.Polygon, Layout: g.Layout, C2: poly}).MustBuild().(*geom.Polygon)
			if err := p.Push(pg); err != nil {
				return nil, err
			}
		}
		return p, nil
	}
	return nil, nil // not a multi-part kind
}

func cloneOf(t geom.T) geom.T {
	switch t := t.(type) {
	case *geom.Point:
		return t.Clone()
	case *geom.LineString:
		return t.Clone()
	case *geom.LinearRing:
		return t.Clone()
	case *geom.Polygon:
		return t.Clone()
	case *geom.MultiPoint:
		return t.Clone()
	case *geom.MultiLineString:
		return t.Clone()
	case *geom.MultiPolygon:
		return t.Clone()
	}
	return nil
}

func c01Exec(c *engine.Ctx, cs c01Case) {
	c.Count("evaluations", 1)
	g := cs.G
	keyBase := fmt.Sprintf("%s/%s/%s", g.Kind, layoutName(g.Layout), cs.Mode)
	fail := func(what, desc string) {
		c.Violate(keyBase+"/"+what, desc+" model="+g.String(), "c01", cs)
	}
	if cs.Mode == "selfalias" {
		c01SelfAlias(c, cs, fail)
		return
	}
	if cs.Mode == "mismatch" && g.Kind == ref.Point && g.Layout == geom.NoLayout {
		// a point without a layout given a coordinate of BadLen ordinates (the model cannot hold it)
		_, err := geom.NewPoint(geom.NoLayout).SetCoords(make(geom.Coord, cs.BadLen))
		var sm geom.ErrStrideMismatch
		if !errors.As(err, &sm) || sm.Got != cs.BadLen || sm.Want != 0 {
			fail("wrong-error", fmt.Sprintf("NewPoint(NoLayout).SetCoords(coordinate of length %d): error %T %v, want ErrStrideMismatch{Got:%d,Want:0}", cs.BadLen, err, err, cs.BadLen))
			return
		}
		c.Count("mismatch_rejected", 1)
		return
	}
	if cs.Mode == "mismatch2" {
		// two wrong-length coordinates whose lengths cancel (stride-1 and stride+1)
		h := g.Clone()
		k := 0
		st := g.Layout.Stride()
		eachCoord(h, func(p *ref.C) {
			if k == cs.Pos {
				*p = make(ref.C, st-1)
			}
			if k == cs.Pos2 {
				*p = make(ref.C, st+1)
			}
			k++
		})
		var t geom.T
		var err error
		if p, _ := engine.Guard(func() { t, err = h.Build() }); p != nil {
			fail("panic", fmt.Sprintf("panic %v", p))
			return
		}
		var sm geom.ErrStrideMismatch
		if err == nil || !errors.As(err, &sm) {
			fail("accepted", fmt.Sprintf("coordinates %d and %d of lengths %d and %d accepted (stride %d): err=%v", cs.Pos, cs.Pos2, st-1, st+1, st, err))
			return
		}
		if t != nil && !isNilT(t) {
			fail("non-nil-result", "non-nil geometry returned with an error")
			return
		}
		c.Count("mismatch_rejected", 1)
		c.DistinctStr(mustJSON(cs))
		return
	}
	if cs.Mode == "mismatch" {
		h := g.Clone()
		k := 0
		eachCoord(h, func(p *ref.C) {
			if k == cs.Pos {
				if cs.BadLen < 0 {
					*p = nil
				} else {
					nc := make(ref.C, cs.BadLen)
					for i := range nc {
						nc[i] = 99
					}
					*p = nc
				}
			}
			k++
		})
		if h.Kind == ref.MultiPoint && cs.BadLen < 0 {
			// a nil multipoint member is an empty point, not a mismatch
			t, err := h.Build()
			if err != nil {
				fail("nil-member-rejected", "nil multipoint member rejected: "+err.Error())
				return
			}
			if d := observeEq(t, h, ref.EqualOpt{}); d != "" {
				fail("nil-member-lost", d)
			}
			return
		}
		if h.Kind == ref.Point && cs.BadLen < 0 {
			return // nil coordinate on a Point means the empty point
		}
		var t geom.T
		var err error
		p, _ := engine.Guard(func() { t, err = h.Build() })
		if p != nil {
			fail("panic", fmt.Sprintf("panic %v", p))
			return
		}
		var sm geom.ErrStrideMismatch
		if err == nil {
			fail("accepted", fmt.Sprintf("coordinate %d of length %d accepted (stride %d)", cs.Pos, cs.BadLen, g.Layout.Stride()))
			return
		}
		if !errors.As(err, &sm) {
			fail("wrong-error", fmt.Sprintf("error %T %v is not ErrStrideMismatch", err, err))
			return
		}
		wantGot := cs.BadLen
		if wantGot < 0 {
			wantGot = 0
		}
		if sm.Got != wantGot || sm.Want != g.Layout.Stride() {
			fail("wrong-fields", fmt.Sprintf("ErrStrideMismatch{Got:%d,Want:%d}, expected {%d,%d}", sm.Got, sm.Want, wantGot, g.Layout.Stride()))
			return
		}
		if t != nil && !isNilT(t) {
			fail("non-nil-result", "non-nil geometry returned with an error")
			return
		}
		c.Count("mismatch_rejected", 1)
		c.DistinctStr(mustJSON(cs))
		return
	}

	var t geom.T
	var err error
	p, stack := engine.Guard(func() {
		switch cs.Mode {
		case "setcoords":
			t, err = g.Build()
		case "flat":
			t = buildFlat(g)
		case "push":
			t, err = buildPush(g)
		case "maybeempty":
			if g.Kind == ref.Point && g.C0 != nil {
				t = geom.NewPointFlatMaybeEmpty(g.Layout, g.C0.Floats())
			}
		}
	})
	if p != nil {
		fail("panic", fmt.Sprintf("panic %v\n%s", p, stack))
		return
	}
	if err != nil {
		fail("error", "constructor error: "+err.Error())
		return
	}
	if t == nil {
		return // push mode on a single-part kind
	}
	if cs.Mode == "maybeempty" {
		// only the all-canonical-NaN coordinate is the empty point; every other bit pattern is kept
		all := true
		for _, v := range g.C0 {
			if math.Float64bits(float64(v)) != geom.PointEmptyCoordHex {
				all = false
			}
		}
		if all {
			g = &ref.G{Kind: ref.Point, Layout: g.Layout}
		}
	}
	check := func(t geom.T, tag string) bool {
		var werr error
		var diff string
		p, _ := engine.Guard(func() {
			werr = ref.WellFormed(t)
			if g.Layout != geom.NoLayout {
				// Coords() is not demanded for NoLayout (the quantifier only asks that its
				// well-formed geometries are the empty ones); see DESIGN.md section 7.
				diff = observeEq(t, g, ref.EqualOpt{})
			} else if t.Layout() != geom.NoLayout || len(t.FlatCoords()) != 0 {
				diff = "NoLayout geometry with layout/coordinates"
			}
		})
		if p != nil {
			fail(tag+"observe-panic", fmt.Sprintf("panic while observing: %v", p))
			return false
		}
		if werr != nil {
			fail(tag+"ill-formed", werr.Error())
			return false
		}
		if diff != "" {
			fail(tag+"lossy", diff)
			return false
		}
		return true
	}
	if !check(t, "") {
		return
	}
	if cl := cloneOf(t); cl != nil {
		if !check(cl, "clone-") {
			return
		}
	}
	// Clone, then grow BOTH values by parts of different sizes: each must stay well formed and read
	// back its own parts (offset slices that share spare capacity overwrite each other's entries)
	if cl := cloneOf(t); cl != nil && g.Layout != geom.NoLayout && cs.Mode != "maybeempty" {
		for _, order := range [][2]int{{2, 3}, {3, 2}} {
			t2, cl2 := cloneOf(t), cloneOf(t)
			if cs.Mode == "push" || cs.Mode == "flat" {
				// keep the construction's own capacity on one side
				t2 = t
				cl2 = cloneOf(t)
			}
			m1, m2 := g.Clone(), g.Clone()
			grown := false
			if p, _ := engine.Guard(func() {
				grown = pushPartN(t2, m1, order[0], 1) && pushPartN(cl2, m2, order[1], 2) && pushPartN(t2, m1, order[1], 3)
			}); p != nil {
				fail("clone-push-panic", fmt.Sprintf("panic %v", p))
				return
			}
			if !grown {
				break
			}
			for k, pair := range []struct {
				t geom.T
				m *ref.G
			}{{t2, m1}, {cl2, m2}} {
				if werr := ref.WellFormed(pair.t); werr != nil {
					fail("clone-push-ill-formed", fmt.Sprintf("after Clone and a Push on both values, value %d: %v", k, werr))
					return
				}
				if d := observeEq(pair.t, pair.m, ref.EqualOpt{}); d != "" {
					fail("clone-push-lossy", fmt.Sprintf("after Clone and a Push on both values, value %d: %s", k, d))
					return
				}
			}
			if t2 == t {
				// t was grown: rebuild it for the second order
				var berr error
				switch cs.Mode {
				case "push":
					t, berr = buildPush(g)
				case "flat":
					t = buildFlat(g)
				}
				if berr != nil || t == nil {
					break
				}
			}
			c.Count("clone_push_ok", 1)
		}
	}
	c.Count("roundtrip_ok", 1)
	if g.NumOrdinates() > 0 || len(g.C1)+len(g.C2)+len(g.C3) > 0 {
		c.DistinctStr(mustJSON(cs))
	}
	c.Sample(cs.Mode, 2, cs)
}

// c01Sibling: two geometries made by New*Flat from the SAME caller-owned slices (the idiom for
// viewing one geometry as another type; the slices have spare capacity). SetCoords on one of them
// gives the receiver what was set, and the sibling stays a well-formed geometry (its ends aligned,
// non-decreasing, finishing at the end of its coordinates; Coords() does not panic). cs.G is the source shape, cs.Pos the index of
// the target shape among the shapes of the same type and layout.
func c01Sibling(c *engine.Ctx, cs c01Case, targets []*ref.G) {
	g := cs.G
	h := targets[cs.Pos]
	c.Count("evaluations", 1)
	flat, ends, endss := g.Flat()
	cf := append(make([]float64, 0, len(flat)+3*g.Layout.Stride()+5), flat...)
	ce := append(make([]int, 0, len(ends)+5), ends...)
	cee := make([][]int, 0, len(endss)+3)
	for _, r := range endss {
		cee = append(cee, append(make([]int, 0, len(r)+3), r...))
	}
	mk := func() geom.T {
		switch g.Kind {
		case ref.LineString:
			return geom.NewLineStringFlat(g.Layout, cf)
		case ref.LinearRing:
			return geom.NewLinearRingFlat(g.Layout, cf)
		case ref.Polygon:
			return geom.NewPolygonFlat(g.Layout, cf, ce)
		case ref.MultiLineString:
			return geom.NewMultiLineStringFlat(g.Layout, cf, ce)
		case ref.MultiPoint:
			return geom.NewMultiPointFlat(g.Layout, cf, geom.NewMultiPointFlatOptionWithEnds(ce))
		case ref.MultiPolygon:
			return geom.NewMultiPolygonFlat(g.Layout, cf, cee)
		}
		return nil
	}
	snap := func() string {
		var sb strings.Builder
		for _, v := range cf[:cap(cf)] {
			fmt.Fprintf(&sb, "%x,", math.Float64bits(v))
		}
		fmt.Fprint(&sb, "|", ce[:cap(ce)], "|")
		for _, r := range cee[:cap(cee)] {
			fmt.Fprint(&sb, r[:cap(r)], len(r), ";")
		}
		return sb.String()
	}
	fail := func(what, desc string) {
		c.Violate(fmt.Sprintf("%s/%s/sibling/%s", g.Kind, g.Layout, what), clipStr(fmt.Sprintf("%s; both made by New*Flat from the same slices holding %s, then SetCoords(%s) on the first", desc, g, h), 1500), "sibling", cs)
	}
	var a, b geom.T
	var before string
	var err error
	if p, _ := engine.Guard(func() {
		a, b = mk(), mk()
		if a == nil {
			return
		}
		before = snap()
		n1 := func(x []ref.C) []geom.Coord {
			out := make([]geom.Coord, len(x))
			for i, v := range x {
				if v != nil {
					out[i] = v.Floats()
				}
			}
			return out
		}
		n2 := func(x [][]ref.C) [][]geom.Coord {
			out := make([][]geom.Coord, len(x))
			for i, v := range x {
				out[i] = n1(v)
			}
			return out
		}
		switch t := a.(type) {
		case *geom.LineString:
			_, err = t.SetCoords(n1(h.C1))
		case *geom.LinearRing:
			_, err = t.SetCoords(n1(h.C1))
		case *geom.MultiPoint:
			_, err = t.SetCoords(n1(h.C1))
		case *geom.Polygon:
			_, err = t.SetCoords(n2(h.C2))
		case *geom.MultiLineString:
			_, err = t.SetCoords(n2(h.C2))
		case *geom.MultiPolygon:
			arg := make([][][]geom.Coord, len(h.C3))
			for i, v := range h.C3 {
				arg[i] = n2(v)
			}
			_, err = t.SetCoords(arg)
		}
	}); p != nil {
		fail("panic", fmt.Sprintf("panic %v", p))
		return
	}
	if a == nil {
		return
	}
	if err != nil {
		fail("error", "SetCoords: "+err.Error())
		return
	}
	// (whether SetCoords may reuse storage that the constructor was given is not stated by the
	// property: a change of the caller's slices is counted, not reported; what IS stated is that
	// a geometry obtained from a constructor is well formed - the sibling below)
	if after := snap(); after != before {
		c.Count("sibling_storage_reused", 1)
	}
	if d := observeEq(a, h, ref.EqualOpt{}); d != "" {
		fail("receiver", "the receiver does not read back what was set: "+d)
		return
	}
	var werr error
	var d string
	if p, _ := engine.Guard(func() {
		werr = ref.WellFormed(b)
		if werr == nil {
			_, werr = ref.Observe(b)
		}
	}); p != nil || werr != nil {
		fail("sibling-ill-formed", fmt.Sprintf("the other geometry is no longer well formed: panic=%v %v %s", p, werr, d))
		return
	}
	c.Count("sibling_cases", 1)
}

// c01SelfAlias: a second SetCoords on the same object whose argument is built from views of the
// receiver's own storage (the slices returned by Coord(i)) in another order: reversed, shifted
// right behind one fresh coordinate, shifted left in front of one. What is read back must be what
// was passed in - an implementation that refills its storage in place reads coordinates it has
// already overwritten. Every type with SetCoords and at least two coordinates.
func c01SelfAlias(c *engine.Ctx, cs c01Case, fail func(what, desc string)) {
	g := cs.G
	n := numCoords(g)
	if g.Kind == ref.Point || g.Kind == ref.Collection || n < 2 || g.Layout == geom.NoLayout {
		return
	}
	// the coordinate values in flat order, and the permutation of this variant:
	// src[i] = index of the old coordinate that slot i receives, -1 = a fresh coordinate
	var old []ref.C
	eachCoord(g, func(p *ref.C) { old = append(old, append(ref.C{}, (*p)...)) })
	src := make([]int, n)
	for i := range src {
		switch cs.Var {
		case 0:
			src[i] = n - 1 - i
		case 1:
			src[i] = i - 1
		default:
			src[i] = i + 1
			if i == n-1 {
				src[i] = -1
			}
		}
	}
	fresh := make(ref.C, g.Layout.Stride())
	for k := range fresh {
		fresh[k] = ref.F(-7000 - float64(k))
	}
	want := g.Clone()
	k := 0
	eachCoord(want, func(p *ref.C) {
		if src[k] < 0 {
			*p = append(ref.C{}, fresh...)
		} else {
			*p = append(ref.C{}, old[src[k]]...)
		}
		k++
	})
	var t geom.T
	p, _ := engine.Guard(func() {
		t = g.MustBuild()
		co := t.(interface {
			Coord(i int) geom.Coord
			NumCoords() int
		})
		// a MultiPoint indexes its coordinates by member (empty members included), every
		// other type by position in the flat array
		at := make([]int, 0, n)
		if g.Kind == ref.MultiPoint {
			for i := range g.C1 {
				if g.C1[i] != nil {
					at = append(at, i)
				}
			}
		} else {
			for i := 0; i < n; i++ {
				at = append(at, i)
			}
		}
		views := make([]geom.Coord, n)
		for i := range views {
			if src[i] < 0 {
				views[i] = fresh.Floats()
			} else {
				views[i] = co.Coord(at[src[i]])
			}
		}
		// the argument has the structure of the model, its coordinates are the views
		k := 0
		take := func(m int) []geom.Coord {
			out := views[k : k+m : k+m]
			k += m
			return out
		}
		switch tt := t.(type) {
		case *geom.LineString:
			tt.MustSetCoords(take(n))
		case *geom.LinearRing:
			tt.MustSetCoords(take(n))
		case *geom.MultiPoint:
			arg := make([]geom.Coord, len(g.C1))
			for i := range g.C1 {
				if g.C1[i] != nil {
					arg[i] = take(1)[0]
				}
			}
			tt.MustSetCoords(arg)
		case *geom.Polygon:
			arg := make([][]geom.Coord, len(g.C2))
			for i := range g.C2 {
				arg[i] = take(len(g.C2[i]))
			}
			tt.MustSetCoords(arg)
		case *geom.MultiLineString:
			arg := make([][]geom.Coord, len(g.C2))
			for i := range g.C2 {
				arg[i] = take(len(g.C2[i]))
			}
			tt.MustSetCoords(arg)
		case *geom.MultiPolygon:
			arg := make([][][]geom.Coord, len(g.C3))
			for i := range g.C3 {
				arg[i] = make([][]geom.Coord, len(g.C3[i]))
				for j := range g.C3[i] {
					arg[i][j] = take(len(g.C3[i][j]))
				}
			}
			tt.MustSetCoords(arg)
		}
	})
	if p != nil {
		fail("panic", fmt.Sprintf("panic %v", p))
		return
	}
	if err := ref.WellFormed(t); err != nil {
		fail("ill-formed", "after SetCoords with views of the receiver's own coordinates: "+err.Error())
		return
	}
	if d := observeEq(t, want, ref.EqualOpt{}); d != "" {
		fail("lossy", fmt.Sprintf("SetCoords with views of the receiver's own coordinates (variant %d: 0 reversed, 1 shifted right behind a fresh coordinate, 2 shifted left): %s", cs.Var, d))
		return
	}
	c.Count("selfalias_ok", 1)
	c.DistinctStr(mustJSON(cs))
}

func isNilT(t geom.T) bool {
	switch v := t.(type) {
	case *geom.Point:
		return v == nil
	case *geom.LineString:
		return v == nil
	case *geom.LinearRing:
		return v == nil
	case *geom.Polygon:
		return v == nil
	case *geom.MultiPoint:
		return v == nil
	case *geom.MultiLineString:
		return v == nil
	case *geom.MultiPolygon:
		return v == nil
	case *geom.GeometryCollection:
		return v == nil
	}
	return t == nil
}
