// Package sched17 is the cooperative scheduler for property C17: threads are goroutines gated
// by per-thread channels, exactly one runs at a time, and every scheduling point (an
// instrumented access, routed through a hook) asks the explorer which thread continues.
package sched17

import (
	"fmt"

	"verif/engine"
)

// Sched runs thread bodies under the control of one explorer execution.
type Sched struct {
	m       *engine.MC
	threads []*thread
	current int
	events  chan event
	Points  int
	Horizon int
	Capped  bool
	Trace   []string
}

type thread struct {
	id   int
	wake chan struct{}
	done bool
}

type event struct {
	id       int
	finished bool
	label    string
	panicked any
}

// Yield is the scheduling point; install it as the access hook. It must only be called from
// the goroutine of the thread that is currently running.
func (s *Sched) Yield(label string) {
	if s == nil || s.current < 0 {
		return
	}
	if s.Points >= s.Horizon {
		s.Capped = true
		return
	}
	t := s.threads[s.current]
	s.events <- event{id: t.id, label: label}
	<-t.wake
}

// Run executes the bodies to completion under the schedule chosen by m. It returns the panic
// values of the threads (nil when a thread returned normally).
func Run(m *engine.MC, horizon int, install func(yield func(label string)), bodies []func()) (*Sched, []any) {
	return RunPrepared(m, horizon, install, bodies, nil)
}

// RunPrepared is Run with a callback that receives the scheduler before any thread starts.
func RunPrepared(m *engine.MC, horizon int, install func(yield func(label string)), bodies []func(), prepared func(*Sched)) (*Sched, []any) {
	s := &Sched{m: m, events: make(chan event), Horizon: horizon, current: -1}
	if prepared != nil {
		prepared(s)
	}
	panics := make([]any, len(bodies))
	for i := range bodies {
		t := &thread{id: i, wake: make(chan struct{})}
		s.threads = append(s.threads, t)
		body := bodies[i]
		go func() {
			<-t.wake
			defer func() {
				r := recover()
				s.events <- event{id: t.id, finished: true, panicked: r}
			}()
			body()
		}()
	}
	install(s.Yield)
	defer install(nil)
	live := len(bodies)
	// initial choice
	s.current = s.pick(-1)
	s.threads[s.current].wake <- struct{}{}
	for live > 0 {
		ev := <-s.events
		if ev.finished {
			s.threads[ev.id].done = true
			panics[ev.id] = ev.panicked
			live--
			if live == 0 {
				break
			}
			s.current = s.pick(-1)
			s.threads[s.current].wake <- struct{}{}
			continue
		}
		s.Points++
		next := s.pick(ev.id)
		if next != ev.id && len(s.Trace) < 16 {
			s.Trace = append(s.Trace, fmt.Sprintf("point %d: t%d preempted at %s, t%d runs", s.Points, ev.id, ev.label, next))
		}
		s.current = next
		s.threads[next].wake <- struct{}{}
	}
	s.current = -1
	return s, panics
}

// pick asks the explorer: the running thread first (choice 0 = no preemption), then ascending ids.
func (s *Sched) pick(running int) int {
	var enabled []int
	if running >= 0 && !s.threads[running].done {
		enabled = append(enabled, running)
	}
	for _, t := range s.threads {
		if !t.done && t.id != running {
			enabled = append(enabled, t.id)
		}
	}
	if len(enabled) == 0 {
		panic("sched17: no enabled thread (deadlock)")
	}
	if len(enabled) == 1 {
		return enabled[0]
	}
	return enabled[s.m.Choose(len(enabled), "sched")]
}
